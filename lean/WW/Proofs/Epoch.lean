/- Helper lemmas for C20 (epoch clocks): closed forms of the two creation rules, frame lemmas of the other
   operations, and the inductions over histories. Property theorems are in `WW/Props/C20.lean`. -/
import WW.Model.Epoch
import WW.Proofs.Basic
namespace WW.Epoch
open WW

/-! ## manager: `create_epoch` -/

/-- closed form of a successful `create_epoch` -/
theorem Mgr.createEpoch_ok {s : Mgr} {now : Nat}
    (h1 : s.cur.start + s.cfg.duration ≤ now) (h2 : s.cur.id + 1 ≤ U64MAX)
    (h3 : s.cur.start + s.cfg.duration ≤ U64MAX) :
    s.createEpoch now =
      .ok ({ s with cur := { id := s.cur.id + 1, start := s.cur.start + s.cfg.duration } },
           s.hooks.map (fun h => (h, ({ id := s.cur.id + 1, start := s.cur.start + s.cfg.duration } : Ep)))) := by
  unfold Mgr.createEpoch
  rw [if_neg (by omega), if_neg (by omega), if_neg (by omega), if_neg (by omega)]

theorem Mgr.createEpoch_panic_of_before_start {s : Mgr} {now : Nat} (h : now < s.cur.start) :
    s.createEpoch now = .panic := by
  unfold Mgr.createEpoch
  rw [if_pos h]

theorem Mgr.createEpoch_err_of_early {s : Mgr} {now : Nat} (h0 : s.cur.start ≤ now)
    (h : now < s.cur.start + s.cfg.duration) : s.createEpoch now = .err := by
  unfold Mgr.createEpoch
  rw [if_neg (by omega), if_pos (by omega)]

/-- everything a successful `create_epoch` does -/
theorem Mgr.createEpoch_inv {s s' : Mgr} {now : Nat} {ms : List (Nat × Ep)}
    (h : s.createEpoch now = .ok (s', ms)) :
    s.cur.start + s.cfg.duration ≤ now ∧ s.cur.id + 1 ≤ U64MAX ∧ s.cur.start + s.cfg.duration ≤ U64MAX ∧
    s' = { s with cur := { id := s.cur.id + 1, start := s.cur.start + s.cfg.duration } } ∧
    ms = s.hooks.map (fun h => (h, s'.cur)) := by
  unfold Mgr.createEpoch at h
  split at h
  · exact absurd h (by simp)
  · split at h
    · exact absurd h (by simp)
    · split at h
      · exact absurd h (by simp)
      · split at h
        · exact absurd h (by simp)
        · injection h with h
          injection h with ha hb
          subst ha
          refine ⟨by omega, by omega, by omega, rfl, hb.symm⟩

/-! ## manager: the other operations do not touch the clock -/

theorem Mgr.addHook_inv {s s' : Mgr} {sender h : Nat} (e : s.addHook sender h = .ok s') :
    sender = s.owner ∧ h ∉ s.hooks ∧ s' = { s with hooks := s.hooks ++ [h] } := by
  unfold Mgr.addHook at e
  split at e
  · exact absurd e (by simp)
  · split at e
    · exact absurd e (by simp)
    · injection e with e
      rename_i h1 h2
      refine ⟨by simpa using h1, by simpa using h2, e.symm⟩

theorem Mgr.removeHook_inv {s s' : Mgr} {sender h : Nat} (e : s.removeHook sender h = .ok s') :
    sender = s.owner ∧ h ∈ s.hooks ∧ s' = { s with hooks := s.hooks.erase h } := by
  unfold Mgr.removeHook at e
  split at e
  · exact absurd e (by simp)
  · split at e
    · injection e with e
      rename_i h1 h2
      refine ⟨by simpa using h1, by simpa using h2, e.symm⟩
    · exact absurd e (by simp)

theorem Mgr.updateConfig_inv {s s' : Mgr} {sender : Nat} {c : Cfg} (e : s.updateConfig sender c = .ok s') :
    sender = s.owner ∧ s' = { s with cfg := c } := by
  unfold Mgr.updateConfig at e
  split at e
  · exact absurd e (by simp)
  · injection e with e
    rename_i h1
    exact ⟨by simpa using h1, e.symm⟩

/-- the three possible shapes of a successful manager transaction -/
theorem Mgr.step_cases {s s' : Mgr} {now sender : Nat} {op : MOp} {ms : List (Nat × Ep)}
    (e : s.step now sender op = .ok (s', ms)) :
    (op = .create ∧ s.createEpoch now = .ok (s', ms)) ∨
    (op ≠ .create ∧ ms = [] ∧ s'.cur = s.cur ∧ s'.owner = s.owner ∧
      ((∃ h, op = .addHook h ∧ sender = s.owner ∧ h ∉ s.hooks ∧ s'.hooks = s.hooks ++ [h] ∧ s'.cfg = s.cfg) ∨
       (∃ h, op = .removeHook h ∧ sender = s.owner ∧ h ∈ s.hooks ∧ s'.hooks = s.hooks.erase h ∧ s'.cfg = s.cfg) ∨
       (∃ c, op = .updateConfig c ∧ sender = s.owner ∧ s'.hooks = s.hooks ∧ s'.cfg = c))) := by
  cases op with
  | create => exact Or.inl ⟨rfl, e⟩
  | addHook h =>
    right
    simp only [Mgr.step] at e
    cases hh : s.addHook sender h with
    | ok t =>
      rw [hh] at e
      injection e with e
      injection e with e1 e2
      obtain ⟨a, b, c⟩ := Mgr.addHook_inv hh
      subst e1
      subst c
      exact ⟨by simp, e2.symm, rfl, rfl, Or.inl ⟨h, rfl, a, b, rfl, rfl⟩⟩
    | err => rw [hh] at e; exact absurd e (by simp [bind, Res.bind])
    | panic => rw [hh] at e; exact absurd e (by simp [bind, Res.bind])
  | removeHook h =>
    right
    simp only [Mgr.step] at e
    cases hh : s.removeHook sender h with
    | ok t =>
      rw [hh] at e
      injection e with e
      injection e with e1 e2
      obtain ⟨a, b, c⟩ := Mgr.removeHook_inv hh
      subst e1
      subst c
      exact ⟨by simp, e2.symm, rfl, rfl, Or.inr (Or.inl ⟨h, rfl, a, b, rfl, rfl⟩)⟩
    | err => rw [hh] at e; exact absurd e (by simp [bind, Res.bind])
    | panic => rw [hh] at e; exact absurd e (by simp [bind, Res.bind])
  | updateConfig c =>
    right
    simp only [Mgr.step] at e
    cases hh : s.updateConfig sender c with
    | ok t =>
      rw [hh] at e
      injection e with e
      injection e with e1 e2
      obtain ⟨a, b⟩ := Mgr.updateConfig_inv hh
      subst e1
      subst b
      exact ⟨by simp, e2.symm, rfl, rfl, Or.inr (Or.inr ⟨c, rfl, a, rfl, rfl⟩)⟩
    | err => rw [hh] at e; exact absurd e (by simp [bind, Res.bind])
    | panic => rw [hh] at e; exact absurd e (by simp [bind, Res.bind])

/-! ## manager: histories -/

/-- all `update_config` operations of a history configure a positive duration -/
def PosDurOps (ops : List (Nat × Nat × MOp)) : Prop :=
  ∀ x ∈ ops, ∀ c, x.2.2 = MOp.updateConfig c → 0 < c.duration

theorem PosDurOps.tail {x : Nat × Nat × MOp} {xs : List (Nat × Nat × MOp)} (h : PosDurOps (x :: xs)) :
    PosDurOps xs := fun y hy c hc => h y (List.mem_cons_of_mem _ hy) c hc

/-- what one step of a history does to the state and to the list of created epochs -/
theorem Mgr.created_cons (s : Mgr) (x : Nat × Nat × MOp) (xs : List (Nat × Nat × MOp)) :
    (∃ ms, x.2.2 = .create ∧ s.createEpoch x.1 = .ok (s.next x, ms) ∧
        s.created (x :: xs) = (s.next x).cur :: (s.next x).created xs) ∨
    ((s.next x).cur = s.cur ∧ s.created (x :: xs) = (s.next x).created xs ∧
        ((s.next x).cfg = s.cfg ∨ ∃ c, x.2.2 = .updateConfig c ∧ (s.next x).cfg = c)) := by
  obtain ⟨now, sender, op⟩ := x
  cases hs : s.step now sender op with
  | ok r =>
    obtain ⟨s', ms⟩ := r
    have hn : s.next (now, sender, op) = s' := by simp [Mgr.next, hs]
    rcases Mgr.step_cases hs with ⟨hop, hc⟩ | ⟨hop, _, hcur, _, hrest⟩
    · left
      subst hop
      refine ⟨ms, rfl, by rw [hn]; exact hc, ?_⟩
      rw [hn]
      simp only [Mgr.created, hs]
    · right
      rw [hn]
      refine ⟨hcur, ?_, ?_⟩
      · cases op with
        | create => exact absurd rfl hop
        | addHook h => simp only [Mgr.created, hn]
        | removeHook h => simp only [Mgr.created, hn]
        | updateConfig c => simp only [Mgr.created, hn]
      · rcases hrest with ⟨h, _, _, _, _, hcfg⟩ | ⟨h, _, _, _, _, hcfg⟩ | ⟨c, hc, _, _, hcfg⟩
        · exact Or.inl hcfg
        · exact Or.inl hcfg
        · exact Or.inr ⟨c, hc, hcfg⟩
  | err =>
    have hn : s.next (now, sender, op) = s := by simp [Mgr.next, hs]
    right
    rw [hn]
    refine ⟨rfl, ?_, Or.inl rfl⟩
    cases op <;> simp only [Mgr.created, hs, hn]
  | panic =>
    have hn : s.next (now, sender, op) = s := by simp [Mgr.next, hs]
    right
    rw [hn]
    refine ⟨rfl, ?_, Or.inl rfl⟩
    cases op <;> simp only [Mgr.created, hs, hn]

theorem Mgr.created_ids (s : Mgr) (ops : List (Nat × Nat × MOp)) :
    (s.created ops).map (·.id) = List.range' (s.cur.id + 1) (s.created ops).length := by
  induction ops generalizing s with
  | nil => simp [Mgr.created]
  | cons x xs ih =>
    rcases Mgr.created_cons s x xs with ⟨ms, _, hc, hcr⟩ | ⟨hcur, hcr, _⟩
    · obtain ⟨_, _, _, hs', _⟩ := Mgr.createEpoch_inv hc
      rw [hcr, List.map_cons, List.length_cons, List.range'_succ, ih (s.next x)]
      have : (s.next x).cur.id = s.cur.id + 1 := by rw [hs']
      rw [this]
    · rw [hcr, ih (s.next x), hcur]

theorem Mgr.reach_id (s : Mgr) (ops : List (Nat × Nat × MOp)) :
    (s.reach ops).cur.id = s.cur.id + (s.created ops).length := by
  induction ops generalizing s with
  | nil => simp [Mgr.reach, Mgr.created]
  | cons x xs ih =>
    rcases Mgr.created_cons s x xs with ⟨ms, _, hc, hcr⟩ | ⟨hcur, hcr, _⟩
    · obtain ⟨_, _, _, hs', _⟩ := Mgr.createEpoch_inv hc
      have : (s.next x).cur.id = s.cur.id + 1 := by rw [hs']
      rw [Mgr.reach, ih (s.next x), hcr, List.length_cons, this]
      omega
    · rw [Mgr.reach, ih (s.next x), hcr, hcur]

theorem Mgr.next_posDur {s : Mgr} {x : Nat × Nat × MOp} {xs : List (Nat × Nat × MOp)}
    (hd : 0 < s.cfg.duration) (hops : PosDurOps (x :: xs)) : 0 < (s.next x).cfg.duration := by
  rcases Mgr.created_cons s x xs with ⟨ms, _, hc, _⟩ | ⟨_, _, hcfg | ⟨c, hc, hcfg⟩⟩
  · obtain ⟨_, _, _, hs', _⟩ := Mgr.createEpoch_inv hc
    rw [hs']; exact hd
  · rw [hcfg]; exact hd
  · rw [hcfg]; exact hops x (List.mem_cons_self) c hc

/-- start times never decrease, whatever the durations -/
theorem Mgr.created_starts_le (s : Mgr) (ops : List (Nat × Nat × MOp)) :
    List.Pairwise (fun a b : Ep => a.start ≤ b.start) (s.cur :: s.created ops) := by
  induction ops generalizing s with
  | nil => simp [Mgr.created]
  | cons x xs ih =>
    rcases Mgr.created_cons s x xs with ⟨ms, _, hc, hcr⟩ | ⟨hcur, hcr, _⟩
    · obtain ⟨_, _, _, hs', _⟩ := Mgr.createEpoch_inv hc
      have hst : (s.next x).cur.start = s.cur.start + s.cfg.duration := by rw [hs']
      have ih' := ih (s.next x)
      rw [hcr]
      refine List.pairwise_cons.2 ⟨?_, ih'⟩
      intro e he
      rcases List.mem_cons.1 he with rfl | he
      · omega
      · have := (List.pairwise_cons.1 ih').1 e he
        omega
    · rw [hcr, ← hcur]; exact ih (s.next x)

/-- with positive durations they strictly increase -/
theorem Mgr.created_starts_lt (s : Mgr) (ops : List (Nat × Nat × MOp))
    (hd : 0 < s.cfg.duration) (hops : PosDurOps ops) :
    List.Pairwise (fun a b : Ep => a.start < b.start) (s.cur :: s.created ops) := by
  induction ops generalizing s with
  | nil => simp [Mgr.created]
  | cons x xs ih =>
    have hd' := Mgr.next_posDur hd hops
    rcases Mgr.created_cons s x xs with ⟨ms, _, hc, hcr⟩ | ⟨hcur, hcr, _⟩
    · obtain ⟨_, _, _, hs', _⟩ := Mgr.createEpoch_inv hc
      have hst : (s.next x).cur.start = s.cur.start + s.cfg.duration := by rw [hs']
      have ih' := ih (s.next x) hd' hops.tail
      rw [hcr]
      refine List.pairwise_cons.2 ⟨?_, ih'⟩
      intro e he
      rcases List.mem_cons.1 he with rfl | he
      · omega
      · have := (List.pairwise_cons.1 ih').1 e he
        omega
    · rw [hcr, ← hcur]; exact ih (s.next x) hd' hops.tail

/-! ## manager: hooks -/

/-! ### `Epoch{id}` for an earlier epoch -/

/-- the history contains no configuration update -/
def NoCfgOps : List (Nat × Nat × MOp) → Prop
  | [] => True
  | x :: xs => (∀ c, x.2.2 ≠ .updateConfig c) ∧ NoCfgOps xs

/-- what a config-free history keeps of the state it started from: same config, `k` epochs later, each one
    duration long -/
def Ahead (s t : Mgr) (k : Nat) : Prop :=
  t.cfg = s.cfg ∧ t.cur.id = s.cur.id + k ∧ t.cur.start = s.cur.start + k * s.cfg.duration ∧
  (k = 0 → t.cur = s.cur) ∧ (0 < k → t.cur.start ≤ U64MAX)

theorem Mgr.next_ahead {s t : Mgr} {k : Nat} (x : Nat × Nat × MOp) (hx : ∀ c, x.2.2 ≠ .updateConfig c)
    (h : Ahead s t k) : Ahead s (t.next x) k ∨ Ahead s (t.next x) (k + 1) := by
  obtain ⟨now, sender, op⟩ := x
  unfold Mgr.next
  cases hstep : t.step now sender op with
  | err => exact Or.inl h
  | panic => exact Or.inl h
  | ok r =>
    obtain ⟨t', ms⟩ := r
    cases op with
    | create =>
      right
      simp only [Mgr.step, Mgr.createEpoch] at hstep
      split at hstep
      · cases hstep
      · split at hstep
        · cases hstep
        · split at hstep
          · cases hstep
          · split at hstep
            · cases hstep
            · next _ _ _ hov =>
              cases hstep
              obtain ⟨hc, hid, hst, _, _⟩ := h
              refine ⟨hc, ?_, ?_, ?_, ?_⟩
              · show t.cur.id + 1 = s.cur.id + (k + 1); omega
              · show t.cur.start + t.cfg.duration = s.cur.start + (k + 1) * s.cfg.duration
                rw [hc, hst, Nat.add_mul, Nat.one_mul]; omega
              · intro hk; omega
              · intro _
                show t.cur.start + t.cfg.duration ≤ U64MAX
                omega
    | addHook hk =>
      left
      simp only [Mgr.step, Mgr.addHook] at hstep
      split at hstep
      · cases hstep
      · split at hstep
        · cases hstep
        · cases hstep; exact h
    | removeHook hk =>
      left
      simp only [Mgr.step, Mgr.removeHook] at hstep
      split at hstep
      · cases hstep
      · split at hstep
        · cases hstep; exact h
        · cases hstep
    | updateConfig c => exact absurd rfl (hx c)

theorem Mgr.reach_ahead (s : Mgr) (ops : List (Nat × Nat × MOp)) (hn : NoCfgOps ops) :
    ∃ k, Ahead s (s.reach ops) k := by
  suffices H : ∀ (ops : List (Nat × Nat × MOp)) (t : Mgr) (k : Nat), NoCfgOps ops → Ahead s t k →
      ∃ k', Ahead s (t.reach ops) k' from
    H ops s 0 hn ⟨rfl, by omega, by omega, fun _ => rfl, fun h => by omega⟩
  intro ops
  induction ops with
  | nil => intro t k _ h; exact ⟨k, h⟩
  | cons x xs ih =>
    intro t k hn h
    simp only [Mgr.reach]
    rcases Mgr.next_ahead x hn.1 h with h' | h'
    · exact ih _ _ hn.2 h'
    · exact ih _ _ hn.2 h'

theorem Mgr.queryEpoch_of_ahead {s t : Mgr} {k : Nat} (h : Ahead s t k) : t.queryEpoch s.cur.id = .ok s.cur := by
  obtain ⟨hc, hid, hst, h0, hpos⟩ := h
  unfold Mgr.queryEpoch
  by_cases hk : k = 0
  · subst hk
    rw [if_pos (by omega), h0 rfl]
  · have hk' : 0 < k := Nat.pos_of_ne_zero hk
    have hle := hpos hk'
    rw [if_neg (by omega)]
    have hd : t.cur.id - s.cur.id = k := by omega
    simp only [hd, hc]
    have hm : s.cfg.duration * k = k * s.cfg.duration := Nat.mul_comm _ _
    rw [if_neg (by omega), if_neg (by omega)]
    congr 1
    cases hs : s.cur with
    | mk i st =>
      simp only [hs] at hst ⊢
      congr 1
      omega

theorem Mgr.next_hooks_nodup {s : Mgr} (x : Nat × Nat × MOp) (h : s.hooks.Nodup) : (s.next x).hooks.Nodup := by
  obtain ⟨now, sender, op⟩ := x
  cases hs : s.step now sender op with
  | ok r =>
    obtain ⟨s', ms⟩ := r
    have hn : s.next (now, sender, op) = s' := by simp [Mgr.next, hs]
    rw [hn]
    rcases Mgr.step_cases hs with ⟨_, hc⟩ | ⟨_, _, _, _, hrest⟩
    · obtain ⟨_, _, _, hs', _⟩ := Mgr.createEpoch_inv hc
      rw [hs']; exact h
    · rcases hrest with ⟨k, _, _, hk, hh, _⟩ | ⟨k, _, _, _, hh, _⟩ | ⟨c, _, _, hh, _⟩
      · rw [hh]
        refine List.nodup_append.2 ⟨h, by simp, ?_⟩
        intro a ha b hb
        rcases List.mem_singleton.1 hb with rfl
        intro hab; subst hab; exact hk ha
      · rw [hh]; exact h.sublist (List.erase_sublist)
      · rw [hh]; exact h
  | err => have hn : s.next (now, sender, op) = s := by simp [Mgr.next, hs]
           rw [hn]; exact h
  | panic => have hn : s.next (now, sender, op) = s := by simp [Mgr.next, hs]
             rw [hn]; exact h

theorem Mgr.reach_hooks_nodup (s : Mgr) (ops : List (Nat × Nat × MOp)) (h : s.hooks.Nodup) :
    (s.reach ops).hooks.Nodup := by
  induction ops generalizing s with
  | nil => exact h
  | cons x xs ih => exact ih (s.next x) (Mgr.next_hooks_nodup x h)

/-! ## distributor: `create_new_epoch` -/

theorem day_pos : 0 < Gen.DISTRIBUTOR_DAY_IN_NANOSECONDS := by decide

theorem validEpochConfig_iff (c : Cfg) : validEpochConfig c = true ↔ Gen.DISTRIBUTOR_DAY_IN_NANOSECONDS ≤ c.duration := by
  simp [validEpochConfig]

theorem Dist.isFirst_iff (s : Dist) : s.isFirst = true ↔ s.cur.id = 0 ∧ s.cur.start = 0 := by
  simp [Dist.isFirst]

/-- closed form, first epoch -/
theorem Dist.createNewEpoch_first_ok {s : Dist} {now : Nat} (hf : s.isFirst = true)
    (h1 : s.cfg.genesis ≤ now) (h2 : s.cfg.duration ≤ now) :
    s.createNewEpoch now = .ok { s with cur := { id := 1, start := s.cfg.genesis } } := by
  obtain ⟨hid, hst⟩ := (Dist.isFirst_iff s).1 hf
  unfold Dist.createNewEpoch
  rw [if_neg (by omega), if_neg (by omega), if_pos hf, if_neg (by omega), if_neg (by rw [hid]; decide), hid]

/-- closed form, later epochs -/
theorem Dist.createNewEpoch_later_ok {s : Dist} {now : Nat} (hf : s.isFirst = false)
    (h1 : s.cur.start + s.cfg.duration ≤ now) (h2 : s.cur.id + 1 ≤ U64MAX)
    (h3 : s.cur.start + s.cfg.duration ≤ U64MAX) :
    s.createNewEpoch now =
      .ok { s with cur := { id := s.cur.id + 1, start := s.cur.start + s.cfg.duration } } := by
  unfold Dist.createNewEpoch
  rw [if_neg (by omega), if_neg (by omega), if_neg (by simp [hf]), if_neg (by omega), if_neg (by omega)]

theorem Dist.createNewEpoch_panic_of_before_start {s : Dist} {now : Nat} (h : now < s.cur.start) :
    s.createNewEpoch now = .panic := by
  unfold Dist.createNewEpoch
  rw [if_pos h]

theorem Dist.createNewEpoch_err_of_early {s : Dist} {now : Nat} (h0 : s.cur.start ≤ now)
    (h : now < s.cur.start + s.cfg.duration) : s.createNewEpoch now = .err := by
  unfold Dist.createNewEpoch
  rw [if_neg (by omega), if_pos (by omega)]

theorem Dist.createNewEpoch_err_before_genesis {s : Dist} {now : Nat} (hf : s.isFirst = true)
    (h : now < s.cfg.genesis) : s.createNewEpoch now = .err := by
  obtain ⟨hid, hst⟩ := (Dist.isFirst_iff s).1 hf
  unfold Dist.createNewEpoch
  rw [if_neg (by omega)]
  split
  all_goals rfl

/-- everything a successful `create_new_epoch` does -/
theorem Dist.createNewEpoch_inv {s s' : Dist} {now : Nat} (h : s.createNewEpoch now = .ok s') :
    (s.isFirst = true ∧ s.cfg.genesis ≤ now ∧ s.cfg.duration ≤ now ∧
        s' = { s with cur := { id := s.cur.id + 1, start := s.cfg.genesis } }) ∨
    (s.isFirst = false ∧ s.cur.start + s.cfg.duration ≤ now ∧ s.cur.id + 1 ≤ U64MAX ∧
        s.cur.start + s.cfg.duration ≤ U64MAX ∧
        s' = { s with cur := { id := s.cur.id + 1, start := s.cur.start + s.cfg.duration } }) := by
  unfold Dist.createNewEpoch at h
  split at h
  · exact absurd h (by simp)
  · split at h
    · exact absurd h (by simp)
    · split at h
      · rename_i hf
        split at h
        · exact absurd h (by simp)
        · split at h
          · exact absurd h (by simp)
          · injection h with h
            obtain ⟨hid, hst⟩ := (Dist.isFirst_iff s).1 hf
            exact Or.inl ⟨hf, by omega, by omega, h.symm⟩
      · rename_i hf
        split at h
        · exact absurd h (by simp)
        · split at h
          · exact absurd h (by simp)
          · injection h with h
            exact Or.inr ⟨by simpa using hf, by omega, by omega, by omega, h.symm⟩

theorem Dist.updateConfig_inv {s s' : Dist} {sender : Nat} {c : Cfg} (e : s.updateConfig sender c = .ok s') :
    sender = s.owner ∧ Gen.DISTRIBUTOR_DAY_IN_NANOSECONDS ≤ c.duration ∧ s' = { s with cfg := c } := by
  unfold Dist.updateConfig at e
  split at e
  · exact absurd e (by simp)
  · split at e
    · injection e with e
      rename_i h1 h2
      exact ⟨by simpa using h1, (validEpochConfig_iff c).1 h2, e.symm⟩
    · exact absurd e (by simp)

/-- the distributor's stored duration is at least one day (established by `instantiate`, kept by
    `update_config`) -/
def Dist.Valid (s : Dist) : Prop := Gen.DISTRIBUTOR_DAY_IN_NANOSECONDS ≤ s.cfg.duration

theorem Dist.instantiate_valid {sender : Nat} {c : Cfg} {s : Dist} (h : Dist.instantiate sender c = .ok s) :
    s.Valid ∧ s.isFirst = true ∧ s.cfg = c := by
  unfold Dist.instantiate at h
  split at h
  · injection h with h
    rename_i hv
    subst h
    exact ⟨(validEpochConfig_iff c).1 hv, rfl, rfl⟩
  · exact absurd h (by simp)

/-- what one step of a history does -/
theorem Dist.created_cons (s : Dist) (x : Nat × Nat × DOp) (xs : List (Nat × Nat × DOp)) :
    (x.2.2 = .create ∧ s.createNewEpoch x.1 = .ok (s.next x) ∧
        s.created (x :: xs) = (s.next x).cur :: (s.next x).created xs) ∨
    ((s.next x).cur = s.cur ∧ s.created (x :: xs) = (s.next x).created xs ∧
        ((s.next x).cfg = s.cfg ∨ Gen.DISTRIBUTOR_DAY_IN_NANOSECONDS ≤ (s.next x).cfg.duration)) := by
  obtain ⟨now, sender, op⟩ := x
  cases op with
  | create =>
    cases hs : s.createNewEpoch now with
    | ok s' =>
      have hn : s.next (now, sender, .create) = s' := by simp [Dist.next, Dist.step, hs]
      left
      rw [hn]
      refine ⟨rfl, by first | exact hs | rfl, ?_⟩
      simp only [Dist.created, Dist.step, hs]
    | err =>
      have hn : s.next (now, sender, .create) = s := by simp [Dist.next, Dist.step, hs]
      right
      rw [hn]
      refine ⟨rfl, ?_, Or.inl rfl⟩
      simp only [Dist.created, Dist.step, hs, hn]
    | panic =>
      have hn : s.next (now, sender, .create) = s := by simp [Dist.next, Dist.step, hs]
      right
      rw [hn]
      refine ⟨rfl, ?_, Or.inl rfl⟩
      simp only [Dist.created, Dist.step, hs, hn]
  | updateConfig c =>
    right
    cases hs : s.updateConfig sender c with
    | ok s' =>
      have hn : s.next (now, sender, .updateConfig c) = s' := by simp [Dist.next, Dist.step, hs]
      obtain ⟨_, hv, he⟩ := Dist.updateConfig_inv hs
      rw [hn]
      refine ⟨by rw [he], by simp only [Dist.created, hn], Or.inr (by rw [he]; exact hv)⟩
    | err =>
      have hn : s.next (now, sender, .updateConfig c) = s := by simp [Dist.next, Dist.step, hs]
      rw [hn]
      exact ⟨rfl, by simp only [Dist.created, hn], Or.inl rfl⟩
    | panic =>
      have hn : s.next (now, sender, .updateConfig c) = s := by simp [Dist.next, Dist.step, hs]
      rw [hn]
      exact ⟨rfl, by simp only [Dist.created, hn], Or.inl rfl⟩

theorem Dist.next_valid {s : Dist} (x : Nat × Nat × DOp) (h : s.Valid) : (s.next x).Valid := by
  rcases Dist.created_cons s x [] with ⟨_, hc, _⟩ | ⟨_, _, hcfg | hv⟩
  · rcases Dist.createNewEpoch_inv hc with ⟨_, _, _, hs'⟩ | ⟨_, _, _, _, hs'⟩ <;>
    · unfold Dist.Valid; rw [hs']; exact h
  · unfold Dist.Valid; rw [hcfg]; exact h
  · exact hv

theorem Dist.reach_valid (s : Dist) (ops : List (Nat × Nat × DOp)) (h : s.Valid) : (s.reach ops).Valid := by
  induction ops generalizing s with
  | nil => exact h
  | cons x xs ih => exact ih (s.next x) (Dist.next_valid x h)

theorem Dist.created_ids (s : Dist) (ops : List (Nat × Nat × DOp)) :
    (s.created ops).map (·.id) = List.range' (s.cur.id + 1) (s.created ops).length := by
  induction ops generalizing s with
  | nil => simp [Dist.created]
  | cons x xs ih =>
    rcases Dist.created_cons s x xs with ⟨_, hc, hcr⟩ | ⟨hcur, hcr, _⟩
    · have hid : (s.next x).cur.id = s.cur.id + 1 := by
        rcases Dist.createNewEpoch_inv hc with ⟨_, _, _, hs'⟩ | ⟨_, _, _, _, hs'⟩ <;> rw [hs']
      rw [hcr, List.map_cons, List.length_cons, List.range'_succ, ih (s.next x), hid]
    · rw [hcr, ih (s.next x), hcur]

theorem Dist.reach_id (s : Dist) (ops : List (Nat × Nat × DOp)) :
    (s.reach ops).cur.id = s.cur.id + (s.created ops).length := by
  induction ops generalizing s with
  | nil => simp [Dist.reach, Dist.created]
  | cons x xs ih =>
    rcases Dist.created_cons s x xs with ⟨_, hc, hcr⟩ | ⟨hcur, hcr, _⟩
    · have hid : (s.next x).cur.id = s.cur.id + 1 := by
        rcases Dist.createNewEpoch_inv hc with ⟨_, _, _, hs'⟩ | ⟨_, _, _, _, hs'⟩ <;> rw [hs']
      rw [Dist.reach, ih (s.next x), hcr, List.length_cons, hid]
      omega
    · rw [Dist.reach, ih (s.next x), hcr, hcur]

/-- once an epoch exists (`isFirst = false`), start times strictly increase from the current one on -/
theorem Dist.created_starts_lt_later (s : Dist) (ops : List (Nat × Nat × DOp))
    (hv : s.Valid) (hf : s.isFirst = false) :
    List.Pairwise (fun a b : Ep => a.start < b.start) (s.cur :: s.created ops) := by
  induction ops generalizing s with
  | nil => simp [Dist.created]
  | cons x xs ih =>
    have hv' := Dist.next_valid x hv
    have hpos : 0 < s.cfg.duration := Nat.lt_of_lt_of_le day_pos hv
    rcases Dist.created_cons s x xs with ⟨_, hc, hcr⟩ | ⟨hcur, hcr, _⟩
    · rcases Dist.createNewEpoch_inv hc with ⟨hf', _⟩ | ⟨_, _, _, _, hs'⟩
      · rw [hf] at hf'; exact absurd hf' (by simp)
      · have hst : (s.next x).cur.start = s.cur.start + s.cfg.duration := by rw [hs']
        have hf2 : (s.next x).isFirst = false := by rw [hs']; simp [Dist.isFirst]
        have ih' := ih (s.next x) hv' hf2
        rw [hcr]
        refine List.pairwise_cons.2 ⟨?_, ih'⟩
        intro e he
        rcases List.mem_cons.1 he with rfl | he
        · omega
        · have := (List.pairwise_cons.1 ih').1 e he
          omega
    · have hf2 : (s.next x).isFirst = false := by
        simp only [Dist.isFirst] at hf ⊢; rw [hcur]; exact hf
      rw [hcr, ← hcur]; exact ih (s.next x) hv' hf2

/-- over any history, from any valid state: the created epochs' start times strictly increase -/
theorem Dist.created_starts_lt (s : Dist) (ops : List (Nat × Nat × DOp)) (hv : s.Valid) :
    List.Pairwise (fun a b : Ep => a.start < b.start) (s.created ops) := by
  induction ops generalizing s with
  | nil => simp [Dist.created]
  | cons x xs ih =>
    have hv' := Dist.next_valid x hv
    rcases Dist.created_cons s x xs with ⟨_, hc, hcr⟩ | ⟨hcur, hcr, _⟩
    · have hf2 : (s.next x).isFirst = false := by
        rcases Dist.createNewEpoch_inv hc with ⟨_, _, _, hs'⟩ | ⟨_, _, _, _, hs'⟩ <;>
        · rw [hs']; simp [Dist.isFirst]
      rw [hcr]
      exact Dist.created_starts_lt_later (s.next x) xs hv' hf2
    · rw [hcr]; exact ih (s.next x) hv'

/-! ## hook messages and the recording contracts -/

theorem count_of_nodup {l : List Nat} (h : l.Nodup) (a : Nat) : l.count a = if a ∈ l then 1 else 0 := by
  induction l with
  | nil => simp
  | cons b t ih =>
    obtain ⟨hb, ht⟩ := List.nodup_cons.1 h
    rw [List.count_cons, ih ht]
    by_cases hab : b = a
    · subst hab
      simp [hb]
    · have hne : ¬ a = b := fun e => hab e.symm
      simp [hab, hne]

theorem deliver1_count (recs : List Recorder) (m : Nat × Ep) (i : Nat) :
    ((deliver1 recs m)[i]?).map (·.count) = (recs[i]?).map (fun r => r.count + if i = m.1 then 1 else 0) := by
  unfold deliver1
  rw [List.getElem?_mapIdx]
  cases recs[i]? with
  | none => rfl
  | some r =>
    by_cases h : i = m.1 <;> simp [h]

theorem deliver_count (recs : List Recorder) (ms : List (Nat × Ep)) (i : Nat) :
    ((deliver recs ms)[i]?).map (·.count) = (recs[i]?).map (fun r => r.count + (ms.map Prod.fst).count i) := by
  induction ms generalizing recs with
  | nil =>
    cases h : recs[i]? <;> simp [deliver, h]
  | cons m ms ih =>
    have : deliver recs (m :: ms) = deliver (deliver1 recs m) ms := rfl
    rw [this, ih (deliver1 recs m)]
    have h1 := deliver1_count recs m i
    cases hr : recs[i]? with
    | none =>
      rw [hr] at h1
      cases hd : (deliver1 recs m)[i]? with
      | none => rfl
      | some d => rw [hd] at h1; exact absurd h1 (by simp)
    | some r =>
      rw [hr] at h1
      cases hd : (deliver1 recs m)[i]? with
      | none => rw [hd] at h1; exact absurd h1 (by simp)
      | some d =>
        rw [hd] at h1
        simp only [Option.map_some, Option.some.injEq] at h1 ⊢
        rw [h1, List.map_cons, List.count_cons]
        by_cases h : i = m.1
        · subst h; simp; omega
        · have h' : ¬ m.1 = i := fun e => h e.symm
          simp [h, h']

theorem deliver_length (recs : List Recorder) (ms : List (Nat × Ep)) : (deliver recs ms).length = recs.length := by
  induction ms generalizing recs with
  | nil => rfl
  | cons m ms ih =>
    have : deliver recs (m :: ms) = deliver (deliver1 recs m) ms := rfl
    rw [this, ih]
    simp [deliver1]

theorem deliver1_get (recs : List Recorder) (m : Nat × Ep) (i : Nat) :
    (deliver1 recs m)[i]? =
      (recs[i]?).map (fun r => if i = m.1 then ({ count := r.count + 1, last := m.2 } : Recorder) else r) := by
  unfold deliver1
  rw [List.getElem?_mapIdx]

/-- after delivering messages that all carry epoch `e`, a recorder that was addressed remembers `e` as the last
    epoch it was told, any other recorder keeps what it had -/
theorem deliver_last (e : Ep) (ms : List (Nat × Ep)) (hms : ∀ m ∈ ms, m.2 = e) (recs : List Recorder) (i : Nat) :
    ((deliver recs ms)[i]?).map (·.last) =
      (recs[i]?).map (fun r => if i ∈ ms.map Prod.fst then e else r.last) := by
  induction ms generalizing recs with
  | nil => cases h : recs[i]? <;> simp [deliver, h]
  | cons m ms ih =>
    have hd : deliver recs (m :: ms) = deliver (deliver1 recs m) ms := rfl
    have hm : m.2 = e := hms m List.mem_cons_self
    rw [hd, ih (fun x hx => hms x (List.mem_cons_of_mem _ hx)), deliver1_get]
    cases recs[i]? with
    | none => rfl
    | some r =>
      simp only [Option.map_some, List.map_cons, List.mem_cons]
      by_cases h1 : i = m.1
      · simp [h1, hm]
      · by_cases h2 : i ∈ ms.map Prod.fst <;> simp [h1, h2]

end WW.Epoch
