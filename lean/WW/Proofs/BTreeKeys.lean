/-
  The map primitives of the regenerated kernels (`WW/Cw/BTree.lean`: structural recursions) against the
  incentive model's own look-ups `maxKey` / `maxKeyLE` (`WW/Model/Incentive.lean`: left folds), on EVERY
  association list — sorted or not, with or without repeated keys — and what the primitives return
  (membership, greatest key, bound).  Core Lean only.  Does not mention `WW.Gen.K`.
-/
import WW.Cw.BTree
import WW.Model.Incentive
namespace WW
open WW.Inc

variable {V : Type}

/-- the fold step of `maxKey` -/
private def mkS (acc : Option (Nat × V)) (p : Nat × V) : Option (Nat × V) :=
  match acc with
  | none => some p
  | some q => if q.1 ≤ p.1 then some p else acc

/-- an accumulator combined with the result for the rest of the list -/
private def mkC (acc r : Option (Nat × V)) : Option (Nat × V) :=
  match r with
  | none => acc
  | some q =>
    match acc with
    | none => some q
    | some a => if a.1 ≤ q.1 then some q else some a

private theorem mkC_step (acc : Option (Nat × V)) (p : Nat × V) (r : Option (Nat × V)) :
    mkC (mkS acc p) r =
      mkC acc (match r with
               | none => some p
               | some q => if p.1 ≤ q.1 then some q else some p) := by
  cases r with
  | none => cases acc <;> rfl
  | some q =>
    cases acc with
    | none =>
      show (if p.1 ≤ q.1 then some q else some p) = mkC none (if p.1 ≤ q.1 then some q else some p)
      by_cases h : p.1 ≤ q.1
      · rw [if_pos h]; rfl
      · rw [if_neg h]; rfl
    | some a =>
      show mkC (if a.1 ≤ p.1 then some p else some a) (some q)
          = mkC (some a) (if p.1 ≤ q.1 then some q else some p)
      by_cases h1 : a.1 ≤ p.1 <;> by_cases h2 : p.1 ≤ q.1
      · rw [if_pos h1, if_pos h2]
        show (if p.1 ≤ q.1 then some q else some p) = (if a.1 ≤ q.1 then some q else some a)
        rw [if_pos h2, if_pos (Nat.le_trans h1 h2)]
      · rw [if_pos h1, if_neg h2]
        show (if p.1 ≤ q.1 then some q else some p) = (if a.1 ≤ p.1 then some p else some a)
        rw [if_neg h2, if_pos h1]
      · rw [if_neg h1, if_pos h2]
      · rw [if_neg h1, if_neg h2]
        show (if a.1 ≤ q.1 then some q else some a) = (if a.1 ≤ p.1 then some p else some a)
        have h3 : ¬ a.1 ≤ q.1 := by omega
        rw [if_neg h3, if_neg h1]

private theorem foldl_mkS (l : List (Nat × V)) (acc : Option (Nat × V)) :
    l.foldl mkS acc = mkC acc (btreeLastKeyValue l) := by
  induction l generalizing acc with
  | nil => rfl
  | cons p t ih =>
    rw [List.foldl_cons, ih (mkS acc p), mkC_step]
    rfl

private theorem mkC_none (r : Option (Nat × V)) : mkC none r = r := by
  cases r <;> rfl

/-- `BTreeMap::last_key_value` as the translator reads it IS the model's `maxKey`, on every list. -/
theorem btreeLastKeyValue_eq_maxKey (l : List (Nat × V)) : btreeLastKeyValue l = maxKey l := by
  have h : maxKey l = l.foldl mkS none := rfl
  rw [h, foldl_mkS, mkC_none]

private theorem foldl_mkS_le (e : Nat) (l : List (Nat × V)) (acc : Option (Nat × V)) :
    l.foldl (fun acc p => if p.1 ≤ e then mkS acc p else acc) acc = mkC acc (btreeRangeToInclNextBack l e) := by
  induction l generalizing acc with
  | nil => rfl
  | cons p t ih =>
    rw [List.foldl_cons]
    by_cases hp : p.1 ≤ e
    · rw [if_pos hp, ih (mkS acc p), mkC_step]
      show _ = mkC acc (match btreeRangeToInclNextBack t e with
                        | none => if p.1 ≤ e then some p else none
                        | some q => if p.1 ≤ e then (if p.1 ≤ q.1 then some q else some p) else some q)
      cases btreeRangeToInclNextBack t e with
      | none => dsimp only; rw [if_pos hp]
      | some q => dsimp only; rw [if_pos hp]
    · rw [if_neg hp, ih acc]
      show _ = mkC acc (match btreeRangeToInclNextBack t e with
                        | none => if p.1 ≤ e then some p else none
                        | some q => if p.1 ≤ e then (if p.1 ≤ q.1 then some q else some p) else some q)
      cases btreeRangeToInclNextBack t e with
      | none => dsimp only; rw [if_neg hp]
      | some q => dsimp only; rw [if_neg hp]

/-- `map.range(..=e).next_back()` as the translator reads it IS the model's `maxKeyLE`, on every list. -/
theorem btreeRangeToInclNextBack_eq_maxKeyLE (l : List (Nat × V)) (e : Nat) :
    btreeRangeToInclNextBack l e = maxKeyLE l e := by
  have h : maxKeyLE l e = l.foldl (fun acc p => if p.1 ≤ e then mkS acc p else acc) none := rfl
  rw [h, foldl_mkS_le, mkC_none]

/-! ### what the primitives return (independent of the model) -/

/-- `last_key_value` is `None` exactly on the empty map -/
theorem btreeLastKeyValue_none_iff (l : List (Nat × V)) : btreeLastKeyValue l = none ↔ l = [] := by
  cases l with
  | nil => exact ⟨fun _ => rfl, fun _ => rfl⟩
  | cons p t =>
    refine ⟨fun h => ?_, fun h => by cases h⟩
    unfold btreeLastKeyValue at h
    cases hq : btreeLastKeyValue t with
    | none => rw [hq] at h; cases h
    | some q =>
      rw [hq] at h; dsimp only at h
      by_cases hle : p.1 ≤ q.1
      · rw [if_pos hle] at h; cases h
      · rw [if_neg hle] at h; cases h

/-- `last_key_value` returns an entry of the map, and no entry has a greater key -/
theorem btreeLastKeyValue_some {l : List (Nat × V)} {r : Nat × V} (h : btreeLastKeyValue l = some r) :
    r ∈ l ∧ ∀ x ∈ l, x.1 ≤ r.1 := by
  induction l generalizing r with
  | nil => cases h
  | cons p t ih =>
    unfold btreeLastKeyValue at h
    cases hq : btreeLastKeyValue t with
    | none =>
      rw [hq] at h; dsimp only at h
      have hr : p = r := Option.some.inj h
      have ht : t = [] := (btreeLastKeyValue_none_iff t).mp hq
      subst hr; subst ht
      refine ⟨List.mem_cons_self .., fun x hx => ?_⟩
      cases hx with
      | head => exact Nat.le_refl _
      | tail _ hx => cases hx
    | some q =>
      rw [hq] at h; dsimp only at h
      have ⟨hm, hall⟩ := ih hq
      by_cases hle : p.1 ≤ q.1
      · rw [if_pos hle] at h
        have hr : q = r := Option.some.inj h
        subst hr
        refine ⟨List.mem_cons_of_mem _ hm, fun x hx => ?_⟩
        cases hx with
        | head => exact hle
        | tail _ hx => exact hall x hx
      · rw [if_neg hle] at h
        have hr : p = r := Option.some.inj h
        subst hr
        refine ⟨List.mem_cons_self .., fun x hx => ?_⟩
        cases hx with
        | head => exact Nat.le_refl _
        | tail _ hx => have := hall x hx; omega

/-- `range(..=b).next_back()` is `None` exactly when no key is `≤ b` -/
theorem btreeRangeToInclNextBack_none_iff (l : List (Nat × V)) (b : Nat) :
    btreeRangeToInclNextBack l b = none ↔ ∀ x ∈ l, ¬ x.1 ≤ b := by
  induction l with
  | nil => exact ⟨fun _ x hx => (by cases hx), fun _ => rfl⟩
  | cons p t ih =>
    unfold btreeRangeToInclNextBack
    cases hq : btreeRangeToInclNextBack t b with
    | none =>
      have ht := ih.mp hq
      by_cases hp : p.1 ≤ b
      · show (if p.1 ≤ b then some p else none) = none ↔ _
        rw [if_pos hp]
        exact ⟨fun h => (by cases h), fun h => absurd hp (h p (List.mem_cons_self ..))⟩
      · show (if p.1 ≤ b then some p else none) = none ↔ _
        rw [if_neg hp]
        refine ⟨fun _ x hx => ?_, fun _ => rfl⟩
        cases hx with
        | head => exact hp
        | tail _ hx => exact ht x hx
    | some q =>
      have hne : ¬ ∀ x ∈ t, ¬ x.1 ≤ b := fun h => by
        have := ih.mpr h; rw [hq] at this; cases this
      show (if p.1 ≤ b then (if p.1 ≤ q.1 then some q else some p) else some q) = none ↔ _
      refine ⟨fun h => ?_, fun h => absurd (fun x hx => h x (List.mem_cons_of_mem _ hx)) hne⟩
      by_cases hp : p.1 ≤ b
      · rw [if_pos hp] at h
        by_cases hle : p.1 ≤ q.1
        · rw [if_pos hle] at h; cases h
        · rw [if_neg hle] at h; cases h
      · rw [if_neg hp] at h; cases h

/-- `range(..=b).next_back()` returns an entry of the map with key `≤ b`, and no entry with key `≤ b` has a
    greater key -/
theorem btreeRangeToInclNextBack_some {l : List (Nat × V)} {b : Nat} {r : Nat × V}
    (h : btreeRangeToInclNextBack l b = some r) :
    r ∈ l ∧ r.1 ≤ b ∧ ∀ x ∈ l, x.1 ≤ b → x.1 ≤ r.1 := by
  induction l generalizing r with
  | nil => cases h
  | cons p t ih =>
    unfold btreeRangeToInclNextBack at h
    cases hq : btreeRangeToInclNextBack t b with
    | none =>
      rw [hq] at h
      have ht := (btreeRangeToInclNextBack_none_iff t b).mp hq
      by_cases hp : p.1 ≤ b
      · have h' : (if p.1 ≤ b then some p else none) = some r := h
        rw [if_pos hp] at h'
        have hr : p = r := Option.some.inj h'
        subst hr
        refine ⟨List.mem_cons_self .., hp, fun x hx hxb => ?_⟩
        cases hx with
        | head => exact Nat.le_refl _
        | tail _ hx => exact absurd hxb (ht x hx)
      · have h' : (if p.1 ≤ b then some p else none) = some r := h
        rw [if_neg hp] at h'; cases h'
    | some q =>
      rw [hq] at h
      have ⟨hm, hqb, hall⟩ := ih hq
      have h' : (if p.1 ≤ b then (if p.1 ≤ q.1 then some q else some p) else some q) = some r := h
      by_cases hp : p.1 ≤ b
      · rw [if_pos hp] at h'
        by_cases hle : p.1 ≤ q.1
        · rw [if_pos hle] at h'
          have hr : q = r := Option.some.inj h'
          subst hr
          refine ⟨List.mem_cons_of_mem _ hm, hqb, fun x hx hxb => ?_⟩
          cases hx with
          | head => exact hle
          | tail _ hx => exact hall x hx hxb
        · rw [if_neg hle] at h'
          have hr : p = r := Option.some.inj h'
          subst hr
          refine ⟨List.mem_cons_self .., hp, fun x hx hxb => ?_⟩
          cases hx with
          | head => exact Nat.le_refl _
          | tail _ hx => have := hall x hx hxb; omega
      · rw [if_neg hp] at h'
        have hr : q = r := Option.some.inj h'
        subst hr
        refine ⟨List.mem_cons_of_mem _ hm, hqb, fun x hx hxb => ?_⟩
        cases hx with
        | head => exact absurd hxb hp
        | tail _ hx => exact hall x hx hxb

end WW
