/- Helper lemmas for the chained vault-router model (WW/Model/VaultChain.lean): per-step
   characterisations and the induction over the chain of `NextLoan`s (any number of vaults, any
   payload). Property theorems are in WW/Props/C06.lean. -/
import WW.Model.VaultChain
import Mathlib.Tactic.SplitIfs
namespace WW.VaultChain
open WW
open WW.Vault (VFees fee)

/-! ### point updates -/

theorem upd_same (f : Nat → Nat) (i v : Nat) : upd f i v i = v := by simp [upd]
theorem upd_ne (f : Nat → Nat) (i v x : Nat) (h : x ≠ i) : upd f i v x = f x := by simp [upd, h]
theorem upd2_same (f : Nat → Nat → Nat) (j a v : Nat) : upd2 f j a v j a = v := by simp [upd2, upd]
theorem upd2_ne_asset (f : Nat → Nat → Nat) (j a v x y : Nat) (h : x ≠ j) : upd2 f j a v x y = f x y := by
  simp [upd2, h]
theorem upd2_ne_acct (f : Nat → Nat → Nat) (j a v y : Nat) (h : y ≠ a) : upd2 f j a v j y = f j y := by
  simp [upd2, upd, h]

/-! ### a plain transfer -/

structure MoveSpec (s s' : St) (j src dst n : Nat) : Prop where
  funded : n ≤ s.bal j src
  pend : s'.pend = s.pend
  allTime : s'.allTime = s.allTime
  burned : s'.burned = s.burned
  ctr : s'.ctr = s.ctr
  otherAsset : ∀ x y, x ≠ j → s'.bal x y = s.bal x y
  otherAcct : ∀ y, y ≠ src → y ≠ dst → s'.bal j y = s.bal j y
  srcBal : src ≠ dst → s'.bal j src = s.bal j src - n
  dstBal : src ≠ dst → s'.bal j dst = s.bal j dst + n
  selfBal : src = dst → s'.bal j src = s.bal j src

theorem move_spec {c : Cfg} {s s' : St} {j src dst n : Nat} (h : move c s j src dst n = some s') :
    MoveSpec s s' j src dst n := by
  unfold move at h
  split_ifs at h with hc
  simp only [Option.some.injEq] at h
  subst h
  have hf : n ≤ s.bal j src := by omega
  refine ⟨hf, rfl, rfl, rfl, rfl, ?_, ?_, ?_, ?_, ?_⟩
  · intro x y hx
    simp only []
    rw [upd2_ne_asset _ _ _ _ _ _ hx, upd2_ne_asset _ _ _ _ _ _ hx]
  · intro y h1 h2
    simp only []
    rw [upd2_ne_acct _ _ _ _ _ h2, upd2_ne_acct _ _ _ _ _ h1]
  · intro hne
    simp only []
    rw [upd2_ne_acct _ _ _ _ _ hne, upd2_same]
  · intro hne
    simp only []
    rw [upd2_same, upd2_ne_acct _ _ _ _ _ (Ne.symm hne)]
  · intro he
    subst he
    simp only []
    rw [upd2_same, upd2_same]
    omega

/-! ### CompleteLoan -/

/-- the closed form of the query phase -/
theorem quotes_spec {c : Cfg} {s : St} {L : List (Nat × Nat)} {qs : List (Nat × Nat × Nat)}
    (h : quotes c s L = some qs) :
    qs = L.map (fun e => (e.1, payback c e.1 e.2, s.bal e.1 5 - payback c e.1 e.2)) ∧
    ∀ e ∈ L, e.1 < c.nv ∧ payback c e.1 e.2 ≤ U128MAX ∧ payback c e.1 e.2 ≤ s.bal e.1 5 := by
  induction L generalizing qs with
  | nil =>
    simp only [quotes, Option.some.injEq] at h
    subst h
    exact ⟨rfl, by intro e he; cases he⟩
  | cons e es ih =>
    rw [quotes] at h
    cases hq : quote c s e with
    | none => rw [hq] at h; cases h
    | some q =>
      rw [hq] at h
      cases hqs : quotes c s es with
      | none => rw [hqs] at h; cases h
      | some qs' =>
        rw [hqs] at h
        simp only [Option.some.injEq] at h
        subst h
        obtain ⟨e1, e2⟩ := ih hqs
        unfold quote at hq
        split_ifs at hq with h1 h2 h3
        simp only [Option.some.injEq] at hq
        subst hq
        refine ⟨by rw [e1]; rfl, ?_⟩
        intro x hx
        rcases List.mem_cons.mp hx with rfl | hx
        · exact ⟨by omega, by omega, by omega⟩
        · exact e2 x hx

/-- a single entry the router cannot cover makes the query phase fail -/
theorem quotes_short {c : Cfg} {s : St} {L : List (Nat × Nat)}
    (h : ∃ e ∈ L, s.bal e.1 5 < payback c e.1 e.2) : quotes c s L = none := by
  cases hq : quotes c s L with
  | none => rfl
  | some qs =>
    obtain ⟨e, he, hlt⟩ := h
    have := (quotes_spec hq).2 e he
    omega

/-- the two messages of one entry, when the router holds exactly payback + profit of the asset -/
structure Settle1Spec (s s2 : St) (I : Nat) (q : Nat × Nat × Nat) : Prop where
  pend : s2.pend = s.pend
  allTime : s2.allTime = s.allTime
  burned : s2.burned = s.burned
  ctr : s2.ctr = s.ctr
  otherAsset : ∀ x y, x ≠ q.1 → s2.bal x y = s.bal x y
  router : s2.bal q.1 5 = 0
  vault : s2.bal q.1 (6 + q.1) = s.bal q.1 (6 + q.1) + q.2.1
  initiator : s2.bal q.1 I = s.bal q.1 I + q.2.2
  otherAcct : ∀ y, y ≠ 5 → y ≠ I → y ≠ 6 + q.1 → s2.bal q.1 y = s.bal q.1 y

theorem settle1_spec {c : Cfg} {s s2 : St} {I : Nat} {q : Nat × Nat × Nat}
    (hI5 : I ≠ 5) (hIv : I ≠ 6 + q.1) (hb : s.bal q.1 5 = q.2.1 + q.2.2)
    (h : settle1 c s I q = some s2) : Settle1Spec s s2 I q := by
  unfold settle1 at h
  cases hm : move c s q.1 5 (6 + q.1) q.2.1 with
  | none => rw [hm] at h; cases h
  | some s1 =>
    rw [hm] at h
    simp only [] at h
    have m1 := move_spec hm
    have hne : (5 : Nat) ≠ 6 + q.1 := by omega
    have r1 : s1.bal q.1 5 = q.2.2 := by rw [m1.srcBal hne, hb]; omega
    have v1 : s1.bal q.1 (6 + q.1) = s.bal q.1 (6 + q.1) + q.2.1 := m1.dstBal hne
    split_ifs at h with hz
    · simp only [Option.some.injEq] at h
      subst h
      refine ⟨m1.pend, m1.allTime, m1.burned, m1.ctr, m1.otherAsset, by rw [r1, hz], v1, ?_, ?_⟩
      · rw [m1.otherAcct I hI5 hIv, hz]; rfl
      · intro y h1 _ h3; exact m1.otherAcct y h1 h3
    · have m2 := move_spec h
      have hne2 : (5 : Nat) ≠ I := Ne.symm hI5
      refine ⟨m2.pend.trans m1.pend, m2.allTime.trans m1.allTime, m2.burned.trans m1.burned,
        m2.ctr.trans m1.ctr, ?_, ?_, ?_, ?_, ?_⟩
      · intro x y hx; rw [m2.otherAsset x y hx, m1.otherAsset x y hx]
      · rw [m2.srcBal hne2, r1]; omega
      · rw [m2.otherAcct _ (Ne.symm hne) (Ne.symm hIv), v1]
      · rw [m2.dstBal hne2, m1.otherAcct I hI5 hIv]
      · intro y h1 h2 h3; rw [m2.otherAcct y h1 h2, m1.otherAcct y h1 h3]

/-- the message phase over pairwise different assets -/
structure SettleSpec (s s' : St) (I : Nat) (qs : List (Nat × Nat × Nat)) : Prop where
  pend : s'.pend = s.pend
  allTime : s'.allTime = s.allTime
  burned : s'.burned = s.burned
  ctr : s'.ctr = s.ctr
  otherAsset : ∀ x, (∀ q ∈ qs, q.1 ≠ x) → ∀ y, s'.bal x y = s.bal x y
  router : ∀ q ∈ qs, s'.bal q.1 5 = 0
  vault : ∀ q ∈ qs, s'.bal q.1 (6 + q.1) = s.bal q.1 (6 + q.1) + q.2.1
  initiator : ∀ q ∈ qs, s'.bal q.1 I = s.bal q.1 I + q.2.2
  otherAcct : ∀ q ∈ qs, ∀ y, y ≠ 5 → y ≠ I → y ≠ 6 + q.1 → s'.bal q.1 y = s.bal q.1 y

theorem settle_spec {c : Cfg} {I : Nat} (hI5 : I ≠ 5) (hI6 : I < 6) :
    ∀ (qs : List (Nat × Nat × Nat)) (s s' : St), (qs.map (·.1)).Nodup →
      (∀ q ∈ qs, s.bal q.1 5 = q.2.1 + q.2.2) → settle c s I qs = some s' → SettleSpec s s' I qs := by
  intro qs
  induction qs with
  | nil =>
    intro s s' _ _ h
    simp only [settle, Option.some.injEq] at h
    subst h
    exact ⟨rfl, rfl, rfl, rfl, fun _ _ _ => rfl, fun q hq => (by cases hq), fun q hq => (by cases hq),
      fun q hq => (by cases hq), fun q hq => (by cases hq)⟩
  | cons q qs ih =>
    intro s s' hnd hb h
    rw [settle] at h
    cases h1 : settle1 c s I q with
    | none => rw [h1] at h; cases h
    | some s2 =>
      rw [h1] at h
      simp only [] at h
      simp only [List.map_cons, List.nodup_cons, List.mem_map, not_exists, not_and] at hnd
      obtain ⟨hnot, hnd'⟩ := hnd
      have hne : ∀ q' ∈ qs, q'.1 ≠ q.1 := fun q' hq' he => hnot q' hq' he
      have S1 := settle1_spec hI5 (by omega) (hb q (List.mem_cons_self ..)) h1
      have hb2 : ∀ q' ∈ qs, s2.bal q'.1 5 = q'.2.1 + q'.2.2 := by
        intro q' hq'
        rw [S1.otherAsset _ _ (hne q' hq')]
        exact hb q' (List.mem_cons_of_mem _ hq')
      have S := ih s2 s' hnd' hb2 h
      have hq_not : ∀ q' ∈ qs, q'.1 ≠ q.1 := hne
      refine ⟨S.pend.trans S1.pend, S.allTime.trans S1.allTime, S.burned.trans S1.burned,
        S.ctr.trans S1.ctr, ?_, ?_, ?_, ?_, ?_⟩
      · intro x hx y
        have hx1 : q.1 ≠ x := hx q (List.mem_cons_self ..)
        rw [S.otherAsset x (fun q' hq' => hx q' (List.mem_cons_of_mem _ hq')) y,
          S1.otherAsset x y (Ne.symm hx1)]
      · intro q' hq'
        rcases List.mem_cons.mp hq' with rfl | hq'
        · rw [S.otherAsset _ hq_not 5]; exact S1.router
        · exact S.router q' hq'
      · intro q' hq'
        rcases List.mem_cons.mp hq' with rfl | hq'
        · rw [S.otherAsset _ hq_not]; exact S1.vault
        · rw [S.vault q' hq', S1.otherAsset _ _ (hne q' hq')]
      · intro q' hq'
        rcases List.mem_cons.mp hq' with rfl | hq'
        · rw [S.otherAsset _ hq_not]; exact S1.initiator
        · rw [S.initiator q' hq', S1.otherAsset _ _ (hne q' hq')]
      · intro q' hq' y g1 g2 g3
        rcases List.mem_cons.mp hq' with rfl | hq'
        · rw [S.otherAsset _ hq_not]; exact S1.otherAcct y g1 g2 g3
        · rw [S.otherAcct q' hq' y g1 g2 g3, S1.otherAsset _ _ (hne q' hq')]

/-- `CompleteLoan` over pairwise different vaults, initiator an ordinary account (0..4) -/
structure CompleteSpec (c : Cfg) (s s' : St) (I : Nat) (L : List (Nat × Nat)) : Prop where
  pend : s'.pend = s.pend
  allTime : s'.allTime = s.allTime
  burned : s'.burned = s.burned
  ctr : s'.ctr = s.ctr
  known : ∀ e ∈ L, e.1 < c.nv
  covered : ∀ e ∈ L, payback c e.1 e.2 ≤ s.bal e.1 5
  otherAsset : ∀ x, x ∉ L.map (·.1) → ∀ y, s'.bal x y = s.bal x y
  router : ∀ e ∈ L, s'.bal e.1 5 = 0
  vault : ∀ e ∈ L, s'.bal e.1 (6 + e.1) = s.bal e.1 (6 + e.1) + payback c e.1 e.2
  initiator : ∀ e ∈ L, s'.bal e.1 I = s.bal e.1 I + (s.bal e.1 5 - payback c e.1 e.2)
  otherAcct : ∀ e ∈ L, ∀ y, y ≠ 5 → y ≠ I → y ≠ 6 + e.1 → s'.bal e.1 y = s.bal e.1 y

theorem completeLoan_spec {c : Cfg} {s s' : St} {I : Nat} {L : List (Nat × Nat)} (hI5 : I ≠ 5) (hI6 : I < 6)
    (hnd : (L.map (·.1)).Nodup) (h : completeLoan c s I L = some s') : CompleteSpec c s s' I L := by
  unfold completeLoan at h
  cases hq : quotes c s L with
  | none => rw [hq] at h; cases h
  | some qs =>
    rw [hq] at h
    simp only [] at h
    obtain ⟨hqs, hL⟩ := quotes_spec hq
    have hmap : qs.map (·.1) = L.map (·.1) := by
      rw [hqs, List.map_map]; rfl
    have hb : ∀ q ∈ qs, s.bal q.1 5 = q.2.1 + q.2.2 := by
      intro q hq'
      rw [hqs] at hq'
      obtain ⟨e, he, rfl⟩ := List.mem_map.mp hq'
      have := (hL e he).2.2
      simp only []
      omega
    have S := settle_spec (c := c) hI5 hI6 qs s s' (by rw [hmap]; exact hnd) hb h
    have hmem : ∀ e ∈ L, (e.1, payback c e.1 e.2, s.bal e.1 5 - payback c e.1 e.2) ∈ qs := by
      intro e he; rw [hqs]; exact List.mem_map.mpr ⟨e, he, rfl⟩
    refine ⟨S.pend, S.allTime, S.burned, S.ctr, fun e he => (hL e he).1, fun e he => (hL e he).2.2, ?_,
      fun e he => S.router _ (hmem e he), fun e he => S.vault _ (hmem e he),
      fun e he => S.initiator _ (hmem e he), fun e he => S.otherAcct _ (hmem e he)⟩
    intro x hx y
    apply S.otherAsset x
    intro q hq' he
    apply hx
    rw [← hmap]
    exact List.mem_map.mpr ⟨q, hq', he⟩

theorem completeLoan_short {c : Cfg} {s : St} {I : Nat} {L : List (Nat × Nat)}
    (h : ∃ e ∈ L, s.bal e.1 5 < payback c e.1 e.2) : completeLoan c s I L = none := by
  unfold completeLoan
  rw [quotes_short h]

/-! ### one vault lends, one vault settles -/

structure LendSpec (c : Cfg) (s s1 : St) (j n : Nat) : Prop where
  known : j < c.nv
  idle : s.ctr j = 0
  funded : n ≤ s.bal j (6 + j)
  pend : s1.pend = s.pend
  allTime : s1.allTime = s.allTime
  burned : s1.burned = s.burned
  ctrSelf : s1.ctr j = 1
  ctrOther : ∀ x, x ≠ j → s1.ctr x = s.ctr x
  otherAsset : ∀ x y, x ≠ j → s1.bal x y = s.bal x y
  otherAcct : ∀ y, y ≠ 5 → y ≠ 6 + j → s1.bal j y = s.bal j y
  router : s1.bal j 5 = s.bal j 5 + n
  vault : s1.bal j (6 + j) + n = s.bal j (6 + j)

theorem lend_spec {c : Cfg} {s s1 : St} {j n : Nat} (h : lend c s j n = some s1) : LendSpec c s s1 j n := by
  unfold lend at h
  split_ifs at h with h1 h2
  have m := move_spec h
  have hne : 6 + j ≠ 5 := by omega
  have hf := m.funded
  simp only [] at hf
  refine ⟨by omega, by omega, hf, m.pend, m.allTime, m.burned, ?_, ?_, m.otherAsset, ?_, m.dstBal hne, ?_⟩
  · rw [m.ctr]; exact upd_same _ _ _
  · intro x hx; rw [m.ctr]; exact upd_ne _ _ _ _ hx
  · intro y g1 g2; exact m.otherAcct y g2 g1
  · have := m.srcBal hne
    simp only [] at this
    omega

structure AfterSpec (c : Cfg) (s s' : St) (j old n : Nat) : Prop where
  enough : old + fee (c.fees j).prot n + fee (c.fees j).flash n + fee (c.fees j).burn n ≤ s.bal j (6 + j)
  vault : s'.bal j (6 + j) + fee (c.fees j).burn n = s.bal j (6 + j)
  otherBal : ∀ x y, (x ≠ j ∨ y ≠ 6 + j) → s'.bal x y = s.bal x y
  allTime : s'.allTime j = s.allTime j + fee (c.fees j).prot n
  pend : s'.pend j = s.pend j + fee (c.fees j).prot n
  burned : s'.burned j = s.burned j + fee (c.fees j).burn n
  ctrSelf : s'.ctr j = s.ctr j - 1
  otherLedger : ∀ x, x ≠ j → s'.allTime x = s.allTime x ∧ s'.pend x = s.pend x ∧ s'.burned x = s.burned x
    ∧ s'.ctr x = s.ctr x

theorem afterTrade_spec {c : Cfg} {s s' : St} {j old n : Nat} (h : afterTrade c s j old n = some s') :
    AfterSpec c s s' j old n := by
  unfold afterTrade at h
  split_ifs at h with h1 h2 h3 h4 h5
  simp only [Option.some.injEq] at h
  subst h
  refine ⟨by omega, ?_, ?_, upd_same _ _ _, upd_same _ _ _, upd_same _ _ _, upd_same _ _ _, ?_⟩
  · simp only []
    rw [upd2_same]
    omega
  · intro x y hxy
    simp only []
    by_cases hx : x = j
    · subst hx
      rcases hxy with hxy | hxy
      · exact absurd rfl hxy
      · exact upd2_ne_acct _ _ _ _ _ hxy
    · exact upd2_ne_asset _ _ _ _ _ _ hx
  · intro x hx
    exact ⟨upd_ne _ _ _ _ hx, upd_ne _ _ _ _ hx, upd_ne _ _ _ _ hx, upd_ne _ _ _ _ hx⟩

/-! ### the chain of NextLoans -/

/-- the lending phase: from the start of the chain over `rest` to the start of the payload -/
structure LendRel (rest : List (Nat × Nat)) (s s1 : St) : Prop where
  otherAsset : ∀ x, x ∉ rest.map (·.1) → ∀ y, s1.bal x y = s.bal x y
  otherAcct : ∀ e ∈ rest, ∀ y, y ≠ 5 → y ≠ 6 + e.1 → s1.bal e.1 y = s.bal e.1 y
  router : ∀ e ∈ rest, s1.bal e.1 5 = s.bal e.1 5 + e.2
  vault : ∀ e ∈ rest, s1.bal e.1 (6 + e.1) + e.2 = s.bal e.1 (6 + e.1)

/-- the settling phase (after_trade of every vault, innermost first): from the end of `CompleteLoan`
    to the end of the chain over `rest` -/
structure AfterRel (c : Cfg) (rest : List (Nat × Nat)) (s3 s' : St) : Prop where
  otherBal : ∀ x y, (x ∉ rest.map (·.1) ∨ y ≠ 6 + x) → s'.bal x y = s3.bal x y
  vault : ∀ e ∈ rest, s'.bal e.1 (6 + e.1) + fee (c.fees e.1).burn e.2 = s3.bal e.1 (6 + e.1)
  allTime : ∀ e ∈ rest, s'.allTime e.1 = s3.allTime e.1 + fee (c.fees e.1).prot e.2
  burned : ∀ e ∈ rest, s'.burned e.1 = s3.burned e.1 + fee (c.fees e.1).burn e.2
  pend : ∀ e ∈ rest, s'.pend e.1 = s3.pend e.1 + fee (c.fees e.1).prot e.2
  otherLedger : ∀ x, x ∉ rest.map (·.1) →
    s'.allTime x = s3.allTime x ∧ s'.pend x = s3.pend x ∧ s'.burned x = s3.burned x

/-- everything a successful chain over `rest` consists of -/
structure ChainParts (c : Cfg) (run : St → Option St) (I : Nat) (all rest : List (Nat × Nat)) (s s' : St) : Prop where
  parts : ∃ s1 s2 s3, lends c s rest = some s1 ∧ run s1 = some s2 ∧ completeLoan c s2 I all = some s3 ∧
    LendRel rest s s1 ∧ AfterRel c rest s3 s'
  nodup : (rest.map (·.1)).Nodup
  idle : ∀ e ∈ rest, e.1 < c.nv ∧ s.ctr e.1 = 0
  balGe : ∀ e ∈ rest, s.bal e.1 (6 + e.1) + fee (c.fees e.1).prot e.2 + fee (c.fees e.1).flash e.2 ≤ s'.bal e.1 (6 + e.1)

theorem chainGo_parts {c : Cfg} {run : St → Option St} {I : Nat} {all : List (Nat × Nat)} :
    ∀ (rest : List (Nat × Nat)) (s s' : St), chainGo c run I all s rest = some s' →
      ChainParts c run I all rest s s' := by
  intro rest
  induction rest with
  | nil =>
    intro s s' h
    rw [chainGo] at h
    cases hr : run s with
    | none => rw [hr] at h; cases h
    | some s2 =>
      rw [hr] at h
      simp only [] at h
      refine ⟨⟨s, s2, s', rfl, hr, h, ?_, ?_⟩, List.nodup_nil, fun e he => (by cases he), fun e he => (by cases he)⟩
      · exact ⟨fun _ _ _ => rfl, fun e he => (by cases he), fun e he => (by cases he), fun e he => (by cases he)⟩
      · exact ⟨fun _ _ _ => rfl, fun e he => (by cases he), fun e he => (by cases he), fun e he => (by cases he),
          fun e he => (by cases he), fun _ _ => ⟨rfl, rfl, rfl⟩⟩
  | cons e rest ih =>
    intro s s' h
    rw [chainGo] at h
    cases hl : lend c s e.1 e.2 with
    | none => rw [hl] at h; cases h
    | some sa =>
      rw [hl] at h
      simp only [] at h
      cases hc : chainGo c run I all sa rest with
      | none => rw [hc] at h; cases h
      | some sb =>
        rw [hc] at h
        simp only [] at h
        have L := lend_spec hl
        have A := afterTrade_spec h
        obtain ⟨⟨s1, s2, s3, hlends, hrun, hcl, LR, AR⟩, hnd, hidle, hge⟩ := ih sa sb hc
        -- the vault lending now is not among the later ones: its counter is 1 from here on
        have hnot : ∀ e' ∈ rest, e'.1 ≠ e.1 := by
          intro e' he' heq
          have := (hidle e' he').2
          rw [heq, L.ctrSelf] at this
          cases this
        have hnotmem : e.1 ∉ rest.map (·.1) := by
          intro hm
          obtain ⟨e', he', heq⟩ := List.mem_map.mp hm
          exact hnot e' he' heq
        refine ⟨⟨s1, s2, s3, by rw [lends, hl]; exact hlends, hrun, hcl, ?_, ?_⟩, ?_, ?_, ?_⟩
        · -- lending phase
          refine ⟨?_, ?_, ?_, ?_⟩
          · intro x hx y
            simp only [List.map_cons, List.mem_cons, not_or] at hx
            rw [LR.otherAsset x hx.2 y, L.otherAsset x y hx.1]
          · intro e' he' y g1 g2
            rcases List.mem_cons.mp he' with rfl | he'
            · rw [LR.otherAsset _ hnotmem y]; exact L.otherAcct y g1 g2
            · rw [LR.otherAcct e' he' y g1 g2, L.otherAsset _ _ (hnot e' he')]
          · intro e' he'
            rcases List.mem_cons.mp he' with rfl | he'
            · rw [LR.otherAsset _ hnotmem 5]; exact L.router
            · rw [LR.router e' he', L.otherAsset _ _ (hnot e' he')]
          · intro e' he'
            rcases List.mem_cons.mp he' with rfl | he'
            · rw [LR.otherAsset _ hnotmem]; exact L.vault
            · rw [← L.otherAsset _ _ (hnot e' he')]; exact LR.vault e' he'
        · -- settling phase
          refine ⟨?_, ?_, ?_, ?_, ?_, ?_⟩
          · intro x y hxy
            have hxy' : x ≠ e.1 ∨ y ≠ 6 + e.1 := by
              rcases hxy with hx | hy
              · left; intro he; apply hx; rw [he]; exact List.mem_map.mpr ⟨e, List.mem_cons_self .., rfl⟩
              · by_cases hx : x = e.1
                · right; rw [← hx]; exact hy
                · left; exact hx
            rw [A.otherBal x y hxy']
            apply AR.otherBal
            rcases hxy with hx | hy
            · left; intro hm; apply hx
              simp only [List.map_cons, List.mem_cons]; right; exact hm
            · right; exact hy
          · intro e' he'
            rcases List.mem_cons.mp he' with rfl | he'
            · rw [← AR.otherBal _ _ (Or.inl hnotmem)]; exact A.vault
            · rw [A.otherBal _ _ (Or.inl (hnot e' he'))]; exact AR.vault e' he'
          · intro e' he'
            rcases List.mem_cons.mp he' with rfl | he'
            · rw [A.allTime, (AR.otherLedger _ hnotmem).1]
            · rw [(A.otherLedger _ (hnot e' he')).1]; exact AR.allTime e' he'
          · intro e' he'
            rcases List.mem_cons.mp he' with rfl | he'
            · rw [A.burned, (AR.otherLedger _ hnotmem).2.2]
            · rw [(A.otherLedger _ (hnot e' he')).2.2.1]; exact AR.burned e' he'
          · intro e' he'
            rcases List.mem_cons.mp he' with rfl | he'
            · rw [A.pend, (AR.otherLedger _ hnotmem).2.1]
            · rw [(A.otherLedger _ (hnot e' he')).2.1]; exact AR.pend e' he'
          · intro x hx
            simp only [List.map_cons, List.mem_cons, not_or] at hx
            obtain ⟨a1, a2, a3, _⟩ := A.otherLedger x hx.1
            obtain ⟨b1, b2, b3⟩ := AR.otherLedger x hx.2
            exact ⟨a1.trans b1, a2.trans b2, a3.trans b3⟩
        · -- pairwise different vaults
          simp only [List.map_cons, List.nodup_cons]
          exact ⟨hnotmem, hnd⟩
        · intro e' he'
          rcases List.mem_cons.mp he' with rfl | he'
          · exact ⟨L.known, L.idle⟩
          · refine ⟨(hidle e' he').1, ?_⟩
            rw [← L.ctrOther _ (hnot e' he')]; exact (hidle e' he').2
        · intro e' he'
          rcases List.mem_cons.mp he' with rfl | he'
          · have h1 := A.enough
            have h2 := A.vault
            omega
          · have h1 := hge e' he'
            rw [L.otherAsset _ _ (hnot e' he')] at h1
            rw [A.otherBal _ _ (Or.inl (hnot e' he'))]
            exact h1

/-- a chain whose payload — in whatever state it is started — leaves less than some vault's payback
    with the router fails as a whole -/
theorem chainGo_short {c : Cfg} {run : St → Option St} {I : Nat} {all : List (Nat × Nat)}
    (hshort : ∀ s1 s2, run s1 = some s2 → ∃ e ∈ all, s2.bal e.1 5 < payback c e.1 e.2) :
    ∀ (rest : List (Nat × Nat)) (s : St), chainGo c run I all s rest = none := by
  intro rest
  induction rest with
  | nil =>
    intro s
    rw [chainGo]
    cases hr : run s with
    | none => rfl
    | some s2 => exact completeLoan_short (hshort s s2 hr)
  | cons e rest ih =>
    intro s
    rw [chainGo]
    cases hl : lend c s e.1 e.2 with
    | none => rfl
    | some sa => simp only []; rw [ih sa]

/-- the whole chain over `L`, seen from outside: `s` before, `s1` when the payload starts, `s2` when it
    has finished, `s'` at the end of the transaction part -/
structure ChainSpec (c : Cfg) (I : Nat) (L : List (Nat × Nat)) (s s1 s2 s' : St) : Prop where
  nodup : (L.map (·.1)).Nodup
  known : ∀ e ∈ L, e.1 < c.nv
  -- lending phase
  lentRouter : ∀ e ∈ L, s1.bal e.1 5 = s.bal e.1 5 + e.2
  lentVault : ∀ e ∈ L, s1.bal e.1 (6 + e.1) + e.2 = s.bal e.1 (6 + e.1)
  lentOtherAcct : ∀ e ∈ L, ∀ y, y ≠ 5 → y ≠ 6 + e.1 → s1.bal e.1 y = s.bal e.1 y
  lentOtherAsset : ∀ x, x ∉ L.map (·.1) → ∀ y, s1.bal x y = s.bal x y
  -- CompleteLoan and the after_trades
  covered : ∀ e ∈ L, payback c e.1 e.2 ≤ s2.bal e.1 5
  vault : ∀ e ∈ L, s'.bal e.1 (6 + e.1) + fee (c.fees e.1).burn e.2 = s2.bal e.1 (6 + e.1) + payback c e.1 e.2
  router : ∀ e ∈ L, s'.bal e.1 5 = 0
  initiator : ∀ e ∈ L, s'.bal e.1 I = s2.bal e.1 I + (s2.bal e.1 5 - payback c e.1 e.2)
  otherAcct : ∀ e ∈ L, ∀ y, y ≠ 5 → y ≠ I → y ≠ 6 + e.1 → s'.bal e.1 y = s2.bal e.1 y
  otherAsset : ∀ x, x ∉ L.map (·.1) → ∀ y, s'.bal x y = s2.bal x y
  allTime : ∀ e ∈ L, s'.allTime e.1 = s2.allTime e.1 + fee (c.fees e.1).prot e.2
  burned : ∀ e ∈ L, s'.burned e.1 = s2.burned e.1 + fee (c.fees e.1).burn e.2
  pend : ∀ e ∈ L, s'.pend e.1 = s2.pend e.1 + fee (c.fees e.1).prot e.2
  balGe : ∀ e ∈ L, s.bal e.1 (6 + e.1) + fee (c.fees e.1).prot e.2 + fee (c.fees e.1).flash e.2 ≤ s'.bal e.1 (6 + e.1)

theorem chain_spec {c : Cfg} {run : St → Option St} {I : Nat} {L : List (Nat × Nat)} {s s' : St}
    (hI : I < 5) (h : chainGo c run I L s L = some s') :
    ∃ s1 s2, lends c s L = some s1 ∧ run s1 = some s2 ∧ ChainSpec c I L s s1 s2 s' := by
  obtain ⟨⟨s1, s2, s3, hlends, hrun, hcl, LR, AR⟩, hnd, hidle, hge⟩ := chainGo_parts L s s' h
  have CS := completeLoan_spec (by omega) (by omega) hnd hcl
  have hmem : ∀ e ∈ L, e.1 ∈ L.map (·.1) := fun e he => List.mem_map.mpr ⟨e, he, rfl⟩
  refine ⟨s1, s2, hlends, hrun, ⟨hnd, fun e he => (hidle e he).1, LR.router, LR.vault, LR.otherAcct, LR.otherAsset,
    CS.covered, ?_, ?_, ?_, ?_, ?_, ?_, ?_, ?_, hge⟩⟩
  · intro e he
    rw [AR.vault e he, CS.vault e he]
  · intro e he
    rw [AR.otherBal _ _ (Or.inr (by omega))]; exact CS.router e he
  · intro e he
    rw [AR.otherBal _ _ (Or.inr (by omega))]; exact CS.initiator e he
  · intro e he y g1 g2 g3
    rw [AR.otherBal _ _ (Or.inr g3)]; exact CS.otherAcct e he y g1 g2 g3
  · intro x hx y
    rw [AR.otherBal _ _ (Or.inl hx)]; exact CS.otherAsset x hx y
  · intro e he
    rw [AR.allTime e he, CS.allTime]
  · intro e he
    rw [AR.burned e he, CS.burned]
  · intro e he
    rw [AR.pend e he, CS.pend]


/-! ### stray coins attached to a message (`Op.attach`) -/

/-- a successful message with coins attached, taken apart: the coins (of a native asset or of the
    denom without a vault, a non-empty amount, paid by one of the accounts 0..3) moved to the
    receiving contract `dst` (`s0`), then the message itself ran from `s0` -/
theorem attach_parts {c : Cfg} {s s' : St} {who sel n : Nat} {op : Op}
    (h : step c s (.attach who sel n op) = some s') :
    ∃ dst s0, op.recv = some dst ∧ move c s sel who dst n = some s0 ∧ who < 4 ∧ n ≠ 0 ∧ sel ≤ c.nv ∧
      c.kind sel = 0 ∧ dst < 6 + c.nv ∧ step c s0 op = some s' := by
  rw [step] at h
  split at h
  · cases h
  · rename_i dst hr
    split at h
    · cases h
    · rename_i s0 ha
      unfold arrive at ha
      split_ifs at ha with h1 h2
      exact ⟨dst, s0, hr, ha, by omega, by omega, by omega, by omega, by omega, h⟩

end WW.VaultChain
