/- C12 `open_expand_exact`: an accepted `open_flow` / `expand_flow` as a whole transaction — the flow's
   funded amount and the contract's balance grow by exactly the same amount, the fee reaches the collector. -/
import WW.Proofs.CustodyHist
namespace WW.Inc
open WW WW.Gen

theorem findFlow_insertFlow {l : List Flow} {f : Flow} {id : Nat} (hl : ∀ g ∈ l, g.id ≠ id) (hf : f.id = id) :
    findFlow (insertFlow f l) id = some f := by
  induction l with
  | nil => simp [insertFlow, findFlow, hf]
  | cons g t ih =>
    unfold insertFlow
    split
    · unfold findFlow; rw [List.find?_cons_of_pos (by simpa using hf)]
    · have hg : g.id ≠ id := hl g List.mem_cons_self
      unfold findFlow
      rw [List.find?_cons_of_neg (by simpa using hg)]
      exact ih (fun x hx => hl x (List.mem_cons_of_mem _ hx))

/-- the asset history stays below the current epoch + 1 through any transaction at that epoch -/
theorem step_HistLe {c : Cfg} {s s' : St} {e : Env} {op : Op} (hW : WInv s) (hF : FInv s)
    (hH : HistLe s e.epoch) (h : step c s e op = .ok s') : HistLe s' e.epoch := by
  unfold step at h
  split at h
  · obtain ⟨b, _, h⟩ := bind_eq_ok h
    unfold helperDeposit at h
    dsimp only at h
    obtain ⟨_, _, h⟩ := bind_eq_ok h
    obtain ⟨b1, _, h⟩ := bind_eq_ok h
    obtain ⟨b2, _, h⟩ := bind_eq_ok h
    obtain ⟨_, _, h⟩ := bind_eq_ok h
    obtain ⟨lp, _, h⟩ := bind_eq_ok h
    obtain ⟨_, _, h⟩ := bind_eq_ok h
    obtain ⟨b3, _, h⟩ := bind_eq_ok h
    obtain ⟨b4, _, h⟩ := bind_eq_ok h
    obtain ⟨_, _, h⟩ := bind_eq_ok h
    obtain ⟨b5, _, h⟩ := bind_eq_ok h
    obtain ⟨⟨s3, msgs⟩, h3, h⟩ := bind_eq_ok h
    obtain ⟨b6, _, h⟩ := bind_eq_ok h
    injection h with h
    subst h
    have hW2 : WInv ({ s with bal := b5 } : St) := hW.with_bal b5
    have : s3.flows = s.flows := by
      split at h3
      · exact (expandPosition_delta hW2 h3).1
      · exact (openPosition_delta h3).1
    show HistLe _ _
    unfold HistLe
    simp only
    rw [this]; exact hH
  · obtain ⟨b, _, h⟩ := bind_eq_ok h
    obtain ⟨⟨s1, msgs⟩, h1, h⟩ := bind_eq_ok h
    obtain ⟨b1, _, h⟩ := bind_eq_ok h
    injection h with h
    subst h
    exact (handler_custody (hW.with_bal b) (hF.with_bal b) h1).hist hH

theorem reach_HistLe {c : Cfg} (e : Env) (op : Op) :
    ∀ (ops : List (Env × Op)) (s : St) (ep : Nat), WInv s → FInv s → HistLe s ep →
      EpochsFrom ep (ops ++ [(e, op)]) → HistLe (reach c s ops) e.epoch := by
  intro ops
  induction ops with
  | nil =>
    intro s ep _ _ hH hep
    exact hH.mono hep.1
  | cons p t ih =>
    intro s ep hW hF hH hep
    obtain ⟨e1, op1⟩ := p
    obtain ⟨hle, hep'⟩ := hep
    simp only at hle hep'
    show HistLe (reach c (stepOrStay c s e1 op1) t) e.epoch
    unfold stepOrStay
    split
    · rename_i s' hstep
      exact ih s' e1.epoch (step_WInv hW hstep) (step_FInv hW hF hstep) (step_HistLe hW hF (hH.mono hle) hstep) hep'
    · exact ih s e1.epoch hW hF (hH.mono hle) hep'

/-- **expand_flow, exactly**: the flow's unclaimed funds and the contract's balance of the flow asset
    both grow by exactly the stated amount -/
theorem step_expandFlow_exact {c : Cfg} {s s' : St} {e : Env} {id a amt : Nat} {en : Option Nat}
    (hW : WInv s) (hF : FInv s) (hH : HistLe s e.epoch) (hs : e.sender ≠ INC)
    (h : step c s e (.expandFlow id a amt en) = .ok s') :
    ∃ f f2, findFlow s.flows id = some f ∧ findFlow s'.flows id = some f2
      ∧ f.asset = a ∧ f2.asset = a ∧ f2.creator = f.creator
      ∧ f2.claimed ≤ f2.funded ∧ f2.funded - f2.claimed = f.funded - f.claimed + amt
      ∧ balOf s' INC a = balOf s INC a + amt := by
  unfold step at h
  simp only at h
  obtain ⟨b, hb, h⟩ := bind_eq_ok h
  obtain ⟨⟨s1, msgs⟩, h1, h⟩ := bind_eq_ok h
  obtain ⟨b1, hb1, h⟩ := bind_eq_ok h
  injection h with h
  subst h
  have h1' : expandFlow c ({ s with bal := b } : St) e id a amt en = .ok (s1, msgs) := h1
  obtain ⟨f, f2, endE, hf, hfa, hfunds, hadd, hs'⟩ := expandFlow_delta h1'
  subst hs'
  have hf' : findFlow s.flows id = some f := hf
  obtain ⟨hfm, hfid⟩ := findFlow_mem hf'
  have hn := hF.hist_nodup f hfm
  obtain ⟨r1, r2, r3, r4, r5, r6⟩ := resetFlow_spec f e.epoch hn
  obtain ⟨r7, r8⟩ := r6 (hF.claimed_le f hfm)
  obtain ⟨a1, a2, a3, a4, a5, a6, a7⟩ := addHist_spec r4 hadd
  obtain ⟨a8, _⟩ := a7 (r5 _ (hH f hfm))
  obtain ⟨e1, e2⟩ := expandFlowFunds_ledger hs hfunds
  refine ⟨f, f2, hf', ?_, hfa, by rw [a2, r2, hfa], by rw [a3, r3], by omega, by omega, ?_⟩
  · apply findFlow_insertFlow
    · intro g hg; exact (mem_removeFlow.mp hg).2
    · rw [a1, r1, hfid]
  · have t1 := attachFunds_eff (x := e.sender) (y := INC) INC a _ _ _ hb
    rw [if_neg (fun hh => hs hh.1), if_pos ⟨rfl, hs⟩] at t1
    have t2 := applyMsgs_eff INC a _ _ _ _ hb1
    rw [e1 a] at t2
    simp only at t2
    unfold balOf
    simp only
    omega

/-- `open_flow`, flow asset, exactly: the new flow's amount is what arrives net of what is paid out -/
theorem openFlow_ledger_eqA {c : Cfg} {e : Env} {a amount x y : Nat} {m0 m1 : List Msg}
    (hs : e.sender ≠ INC) (hn : (keysOf (fundsOf c e.offers)).Nodup)
    (hfee : openFlowFee c e a amount = .ok (x, m0)) (hasset : openFlowAsset c e a x = .ok (y, m1)) :
    y + outsOf INC a (m0 ++ m1) = att c a (fundsOf c e.offers) + insOf INC a (m0 ++ m1) := by
  rw [outsOf_append, insOf_append]
  rcases openFlowFee_spec hfee with ⟨hnf, paid, hp, hle, hm0, hx⟩ | ⟨hnf, hx, hm0⟩
  · have hpaid : att c c.feeAsset (fundsOf c e.offers) = paid := att_eq_of_mem hn (alook_some_mem hp) hnf
    obtain ⟨r1, r2⟩ := io_feeRefund hs a paid a (c := c) (e := e)
    obtain ⟨c1, c2⟩ := io_send_inc collector_ne_inc a c.feeAsset c.feeAmt
    rw [hm0, outsOf_append, insOf_append, r1, r2, c1, c2]
    have hno : ¬ ((c.feeAmt < paid ∧ ¬ (c.native a = true ∧ a = c.feeAsset)) ∧ c.feeAsset = a) :=
      fun hh => hh.1.2 ⟨by rw [← hh.2]; exact hnf, hh.2.symm⟩
    simp only [if_neg hno]
    rcases openFlowAsset_spec hasset with ⟨hna, hy, hm1, hfunds⟩ | ⟨hna, hm1, hy⟩
    · subst hm1
      simp only [outsOf, insOf]
      rcases hx with ⟨_, hafa, hx1, hx2⟩ | ⟨hns, hx1⟩
      · have hpa : att c a (fundsOf c e.offers) = paid := by rw [hafa]; exact hpaid
        simp only [if_pos hafa.symm]; omega
      · have hne : ¬ c.feeAsset = a := fun hh => hns ⟨hna, hh.symm⟩
        have hf := att_eq_of_hasFunds hn (hfunds (fun hh => hns ⟨hna, hh.2.symm⟩)) hna
        simp only [if_neg hne]; omega
    · obtain ⟨p1, p2⟩ := io_pull_inc hs a a y
      have hne : ¬ c.feeAsset = a := fun hh => by rw [hh, hna] at hnf; cases hnf
      rw [hm1, p1, p2, att_nonnative hna]
      simp only [if_neg hne, if_true]; omega
  · obtain ⟨q1, q2⟩ := io_pull_other hs collector_ne_inc a c.feeAsset c.feeAmt (src := e.sender)
    rw [hm0, q1, q2]
    rcases openFlowAsset_spec hasset with ⟨hna, hy, hm1, hfunds⟩ | ⟨hna, hm1, hy⟩
    · subst hm1
      simp only [outsOf, insOf]
      have hf := att_eq_of_hasFunds hn (hfunds (fun hh => by rw [hnf] at hh; cases hh.1)) hna
      omega
    · obtain ⟨p1, p2⟩ := io_pull_inc hs a a y
      rw [hm1, p1, p2, att_nonnative hna]
      simp only [if_true]; omega

/-- the fee of an accepted `open_flow` reaches the collector: the messages move exactly the fee amount of
    the fee asset into the collector's balance and nothing out of it -/
theorem openFlow_fee_to_collector {c : Cfg} {e : Env} {a amount x y : Nat} {m0 m1 : List Msg}
    (hsc : e.sender ≠ COLLECTOR)
    (hfee : openFlowFee c e a amount = .ok (x, m0)) (hasset : openFlowAsset c e a x = .ok (y, m1)) :
    insOf COLLECTOR c.feeAsset (m0 ++ m1) = c.feeAmt ∧ outsOf COLLECTOR c.feeAsset (m0 ++ m1) = 0 := by
  rw [outsOf_append, insOf_append]
  have hic : INC ≠ COLLECTOR := by decide
  have hm1 : insOf COLLECTOR c.feeAsset m1 = 0 ∧ outsOf COLLECTOR c.feeAsset m1 = 0 := by
    rcases openFlowAsset_spec hasset with ⟨_, _, hm1, _⟩ | ⟨_, hm1, _⟩
    · subst hm1; exact ⟨rfl, rfl⟩
    · subst hm1; simp [insOf, outsOf, msgIn, msgOut, hsc, hic]
  rw [hm1.1, hm1.2]
  rcases openFlowFee_spec hfee with ⟨_, paid, _, _, hm0, _⟩ | ⟨_, _, hm0⟩
  · subst hm0
    rw [insOf_append, outsOf_append]
    have hr : insOf COLLECTOR c.feeAsset (feeRefund c e a paid) = 0
        ∧ outsOf COLLECTOR c.feeAsset (feeRefund c e a paid) = 0 := by
      unfold feeRefund
      split
      · simp [insOf, outsOf, msgIn, msgOut, hsc, hic]
      · exact ⟨rfl, rfl⟩
    rw [hr.1, hr.2]
    simp [insOf, outsOf, msgIn, msgOut, hic]
  · subst hm0
    simp [insOf, outsOf, msgIn, msgOut, hsc]

/-- **open_flow, exactly**: a new flow with a fresh id is recorded for the sender with nothing claimed; its
    funded amount is the declared amount (less the fee when the fee is charged in the flow asset itself);
    the contract's balance of the flow asset grows by exactly the funded amount; the collector's balance of
    the fee asset grows by exactly the fee. -/
theorem step_openFlow_exact {c : Cfg} {s s' : St} {e : Env} {a amt : Nat} {st en : Option Nat}
    (hF : FInv s) (hs : e.sender ≠ INC) (hsc : e.sender ≠ COLLECTOR) (hn : (keysOf e.offers).Nodup)
    (h : step c s e (.openFlow a amt st en) = .ok s') :
    ∃ f, findFlow s'.flows (s.flowCounter + 1) = some f ∧ findFlow s.flows (s.flowCounter + 1) = none
      ∧ f.creator = e.sender ∧ f.asset = a ∧ f.claimed = 0
      ∧ f.funded = (if c.feeAsset = a then amt - c.feeAmt else amt)
      ∧ balOf s' INC a = balOf s INC a + f.funded
      ∧ balOf s' COLLECTOR c.feeAsset = balOf s COLLECTOR c.feeAsset + c.feeAmt := by
  unfold step at h
  simp only at h
  obtain ⟨b, hb, h⟩ := bind_eq_ok h
  obtain ⟨⟨s1, msgs⟩, h1, h⟩ := bind_eq_ok h
  obtain ⟨b1, hb1, h⟩ := bind_eq_ok h
  injection h with h
  subst h
  have h1' : openFlow c ({ s with bal := b } : St) e a amt st en = .ok (s1, msgs) := h1
  obtain ⟨x, y, m0, m1, f, hfee, hasset, hm, hs', f1, f2, f3, f4, f5, f6, _⟩ := openFlow_delta h1'
  subst hs' hm
  have hfunded : f.funded = y := by
    rw [Flow.funded_eq, f6]; simp only [maxKey, List.foldl_nil]; exact f4
  have hfresh : ∀ g ∈ s.flows, g.id ≠ s.flowCounter + 1 := by
    intro g hg; have := hF.ids_le g hg; omega
  have hy : y = (if c.feeAsset = a then amt - c.feeAmt else amt) := by
    rcases openFlowFee_spec hfee with ⟨hnf, paid, _, _, _, hx⟩ | ⟨hnf, hx, _⟩
    · rcases openFlowAsset_spec hasset with ⟨hna, hy, _, _⟩ | ⟨hna, _, hy⟩
      · rcases hx with ⟨_, hafa, hx1, _⟩ | ⟨hns, hx1⟩
        · rw [if_pos hafa.symm, hy, hx1]
        · rw [if_neg (fun hh => hns ⟨hna, hh.symm⟩), hy, hx1]
      · have hne : ¬ c.feeAsset = a := fun hh => by rw [hh, hna] at hnf; cases hnf
        have hx1 : x = amt := by
          rcases hx with ⟨hh, _⟩ | ⟨_, hx1⟩
          · rw [hna] at hh; cases hh
          · exact hx1
        rw [if_neg hne, hy, if_neg (fun hh => hne hh.2), hx1]
    · rcases openFlowAsset_spec hasset with ⟨hna, hy, _, _⟩ | ⟨hna, _, hy⟩
      · have hne : ¬ c.feeAsset = a := fun hh => by rw [hh, hna] at hnf; cases hnf
        rw [if_neg hne, hy, hx]
      · by_cases hfa : c.feeAsset = a
        · rw [if_pos hfa, hy, if_pos ⟨hnf, hfa⟩, hx]
        · rw [if_neg hfa, hy, if_neg (fun hh => hfa hh.2), hx]
  refine ⟨f, ?_, ?_, f2, f3, f5, by rw [hfunded]; exact hy, ?_, ?_⟩
  · exact findFlow_insertFlow hfresh f1
  · unfold findFlow
    apply List.find?_eq_none.mpr
    intro g hg
    simpa using hfresh g hg
  · have t1 := attachFunds_eff (x := e.sender) (y := INC) INC a _ _ _ hb
    rw [if_neg (fun hh => hs hh.1), if_pos ⟨rfl, hs⟩] at t1
    have t2 := applyMsgs_eff INC a _ _ _ _ hb1
    have t3 := openFlow_ledger_eqA hs (nodup_fundsOf hn) hfee hasset
    simp only at t2
    unfold balOf
    simp only
    rw [hfunded]
    omega
  · have t1 := attachFunds_eff (x := e.sender) (y := INC) COLLECTOR c.feeAsset _ _ _ hb
    rw [if_neg (fun hh => hsc hh.1), if_neg (fun hh => collector_ne_inc hh.1.symm)] at t1
    have t2 := applyMsgs_eff COLLECTOR c.feeAsset _ _ _ _ hb1
    obtain ⟨t3, t4⟩ := openFlow_fee_to_collector hsc hfee hasset
    simp only at t2
    unfold balOf
    simp only
    omega

/-- `feeRefund` with its condition as a proposition -/
theorem feeRefund_eq (c : Cfg) (e : Env) (a paid : Nat) :
    feeRefund c e a paid
      = (if c.feeAmt < paid ∧ ¬ (c.native a = true ∧ a = c.feeAsset)
         then [Msg.send INC e.sender c.feeAsset (paid - c.feeAmt)] else []) := by
  unfold feeRefund
  by_cases hc : c.feeAmt < paid ∧ ¬ (c.native a = true ∧ a = c.feeAsset)
  · have hb : (decide (c.feeAmt < paid) && !(c.native a && decide (a = c.feeAsset))) = true := by
      simp only [Bool.and_eq_true, Bool.not_eq_true', Bool.and_eq_false_iff, decide_eq_true_eq, decide_eq_false_iff_not]
      refine ⟨hc.1, ?_⟩
      by_cases hn : c.native a = true
      · exact Or.inr (fun hh => hc.2 ⟨hn, hh⟩)
      · exact Or.inl (by simpa using hn)
    rw [if_pos hb, if_pos hc]
  · have hb : ¬ (decide (c.feeAmt < paid) && !(c.native a && decide (a = c.feeAsset))) = true := by
      simp only [Bool.and_eq_true, Bool.not_eq_true', Bool.and_eq_false_iff, decide_eq_true_eq, decide_eq_false_iff_not]
      intro hh
      apply hc
      refine ⟨hh.1, fun h2 => ?_⟩
      rcases hh.2 with h3 | h3
      · rw [h2.1] at h3; cases h3
      · exact h3 h2.2
    rw [if_neg hb, if_neg hc]

/-- a native fee, seen from the sender and from the contract in the fee denom: the messages of an accepted
    `open_flow` hand the sender back everything attached in the fee denom except the fee and — when the flow
    is opened in the fee denom itself — the flow amount; the contract pays out the rest -/
theorem openFlow_fee_ledger {c : Cfg} {e : Env} {a amount x y : Nat} {m0 m1 : List Msg}
    (hnf : c.native c.feeAsset = true) (hs : e.sender ≠ INC) (hsc : e.sender ≠ COLLECTOR)
    (hn : (keysOf (fundsOf c e.offers)).Nodup)
    (hfee : openFlowFee c e a amount = .ok (x, m0)) (hasset : openFlowAsset c e a x = .ok (y, m1)) :
    outsOf e.sender c.feeAsset (m0 ++ m1) = 0
    ∧ insOf e.sender c.feeAsset (m0 ++ m1) + c.feeAmt + (if a = c.feeAsset then amount - c.feeAmt else 0)
        = att c c.feeAsset (fundsOf c e.offers)
    ∧ insOf INC c.feeAsset (m0 ++ m1) = 0
    ∧ outsOf INC c.feeAsset (m0 ++ m1) + (if a = c.feeAsset then amount - c.feeAmt else 0)
        = att c c.feeAsset (fundsOf c e.offers) := by
  rw [outsOf_append, insOf_append, outsOf_append, insOf_append]
  have hic : INC ≠ COLLECTOR := by decide
  rcases openFlowFee_spec hfee with ⟨_, paid, hp, hle, hm0, hx⟩ | ⟨hnf', _, _⟩
  · have hpaid : att c c.feeAsset (fundsOf c e.offers) = paid := att_eq_of_mem hn (alook_some_mem hp) hnf
    obtain ⟨r1, r2⟩ := io_feeRefund hs a paid c.feeAsset (c := c) (e := e)
    obtain ⟨c1, c2⟩ := io_send_inc collector_ne_inc c.feeAsset c.feeAsset c.feeAmt
    have hm1 : outsOf e.sender c.feeAsset m1 = 0 ∧ insOf e.sender c.feeAsset m1 = 0
        ∧ outsOf INC c.feeAsset m1 = 0 ∧ insOf INC c.feeAsset m1 = 0 := by
      rcases openFlowAsset_spec hasset with ⟨_, _, hm1, _⟩ | ⟨hna, hm1, _⟩
      · subst hm1; exact ⟨rfl, rfl, rfl, rfl⟩
      · have hne : ¬ a = c.feeAsset := fun hh => by rw [hh, hnf] at hna; cases hna
        subst hm1
        simp [insOf, outsOf, msgIn, msgOut, hne]
    have hsame : (c.native a = true ∧ a = c.feeAsset) ↔ a = c.feeAsset :=
      ⟨fun hh => hh.2, fun hh => ⟨by rw [hh]; exact hnf, hh⟩⟩
    have hr : outsOf e.sender c.feeAsset (feeRefund c e a paid) = 0
        ∧ insOf e.sender c.feeAsset (feeRefund c e a paid)
            = (if c.feeAmt < paid ∧ ¬ (c.native a = true ∧ a = c.feeAsset) then paid - c.feeAmt else 0) := by
      rw [feeRefund_eq]
      by_cases hc : c.feeAmt < paid ∧ ¬ (c.native a = true ∧ a = c.feeAsset)
      · rw [if_pos hc, if_pos hc]
        simp [insOf, outsOf, msgIn, msgOut, Ne.symm hs]
      · rw [if_neg hc, if_neg hc]
        exact ⟨rfl, rfl⟩
    have hcs : outsOf e.sender c.feeAsset [Msg.send INC COLLECTOR c.feeAsset c.feeAmt] = 0
        ∧ insOf e.sender c.feeAsset [Msg.send INC COLLECTOR c.feeAsset c.feeAmt] = 0 := by
      simp [insOf, outsOf, msgIn, msgOut, Ne.symm hs, Ne.symm hsc]
    simp only [and_true, if_true] at r1 c1
    rw [hm0, outsOf_append, insOf_append, outsOf_append, insOf_append, r1, r2, c1, c2, hr.1, hr.2, hcs.1, hcs.2,
      hm1.1, hm1.2.1, hm1.2.2.1, hm1.2.2.2, hpaid]
    rcases hx with ⟨hna, hafa, hx1, hx2⟩ | ⟨hns, hx1⟩
    · have hno : ¬ (c.feeAmt < paid ∧ ¬ (c.native a = true ∧ a = c.feeAsset)) := fun hh => hh.2 ⟨hna, hafa⟩
      simp only [if_neg hno, if_pos hafa, true_and]
      omega
    · have hne : ¬ a = c.feeAsset := fun hh => hns (hsame.mpr hh)
      simp only [if_neg hne]
      by_cases hlt : c.feeAmt < paid
      · simp only [if_pos (show c.feeAmt < paid ∧ ¬ (c.native a = true ∧ a = c.feeAsset) from ⟨hlt, hns⟩), true_and]; omega
      · simp only [if_neg (show ¬ (c.feeAmt < paid ∧ ¬ (c.native a = true ∧ a = c.feeAsset)) from fun hh => hlt hh.1), true_and]
        omega
  · rw [hnf] at hnf'; cases hnf'

/-- **an over-paid native flow fee is refunded in full, whatever the kind of the flow asset**: an accepted
    `open_flow` under a fee charged in a native denom — with ANY amount of that denom attached — lowers the
    sender's balance of the fee denom by exactly the fee (plus the flow amount `amt - fee` when the flow is
    opened in the fee denom itself, where the attached amount must be exactly `amt`), raises the collector's
    by exactly the fee and the contract's by exactly that flow amount (by nothing otherwise): every unit
    beyond fee + flow went back to the sender in the same transaction. -/
theorem step_openFlow_fee_refund {c : Cfg} {s s' : St} {e : Env} {a amt : Nat} {st en : Option Nat}
    (hnf : c.native c.feeAsset = true) (hs : e.sender ≠ INC) (hsc : e.sender ≠ COLLECTOR)
    (hn : (keysOf e.offers).Nodup) (h : step c s e (.openFlow a amt st en) = .ok s') :
    balOf s' e.sender c.feeAsset + c.feeAmt + (if a = c.feeAsset then amt - c.feeAmt else 0)
        = balOf s e.sender c.feeAsset
    ∧ balOf s' INC c.feeAsset = balOf s INC c.feeAsset + (if a = c.feeAsset then amt - c.feeAmt else 0)
    ∧ balOf s' COLLECTOR c.feeAsset = balOf s COLLECTOR c.feeAsset + c.feeAmt := by
  unfold step at h
  simp only at h
  obtain ⟨b, hb, h⟩ := bind_eq_ok h
  obtain ⟨⟨s1, msgs⟩, h1, h⟩ := bind_eq_ok h
  obtain ⟨b1, hb1, h⟩ := bind_eq_ok h
  injection h with h
  subst h
  have h1' : openFlow c ({ s with bal := b } : St) e a amt st en = .ok (s1, msgs) := h1
  obtain ⟨x, y, m0, m1, f, hfee, hasset, hm, hs', _⟩ := openFlow_delta h1'
  subst hs' hm
  obtain ⟨l1, l2, l3, l4⟩ := openFlow_fee_ledger hnf hs hsc (nodup_fundsOf hn) hfee hasset
  refine ⟨?_, ?_, ?_⟩
  · have t1 := attachFunds_eff (x := e.sender) (y := INC) e.sender c.feeAsset _ _ _ hb
    rw [if_pos ⟨rfl, Ne.symm hs⟩, if_neg (fun hh => hs hh.1.symm)] at t1
    have t2 := applyMsgs_eff e.sender c.feeAsset _ _ _ _ hb1
    simp only at t2
    unfold balOf
    simp only
    omega
  · have t1 := attachFunds_eff (x := e.sender) (y := INC) INC c.feeAsset _ _ _ hb
    rw [if_neg (fun hh => hs hh.1), if_pos ⟨rfl, hs⟩] at t1
    have t2 := applyMsgs_eff INC c.feeAsset _ _ _ _ hb1
    simp only at t2
    unfold balOf
    simp only
    omega
  · have t1 := attachFunds_eff (x := e.sender) (y := INC) COLLECTOR c.feeAsset _ _ _ hb
    rw [if_neg (fun hh => hsc hh.1), if_neg (fun hh => collector_ne_inc hh.1.symm)] at t1
    have t2 := applyMsgs_eff COLLECTOR c.feeAsset _ _ _ _ hb1
    obtain ⟨t3, t4⟩ := openFlow_fee_to_collector hsc hfee hasset
    simp only at t2
    unfold balOf
    simp only
    omega

end WW.Inc
