/- The claim loop (`claim.rs`) and the rewards-query loop (`get_rewards.rs`) compute the same per-flow
   totals as long as the claim's 100-epoch cap is not hit (C13, claim = quote). -/
import WW.Proofs.Claim
namespace WW.Inc
open WW WW.Gen

/-- fields of a flow the emission depends on besides the emitted-tokens ledger -/
def SameStatic (f g : Flow) : Prop :=
  f.hist = g.hist ∧ f.amount = g.amount ∧ f.endE = g.endE ∧ f.startE = g.startE ∧ f.asset = g.asset

theorem emissionStep_congr {f g : Flow} (h : SameStatic f g) (em : List (Nat × Nat)) (ep : Nat) :
    emissionStep f em ep = emissionStep g em ep := by
  obtain ⟨h1, h2, h3, _, _⟩ := h
  unfold emissionStep Flow.endAt Flow.amountAt
  rw [h1, h2, h3]

/-- amounts carried by the transfer messages -/
def msgSum : List Msg → Nat
  | [] => 0
  | .send _ _ _ amt :: t => amt + msgSum t
  | .pull _ _ _ amt :: t => amt + msgSum t

theorem msgSum_append (a b : List Msg) : msgSum (a ++ b) = msgSum a + msgSum b := by
  induction a with
  | nil => simp [msgSum]
  | cons m t ih => cases m <;> simp [msgSum, ih] <;> omega

/-- the simulation relation between the two loop states for the stored flow `f0` -/
structure Sim (f0 : Flow) (st : ClaimLoop) (rt : RewLoop) : Prop where
  static : SameStatic st.flow f0
  emitted : st.flow.emitted = rt.emitted
  lu : st.lastUpd = rt.lastUpd
  ls : st.lastSeen = rt.lastSeen
  claimed : st.flow.claimed = f0.claimed + rt.total
  paid : msgSum st.msgs = rt.total

theorem claimPay_sim {f0 : Flow} {u expAmt : Nat} {st st' : ClaimLoop} {rt : RewLoop} {emission uw g : Nat}
    (hR : Sim f0 st rt) (h : claimPay u expAmt st emission uw g = .ok (.next st')) :
    ∃ rt', rewardsAdd f0 expAmt rt emission uw g = .ok (.next rt') ∧ Sim f0 st' rt' := by
  unfold claimPay at h
  unfold rewardsAdd
  split at h
  · rename_i hg
    injection h with h; injection h with h; subst h
    exact ⟨rt, by rw [if_pos hg], hR⟩
  · rename_i hg
    rw [if_neg hg]
    split at h
    · rename_i reward hrw
      split at h
      · rename_i tot ht
        obtain ⟨ht1, ht2⟩ := cadd_eq_ok ht
        split at h
        · cases h
        · rename_i hchk
          simp only [Bool.or_eq_true, decide_eq_true_eq, not_or, not_lt] at hchk
          have hc := hR.claimed
          have h0 : reward + f0.claimed ≤ U128MAX := by omega
          rw [cadd_ok h0]
          simp only
          have hchk2 : ¬ ((decide (reward > emission) || decide (reward + f0.claimed > expAmt)) = true) := by
            simp only [Bool.or_eq_true, decide_eq_true_eq, not_or, not_lt]
            exact ⟨hchk.1, by omega⟩
          rw [if_neg hchk2]
          split at h
          · rename_i hr0
            injection h with h; injection h with h; subst h
            have hp : rt.total + reward ≤ U128MAX := by omega
            rw [padd_ok hp]
            refine ⟨_, rfl, ?_⟩
            exact { static := hR.static, emitted := hR.emitted, lu := hR.lu, ls := hR.ls,
                    claimed := by simp only; omega, paid := by simp only; rw [hR.paid]; omega }
          · rename_i hr0
            split at h
            · rename_i cl hcl
              obtain ⟨hcl1, hcl2⟩ := cadd_eq_ok hcl
              injection h with h; injection h with h; subst h
              have hp : rt.total + reward ≤ U128MAX := by omega
              rw [padd_ok hp]
              refine ⟨_, rfl, ?_⟩
              exact { static := hR.static, emitted := hR.emitted, lu := hR.lu, ls := hR.ls,
                      claimed := by simp only; omega,
                      paid := by simp only; rw [msgSum_append, hR.paid]; simp [msgSum] }
            · cases h
            · cases h
      · cases h
      · cases h
    · cases h
    · cases h

end WW.Inc

namespace WW.Inc
open WW WW.Gen

theorem claimPay_is_next {u expAmt : Nat} {st : ClaimLoop} {emission uw g : Nat} {i : Iter ClaimLoop}
    (h : claimPay u expAmt st emission uw g = .ok i) : ∃ st', i = .next st' ∧ st'.count = st.count := by
  unfold claimPay at h
  split at h
  · injection h with h; exact ⟨st, h.symm, rfl⟩
  · split at h
    · split at h
      · split at h
        · cases h
        · split at h
          · injection h with h; exact ⟨st, h.symm, rfl⟩
          · split at h
            · injection h with h; exact ⟨_, h.symm, rfl⟩
            · cases h
            · cases h
      · cases h
      · cases h
    · cases h
    · cases h

def IterSim (f0 : Flow) : Iter ClaimLoop → Iter RewLoop → Prop
  | .next a, .next b => Sim f0 a b
  | .stop a, .stop b => Sim f0 a b
  | _, _ => False

def iterCount : Iter ClaimLoop → Nat
  | .next a => a.count
  | .stop a => a.count

/-- one epoch: as long as the cap is not hit, whatever `claim.rs` does the query loop does too -/
theorem claimEpoch_sim {s : St} {u expAmt expEnd ep : Nat} {f0 : Flow} {st : ClaimLoop} {rt : RewLoop}
    {i : Iter ClaimLoop} (hR : Sim f0 st rt) (hcap : st.count + 1 ≤ INCENTIVE_EPOCH_CLAIM_CAP)
    (h : claimEpoch s u expAmt expEnd st ep = .ok i) :
    ∃ j, rewardsEpoch s u f0 expAmt expEnd rt ep = .ok j ∧ IterSim f0 i j ∧ iterCount i = st.count + 1 := by
  unfold claimEpoch at h
  simp only [] at h
  unfold rewardsEpoch
  obtain ⟨hs1, hs2, hs3, hs4, hs5⟩ := hR.static
  split at h
  · rename_i hc; omega
  · rw [← hs4]
    split at h
    · rename_i hlt
      injection h with h; subst h
      refine ⟨.next { rt with lastUpd := (weightAt s u ep rt.lastUpd rt.lastSeen).1,
                              lastSeen := (weightAt s u ep rt.lastUpd rt.lastSeen).2.1 },
        by rw [if_pos hlt], ?_, rfl⟩
      exact { static := hR.static, emitted := hR.emitted,
              lu := by simp only; rw [hR.lu, hR.ls], ls := by simp only; rw [hR.lu, hR.ls],
              claimed := hR.claimed, paid := hR.paid }
    · rename_i hlt
      rw [if_neg hlt]
      split at h
      · rename_i hge
        injection h with h; subst h
        refine ⟨.stop rt, by rw [if_pos hge], ?_, rfl⟩
        exact { static := hR.static, emitted := hR.emitted, lu := hR.lu, ls := hR.ls, claimed := hR.claimed, paid := hR.paid }
      · rename_i hge
        rw [if_neg hge]
        have hes : emissionStep st.flow st.flow.emitted ep = emissionStep f0 rt.emitted ep := by
          rw [emissionStep_congr hR.static, hR.emitted]
        rw [hes] at h
        split at h
        · rename_i emission em hem
          simp only
          rw [← hR.lu, ← hR.ls]
          generalize hwa : weightAt s u ep st.lastUpd st.lastSeen = wa at *
          obtain ⟨w1, w2, w3⟩ := wa
          simp only at h ⊢
          have hR1 : Sim f0 { flow := { st.flow with emitted := em }, lastUpd := w1, lastSeen := w2,
                              count := st.count + 1, msgs := st.msgs }
                            { emitted := em, lastUpd := w1, lastSeen := w2, total := rt.total } :=
            { static := ⟨hs1, hs2, hs3, hs4, hs5⟩, emitted := rfl, lu := rfl, ls := rfl,
              claimed := hR.claimed, paid := hR.paid }
          cases w3 with
          | none =>
            simp only at h ⊢
            injection h with h; subst h
            exact ⟨_, rfl, hR1, rfl⟩
          | some uw =>
            simp only at h ⊢
            obtain ⟨st', hi, hcnt⟩ := claimPay_is_next h
            subst hi
            obtain ⟨rt', hr, hsim⟩ := claimPay_sim hR1 h
            exact ⟨_, hr, hsim, by simp only [iterCount]; rw [hcnt]⟩
        · cases h
        · cases h

end WW.Inc

namespace WW.Inc
open WW WW.Gen

theorem claimEpochs_sim {s : St} {u expAmt expEnd : Nat} {f0 : Flow} :
    ∀ (n ep : Nat) (st : ClaimLoop) (rt : RewLoop) (st' : ClaimLoop),
      Sim f0 st rt → st.count + n ≤ INCENTIVE_EPOCH_CLAIM_CAP →
      claimEpochs s u expAmt expEnd n ep st = .ok st' →
      ∃ rt', rewardsEpochs s u f0 expAmt expEnd n ep rt = .ok rt' ∧ Sim f0 st' rt' := by
  intro n
  induction n with
  | zero =>
    intro ep st rt st' hR _ h
    unfold claimEpochs at h
    injection h with h; subst h
    exact ⟨rt, rfl, hR⟩
  | succ n ih =>
    intro ep st rt st' hR hcap h
    unfold claimEpochs at h
    unfold rewardsEpochs
    split at h
    · rename_i st1 hce
      obtain ⟨j, hj, hsim, hcnt⟩ := claimEpoch_sim hR (by omega) hce
      cases j with
      | next rt1 =>
        rw [hj]
        simp only [iterCount] at hcnt
        exact ih (ep + 1) st1 rt1 st' hsim (by omega) h
      | stop rt1 => exact absurd hsim (by simp [IterSim])
    · rename_i st1 hce
      obtain ⟨j, hj, hsim, _⟩ := claimEpoch_sim hR (by omega) hce
      cases j with
      | next rt1 => exact absurd hsim (by simp [IterSim])
      | stop rt1 =>
        rw [hj]
        injection h with h; subst h
        exact ⟨rt1, rfl, hsim⟩
    · cases h
    · cases h

/-- **claim = quote, per flow**: when the number of epochs to go through does not exceed the claim cap
    (100), a successful `claim` iteration over a flow pays — as the sum of its transfer messages, which is
    also the increase of the flow's `claimed_amount` — exactly the total the rewards query computes for
    that flow from the same state (and the query does not fail). -/
theorem claimFlow_eq_rewardsFlow {s : St} {u epoch : Nat} {f f' : Flow} {msgs : List Msg}
    (hcap : epoch + 1 - (claimStart s u f).1 ≤ INCENTIVE_EPOCH_CLAIM_CAP)
    (h : claimFlow s u epoch f = .ok (f', msgs)) :
    ∃ r, rewardsFlow s u epoch f = .ok r ∧ f'.claimed = f.claimed + r.getD 0 ∧ msgSum msgs = r.getD 0 := by
  unfold claimFlow at h
  unfold rewardsFlow
  generalize hexp : f.expanded = ex at *
  obtain ⟨expAmt, expEnd⟩ := ex
  simp only at h ⊢
  split at h
  · rename_i hskip
    rw [if_pos hskip]
    injection h with h; injection h with h1 h2; subst h1 h2
    exact ⟨none, rfl, by simp, by simp [msgSum]⟩
  · rename_i hskip
    rw [if_neg hskip]
    generalize hcs : claimStart s u f = cs at *
    obtain ⟨first, lu, ls⟩ := cs
    simp only at h hcap ⊢
    split at h
    · rename_i st hloop
      injection h with h; injection h with h1 h2; subst h1 h2
      have hR : Sim f { flow := f, lastUpd := lu, lastSeen := ls, count := 0, msgs := [] }
                      { emitted := f.emitted, lastUpd := lu, lastSeen := ls, total := 0 } :=
        { static := ⟨rfl, rfl, rfl, rfl, rfl⟩, emitted := rfl, lu := rfl, ls := rfl,
          claimed := by simp, paid := by simp [msgSum] }
      obtain ⟨rt', hr, hsim⟩ := claimEpochs_sim (epoch + 1 - first) first _ _ st hR (by simpa using hcap) hloop
      rw [hr]
      exact ⟨some rt'.total, rfl, by simpa using hsim.claimed, by simpa using hsim.paid⟩
    · cases h
    · cases h

end WW.Inc

namespace WW.Inc
open WW WW.Gen

def pairSum : List (Nat × Nat) → Nat
  | [] => 0
  | p :: t => p.2 + pairSum t

/-- all flows: the claim's transfer messages add up to the sum of the per-flow totals of the query -/
theorem claimFlows_eq_rewardsFlows {s : St} {u epoch : Nat} :
    ∀ (fl fl' : List Flow) (msgs : List Msg),
      (∀ f ∈ fl, epoch + 1 - (claimStart s u f).1 ≤ INCENTIVE_EPOCH_CLAIM_CAP) →
      claimFlows s u epoch fl = .ok (fl', msgs) →
      ∃ l, rewardsFlows s u epoch fl = .ok l ∧ msgSum msgs = pairSum l := by
  intro fl
  induction fl with
  | nil =>
    intro fl' msgs _ h
    unfold claimFlows at h
    injection h with h; injection h with h1 h2; subst h2
    exact ⟨[], rfl, rfl⟩
  | cons f t ih =>
    intro fl' msgs hcap h
    unfold claimFlows at h
    unfold rewardsFlows
    have hcapt : ∀ g ∈ t, epoch + 1 - (claimStart s u g).1 ≤ INCENTIVE_EPOCH_CLAIM_CAP :=
      fun g hg => hcap g (List.mem_cons_of_mem _ hg)
    split at h
    · rename_i hav
      rw [if_pos hav]
      split at h
      · rename_i f' m hcf
        obtain ⟨r, hr, _, hsum⟩ := claimFlow_eq_rewardsFlow (hcap f List.mem_cons_self) hcf
        rw [hr]
        simp only
        split at h
        · rename_i t' m' hct
          obtain ⟨l, hl, hls⟩ := ih t' m' hcapt hct
          rw [hl]
          injection h with h; injection h with h1 h2; subst h2
          simp only
          cases r with
          | none => exact ⟨l, rfl, by rw [msgSum_append, hsum, hls]; simp⟩
          | some v => exact ⟨(f.asset, v) :: l, rfl, by rw [msgSum_append, hsum, hls]; simp [pairSum]⟩
        · cases h
        · cases h
      · cases h
      · cases h
    · rename_i hav
      rw [if_neg hav]
      split at h
      · rename_i t' m' hct
        obtain ⟨l, hl, hls⟩ := ih t' m' hcapt hct
        injection h with h; injection h with h1 h2; subst h2
        exact ⟨l, hl, hls⟩
      · cases h
      · cases h

end WW.Inc
