/- Closed forms of the slippage assertions (C15); everything in Props/C15 follows from them. -/
import WW.Model.Slippage
import WW.Model.SlippageExec
import WW.Proofs.Basic
import WW.Proofs.CpSwap
namespace WW

theorem dec256Mul_ok {a b : Nat} (h : a * b / E18 ≤ U256MAX) : dec256Mul a b = .ok (a * b / E18) := by
  simp [dec256Mul, h]

private theorem big_facts : U128MAX * E18 ≤ U256MAX ∧ U128MAX ≤ U256MAX
    ∧ (U128MAX + U128MAX) * E18 ≤ U256MAX ∧ (U128MAX + U128MAX + U128MAX) * E18 ≤ U256MAX
    ∧ E18 * E18 ≤ U128MAX := by decide

/-- the documented numbers: default 1 %, cap 50 % (18-decimal atomics) -/
theorem default_spread_pinned : Gen.SWAP_DEFAULT_SLIPPAGE = E18 / 100 := by decide
theorem spread_cap_pinned : Gen.SWAP_MAX_ALLOWED_SLIPPAGE = E18 / 2 := by decide

theorem effSpread_le_cap (s : Option Nat) : effSpread s ≤ E18 / 2 := by
  unfold effSpread
  rw [spread_cap_pinned]
  exact Nat.min_le_right _ _

theorem effSpread_le_one (s : Option Nat) : effSpread s ≤ E18 :=
  le_trans (effSpread_le_cap s) (by decide)

/-- `⌊n·10¹⁸/d⌋ ≤ 10¹⁸` when `n ≤ d` -/
theorem ratio_le_one {n d : Nat} (h : n ≤ d) : n * E18 / d ≤ E18 := by
  rcases Nat.eq_zero_or_pos d with hd | hd
  · subst hd; simp
  · exact Nat.div_le_of_le_mul (by nlinarith)

theorem E18_le_U256 : E18 ≤ U256MAX := by decide

/-- **closed form, no belief price**: on `Uint128` amounts with `return + spread ≠ 0` the assertion
    never panics and accepts exactly when the floored ratio is at most the effective limit. -/
theorem assertMaxSpread_none_closed (s : Option Nat) (offer : Nat) {ret spread : Nat}
    (h0 : ret + spread ≠ 0) (hmax : ret + spread ≤ U128MAX) :
    assertMaxSpread none s offer ret spread =
      if spread * E18 / (ret + spread) ≤ effSpread s then .ok () else .err := by
  have hr : spread * E18 / (ret + spread) ≤ U256MAX :=
    le_trans (ratio_le_one (Nat.le_add_left _ _)) E18_le_U256
  unfold assertMaxSpread
  simp only []
  rw [padd_ok hmax]; rw [Res.bind_ok]
  rw [dec256FromRatio_ok h0 hr]; rw [Res.bind_ok]
  by_cases h : spread * E18 / (ret + spread) ≤ effSpread s
  · rw [if_pos h, if_neg (by omega)]
  · rw [if_neg h, if_pos (by omega)]

theorem assertMaxSpread_none_zero (s : Option Nat) (offer : Nat) :
    assertMaxSpread none s offer 0 0 = .panic := by
  unfold assertMaxSpread
  simp only []
  rw [padd_ok (by decide : 0 + 0 ≤ U128MAX)]; rw [Res.bind_ok]
  rfl

theorem assertMaxSpread_none_overflow (s : Option Nat) (offer : Nat) {ret spread : Nat}
    (h : ¬ ret + spread ≤ U128MAX) : assertMaxSpread none s offer ret spread = .panic := by
  unfold assertMaxSpread
  simp only [padd, h, if_false]
  rfl

/-- the return the caller "believes in": `offer * belief_price.inv()` in the code's floor arithmetic -/
def beliefExpected (p offer : Nat) : Nat := offer * (E18 * E18 / p) / E18

theorem assertMaxSpread_belief_zero (s : Option Nat) (offer ret spread : Nat) :
    assertMaxSpread (some 0) s offer ret spread = .err := by
  unfold assertMaxSpread
  simp [decInv]

/-- **closed form, belief price given** -/
theorem assertMaxSpread_belief_closed (s : Option Nat) {p offer : Nat} (ret spread : Nat)
    (hp : p ≠ 0) (hexp : beliefExpected p offer ≤ U128MAX) :
    assertMaxSpread (some p) s offer ret spread =
      if ret < beliefExpected p offer then
        (if (beliefExpected p offer - ret) * E18 / beliefExpected p offer ≤ effSpread s then .ok ()
         else .err)
      else .ok () := by
  unfold beliefExpected at *
  unfold assertMaxSpread
  simp only [decInv, hp, if_false]
  rw [u128MulDec_ok hexp]; rw [Res.bind_ok]
  generalize offer * (E18 * E18 / p) / E18 = e at *
  by_cases hlt : ret < e
  · rw [if_pos hlt, if_pos hlt]
    have he : e ≠ 0 := by omega
    have hr : (e - ret) * E18 / e ≤ U256MAX :=
      le_trans (ratio_le_one (Nat.sub_le _ _)) E18_le_U256
    rw [dec256FromRatio_ok he hr]; rw [Res.bind_ok]
    by_cases h : (e - ret) * E18 / e ≤ effSpread s
    · rw [if_pos h, if_neg (by omega)]
    · rw [if_neg h, if_pos (by omega)]
  · rw [if_neg hlt, if_neg hlt]

theorem assertMaxSpread_belief_overflow (s : Option Nat) {p offer : Nat} (ret spread : Nat)
    (hp : p ≠ 0) (hexp : ¬ beliefExpected p offer ≤ U128MAX) :
    assertMaxSpread (some p) s offer ret spread = .panic := by
  unfold beliefExpected at *
  unfold assertMaxSpread
  simp only [decInv, hp, if_false, u128MulDec, hexp]
  rfl

/-! ### liquidity-deposit tolerance -/

/-- one direction of the constant-product check, in the code's floor arithmetic:
    `from_ratio(a, b) * (1 - t) ≤ from_ratio(pa, pb)` -/
abbrev cpSide (a b pa pb t : Nat) : Prop := a * E18 / b * (E18 - t) / E18 ≤ pa * E18 / pb


/-- the stableswap check (two- and three-asset): `from_ratio(Σpools, supply) * (1 - t) ≤ from_ratio(Σdeposits, amount)` -/
abbrev ssSide (psum dsum amount supply t : Nat) : Prop :=
  psum * E18 / supply * (E18 - t) / E18 ≤ dsum * E18 / amount


theorem pairAssertSlippage_none (d0 d1 p0 p1 : Nat) (k : PoolKind) (amount supply : Nat) :
    pairAssertSlippage none d0 d1 p0 p1 k amount supply = .ok () := rfl

theorem trioAssertSlippage_none (d0 d1 d2 p0 p1 p2 amount supply : Nat) :
    trioAssertSlippage none d0 d1 d2 p0 p1 p2 amount supply = .ok () := rfl

theorem pairAssertSlippage_gt_one {t : Nat} (ht : E18 < t) (d0 d1 p0 p1 : Nat) (k : PoolKind)
    (amount supply : Nat) : pairAssertSlippage (some t) d0 d1 p0 p1 k amount supply = .err := by
  unfold pairAssertSlippage
  simp only [gt_iff_lt, ht, if_true]

theorem trioAssertSlippage_gt_one {t : Nat} (ht : E18 < t) (d0 d1 d2 p0 p1 p2 amount supply : Nat) :
    trioAssertSlippage (some t) d0 d1 d2 p0 p1 p2 amount supply = .err := by
  unfold trioAssertSlippage
  simp only [gt_iff_lt, ht, if_true]

private theorem from_ratio_bound {n d : Nat} (hn : n ≤ U128MAX) : n * E18 / d ≤ U256MAX :=
  le_trans (Nat.div_le_self _ _) (le_trans (Nat.mul_le_mul_right E18 hn) big_facts.1)

private theorem mul_om_bound {a t : Nat} (ha : a ≤ U256MAX) : a * (E18 - t) / E18 ≤ U256MAX :=
  le_trans (mul_div_le_of_le (Nat.sub_le _ _)) ha

/-- **closed form, constant product** -/
theorem pairAssertSlippage_cp_closed {t d0 d1 p0 p1 : Nat} (amount supply : Nat) (ht : t ≤ E18)
    (hd0 : d0 ≠ 0) (hd1 : d1 ≠ 0) (hp0 : p0 ≠ 0) (hp1 : p1 ≠ 0)
    (bd0 : d0 ≤ U128MAX) (bd1 : d1 ≤ U128MAX) (bp0 : p0 ≤ U128MAX) (bp1 : p1 ≤ U128MAX) :
    pairAssertSlippage (some t) d0 d1 p0 p1 .constantProduct amount supply =
      if cpSide d0 d1 p0 p1 t ∧ cpSide d1 d0 p1 p0 t then .ok () else .err := by
  unfold cpSide
  unfold pairAssertSlippage
  simp only [gt_iff_lt, if_neg (Nat.not_lt.mpr ht)]
  rw [psub_ok ht]; rw [Res.bind_ok]
  rw [dec256FromRatio_ok hd1 (from_ratio_bound bd0)]; rw [Res.bind_ok]
  rw [dec256Mul_ok (mul_om_bound (from_ratio_bound bd0))]; rw [Res.bind_ok]
  rw [dec256FromRatio_ok hp1 (from_ratio_bound bp0)]; rw [Res.bind_ok]
  by_cases h0 : d0 * E18 / d1 * (E18 - t) / E18 ≤ p0 * E18 / p1
  · rw [if_neg (by omega)]
    rw [dec256FromRatio_ok hd0 (from_ratio_bound bd1)]; rw [Res.bind_ok]
    rw [dec256Mul_ok (mul_om_bound (from_ratio_bound bd1))]; rw [Res.bind_ok]
    rw [dec256FromRatio_ok hp0 (from_ratio_bound bp1)]; rw [Res.bind_ok]
    by_cases h1 : d1 * E18 / d0 * (E18 - t) / E18 ≤ p1 * E18 / p0
    · rw [if_neg (by omega), if_pos ⟨h0, h1⟩]
    · rw [if_pos (by omega), if_neg (fun h => h1 h.2)]
  · rw [if_pos (by omega), if_neg (fun h => h0 h.1)]

/-- **closed form, two-asset stableswap** -/
theorem pairAssertSlippage_ss_closed {t d0 d1 p0 p1 amount supply : Nat} (ht : t ≤ E18)
    (ha : amount ≠ 0) (hs : supply ≠ 0)
    (bd0 : d0 ≤ U128MAX) (bd1 : d1 ≤ U128MAX) (bp0 : p0 ≤ U128MAX) (bp1 : p1 ≤ U128MAX) :
    pairAssertSlippage (some t) d0 d1 p0 p1 .stableSwap amount supply =
      if ssSide (p0 + p1) (d0 + d1) amount supply t then .ok () else .err := by
  obtain ⟨_, f2, f3, _, _⟩ := big_facts
  have hps : p0 + p1 ≤ U256MAX := le_trans (Nat.add_le_add bp0 bp1) (by decide)
  have hds : d0 + d1 ≤ U256MAX := le_trans (Nat.add_le_add bd0 bd1) (by decide)
  have hpr : (p0 + p1) * E18 / supply ≤ U256MAX :=
    le_trans (Nat.div_le_self _ _) (le_trans (Nat.mul_le_mul_right E18 (Nat.add_le_add bp0 bp1)) f3)
  have hdr : (d0 + d1) * E18 / amount ≤ U256MAX :=
    le_trans (Nat.div_le_self _ _) (le_trans (Nat.mul_le_mul_right E18 (Nat.add_le_add bd0 bd1)) f3)
  unfold ssSide
  unfold pairAssertSlippage
  simp only [gt_iff_lt, if_neg (Nat.not_lt.mpr ht)]
  rw [psub_ok ht]; rw [Res.bind_ok]
  rw [cadd_ok hps]; rw [Res.bind_ok]
  rw [cadd_ok hds]; rw [Res.bind_ok]
  rw [dec256FromRatio_ok hs hpr]; rw [Res.bind_ok]
  rw [dec256FromRatio_ok ha hdr]; rw [Res.bind_ok]
  rw [dec256Mul_ok (mul_om_bound hpr)]; rw [Res.bind_ok]
  by_cases h : (p0 + p1) * E18 / supply * (E18 - t) / E18 ≤ (d0 + d1) * E18 / amount
  · rw [if_neg (by omega), if_pos h]
  · rw [if_pos (by omega), if_neg h]

/-- **closed form, 3pool** -/
theorem trioAssertSlippage_closed {t d0 d1 d2 p0 p1 p2 amount supply : Nat} (ht : t ≤ E18)
    (ha : amount ≠ 0) (hs : supply ≠ 0)
    (bd0 : d0 ≤ U128MAX) (bd1 : d1 ≤ U128MAX) (bd2 : d2 ≤ U128MAX)
    (bp0 : p0 ≤ U128MAX) (bp1 : p1 ≤ U128MAX) (bp2 : p2 ≤ U128MAX) :
    trioAssertSlippage (some t) d0 d1 d2 p0 p1 p2 amount supply =
      if ssSide (p0 + p1 + p2) (d0 + d1 + d2) amount supply t then .ok () else .err := by
  obtain ⟨_, f2, _, f4, _⟩ := big_facts
  have hp01 : p0 + p1 ≤ U256MAX := le_trans (Nat.add_le_add bp0 bp1) (by decide)
  have hd01 : d0 + d1 ≤ U256MAX := le_trans (Nat.add_le_add bd0 bd1) (by decide)
  have hp3 : p0 + p1 + p2 ≤ U128MAX + U128MAX + U128MAX := Nat.add_le_add (Nat.add_le_add bp0 bp1) bp2
  have hd3 : d0 + d1 + d2 ≤ U128MAX + U128MAX + U128MAX := Nat.add_le_add (Nat.add_le_add bd0 bd1) bd2
  have hps : p0 + p1 + p2 ≤ U256MAX := le_trans hp3 (by decide)
  have hds : d0 + d1 + d2 ≤ U256MAX := le_trans hd3 (by decide)
  have hpr : (p0 + p1 + p2) * E18 / supply ≤ U256MAX :=
    le_trans (Nat.div_le_self _ _) (le_trans (Nat.mul_le_mul_right E18 hp3) f4)
  have hdr : (d0 + d1 + d2) * E18 / amount ≤ U256MAX :=
    le_trans (Nat.div_le_self _ _) (le_trans (Nat.mul_le_mul_right E18 hd3) f4)
  unfold ssSide
  unfold trioAssertSlippage
  simp only [gt_iff_lt, if_neg (Nat.not_lt.mpr ht)]
  rw [psub_ok ht]; rw [Res.bind_ok]
  rw [cadd_ok hp01]; rw [Res.bind_ok]
  rw [cadd_ok hps]; rw [Res.bind_ok]
  rw [cadd_ok hd01]; rw [Res.bind_ok]
  rw [cadd_ok hds]; rw [Res.bind_ok]
  rw [dec256FromRatio_ok hs hpr]; rw [Res.bind_ok]
  rw [dec256FromRatio_ok ha hdr]; rw [Res.bind_ok]
  rw [dec256Mul_ok (mul_om_bound hpr)]; rw [Res.bind_ok]
  by_cases h : (p0 + p1 + p2) * E18 / supply * (E18 - t) / E18 ≤ (d0 + d1 + d2) * E18 / amount
  · rw [if_neg (by omega), if_pos h]
  · rw [if_pos (by omega), if_neg h]

/-! ### router minimum receive -/

theorem assertMinimumReceive_closed (prev m cur : Nat) :
    assertMinimumReceive prev m cur = if prev + m ≤ cur then .ok () else .err := by
  unfold assertMinimumReceive
  by_cases hp : prev ≤ cur
  · rw [csub_ok hp]; rw [Res.bind_ok]
    by_cases h : prev + m ≤ cur
    · rw [if_neg (by omega), if_pos h]
    · rw [if_pos (by omega), if_neg h]
  · have : csub cur prev = .err := by simp [csub, hp]
    rw [this]; rw [Res.bind_err]
    rw [if_neg (by omega)]

/-! ### arithmetic cores of the rational bounds (plain `Nat`) -/

/-- `⌊n/d⌋ ≤ m ↔ n < (m+1)·d` -/
theorem floor_le_iff {n d m : Nat} (hd : 0 < d) : n / d ≤ m ↔ n < (m + 1) * d := by
  rw [← Nat.lt_succ_iff, Nat.div_lt_iff_lt_mul hd]

/-- `⌊n/d⌋ ≤ m` whenever `n ≤ m·d` -/
theorem floor_le_of_le_mul {n d m : Nat} (h : n ≤ m * d) : n / d ≤ m := by
  rcases Nat.eq_zero_or_pos d with hd | hd
  · subst hd; simp
  · exact (floor_le_iff hd).mpr (by nlinarith)

/-- `n < (⌊n/d⌋+1)·d` -/
theorem lt_succ_div_mul (n : Nat) {d : Nat} (hd : 0 < d) : n < (n / d + 1) * d :=
  (Nat.div_lt_iff_lt_mul hd).mp (Nat.lt_succ_self _)

/-- inverse-then-multiply loses at most `1 + offer·10⁻¹⁸`:  `o·E² ≤ (e+1)·E·p + o·p` -/
theorem belief_expected_lower (o p inv e E : Nat) (h1 : E * E < (inv + 1) * p)
    (h2 : o * inv < (e + 1) * E) : o * (E * E) ≤ (e + 1) * E * p + o * p := by
  have a := Nat.mul_le_mul_left o (le_of_lt h1)
  have b := Nat.mul_le_mul_right p (Nat.succ_le_of_lt h2)
  nlinarith

theorem belief_core (o p inv e r E D : Nat) (h1 : E * E < (inv + 1) * p)
    (h2 : o * inv < (e + 1) * E) (hB : e * D ≤ r * E + e) :
    o * (E * E) * D ≤ r * (E * E * p) + (e * E * p + (E * p + o * p) * D) := by
  have hA := belief_expected_lower o p inv e E h1 h2
  have a := Nat.mul_le_mul_right D hA
  have b := Nat.mul_le_mul_right (E * p) hB
  nlinarith

/-- `e·(E−m) ≤ r·E + e` from the accepted floor ratio -/
theorem belief_ratio_core (e r E m : Nat) (hm : m ≤ E)
    (h : e ≤ r ∨ (e - r) * E < (m + 1) * e) : e * (E - m) ≤ r * E + e := by
  obtain ⟨D, hD⟩ : ∃ D, E = m + D := ⟨E - m, by omega⟩
  have hDe : E - m = D := by omega
  rw [hDe]
  rcases h with h | h
  · subst hD
    nlinarith
  · rcases Nat.lt_or_ge r e with hlt | hge
    · obtain ⟨k, hk⟩ : ∃ k, e = r + k := ⟨e - r, by omega⟩
      have : e - r = k := by omega
      rw [this] at h
      subst hk; subst hD
      nlinarith
    · subst hD
      nlinarith

theorem belief_complete_core (o p inv e r E D : Nat) (hp : 0 < p) (hE : 0 < E)
    (h1 : inv * p ≤ E * E) (h2 : e * E ≤ o * inv) (h : o * D ≤ r * p) : e * D ≤ r * E := by
  have hep : e * p ≤ o * E := by
    apply Nat.le_of_mul_le_mul_right (c := E) _ hE
    have a := Nat.mul_le_mul_right p h2
    have b := Nat.mul_le_mul_left o h1
    nlinarith
  apply Nat.le_of_mul_le_mul_right (c := p) _ hp
  have a := Nat.mul_le_mul_right D hep
  have b := Nat.mul_le_mul_right E h
  nlinarith

/-- the real-number bound implies the floored check:  `a/b·(1−t) ≤ pa/pb  ⇒  cpSide` -/
theorem cpSide_of_real {a b pa pb t : Nat} (hb : 0 < b) (hpb : 0 < pb)
    (h : a * (E18 - t) * pb ≤ pa * E18 * b) : cpSide a b pa pb t := by
  unfold cpSide
  generalize E18 - t = D at *
  have hE := E18_pos
  rw [Nat.le_div_iff_mul_le hpb]
  have hx : a * E18 / b * b ≤ a * E18 := Nat.div_mul_le_self _ _
  have hy : a * E18 / b * D / E18 * E18 ≤ a * E18 / b * D := Nat.div_mul_le_self _ _
  generalize a * E18 / b = x at *
  generalize x * D / E18 = y at *
  -- y*E ≤ x*D, x*b ≤ a*E  ⇒  y*b ≤ a*D
  have hyb : y * b ≤ a * D := by
    apply Nat.le_of_mul_le_mul_right (c := E18) _ hE
    have a1 := Nat.mul_le_mul_right b hy
    have a2 := Nat.mul_le_mul_right D hx
    nlinarith
  apply Nat.le_of_mul_le_mul_right (c := b) _ hb
  have a3 := Nat.mul_le_mul_right pb hyb
  nlinarith

/-- the floored check implies the real-number bound up to `2·10⁻¹⁸`:
    `cpSide ⇒ a/b·(1−t) < pa/pb + 2·10⁻¹⁸` -/
theorem real_of_cpSide {a b pa pb t : Nat} (hb : 0 < b) (hpb : 0 < pb)
    (h : cpSide a b pa pb t) : a * (E18 - t) * pb < (pa * E18 + 2 * pb) * b := by
  unfold cpSide at h
  have hDE : E18 - t ≤ E18 := Nat.sub_le _ _
  generalize E18 - t = D at *
  have hE := E18_pos
  have hx : a * E18 < (a * E18 / b + 1) * b := lt_succ_div_mul _ hb
  have hy : a * E18 / b * D < (a * E18 / b * D / E18 + 1) * E18 := lt_succ_div_mul _ hE
  have hz : pa * E18 / pb * pb ≤ pa * E18 := Nat.div_mul_le_self _ _
  generalize a * E18 / b = x at *
  generalize x * D / E18 = y at *
  generalize pa * E18 / pb = z at *
  -- a*E < (x+1)*b ; x*D < (y+1)*E ; y ≤ z ; z*pb ≤ pa*E ; D ≤ E
  have h1 : a * D < (z + 2) * b := by
    apply Nat.lt_of_mul_lt_mul_right (a := E18)
    have a1 := Nat.mul_le_mul_right D (Nat.succ_le_of_lt hx)
    have a2 := Nat.mul_le_mul_right b (Nat.succ_le_of_lt hy)
    have a3 := Nat.mul_le_mul_right (E18 * b) h
    have a4 := Nat.mul_le_mul_left b hDE
    nlinarith
  have a5 := Nat.mul_le_mul_right pb (Nat.succ_le_of_lt h1)
  have a6 := Nat.mul_le_mul_right b hz
  nlinarith

/-! ### call sites -/

/-- what the pair passes to `assert_max_spread`: the *gross* return `⌊ask·offer/(pool+offer)⌋`
    (proceeds + all three fees) and the spread of `compute_swap`. -/
theorem pairSwapChecked_closed {op ap off : Nat} {f : Fees} (b s : Option Nat)
    (hop : In128 op) (hap : In128 ap) (hoff : In128 off) (hop1 : 1 ≤ op) (hf : f.valid = true)
    (hsp : cpSpread op ap off ≤ U128MAX) :
    pairSwapChecked op ap off f b s =
      (assertMaxSpread b s off (cpGross op ap off) (cpSpread op ap off) >>= fun _ =>
        .ok (cpResult op ap off f).ret) := by
  have hfl := fees_le_gross hf (cpGross op ap off)
  have hg := cpGross_le_ask op ap off
  unfold In128 at *
  unfold pairSwapChecked
  rw [cpSwap_closed hop hap hoff hop1 hf, if_pos hsp]; rw [Res.bind_ok]
  simp only [cpResult]
  generalize cpGross op ap off = g at *
  generalize feeOf f.swap g = sf at *
  generalize feeOf f.prot g = pf at *
  generalize feeOf f.burn g = bf at *
  rw [cadd_ok (by omega)]; rw [Res.bind_ok]
  rw [cadd_ok (by omega)]; rw [Res.bind_ok]
  rw [cadd_ok (by omega)]; rw [Res.bind_ok]
  have e : g - sf - pf - bf + (sf + pf + bf) = g := by omega
  rw [e]
  rfl

theorem routeChecked_some {f : Fees} {ms : Option Nat} {m prev : Nat} {hops : List (Nat × Nat)}
    {offer out : Nat} (hh : routeHops f ms hops offer = .ok out) :
    routeChecked f ms (some m) prev hops offer = if m ≤ out then .ok out else .err := by
  unfold routeChecked
  rw [hh]; rw [Res.bind_ok]
  simp only []
  rw [assertMinimumReceive_closed]
  by_cases h : m ≤ out
  · rw [if_pos (by omega), if_pos h]; rfl
  · rw [if_neg (by omega), if_neg h]; rfl

theorem routeChecked_ok_hops {f : Fees} {ms minr : Option Nat} {prev : Nat} {hops : List (Nat × Nat)}
    {offer out : Nat} (h : routeChecked f ms minr prev hops offer = .ok out) :
    routeHops f ms hops offer = .ok out := by
  unfold routeChecked at h
  cases hr : routeHops f ms hops offer with
  | ok o =>
    rw [hr] at h; rw [Res.bind_ok] at h
    cases minr with
    | none => exact h
    | some m =>
      simp only [] at h
      rw [assertMinimumReceive_closed] at h
      by_cases hm : prev + m ≤ prev + o
      · rw [if_pos hm] at h; exact h
      · rw [if_neg hm] at h; cases h
  | err => rw [hr] at h; cases h
  | panic => rw [hr] at h; cases h

end WW
