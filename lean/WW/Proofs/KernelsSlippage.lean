/-
  Helpers for `WW/Props/Kernels/Slippage.lean`.  Core Lean only.
-/
import WW.Gen.Kernels
import WW.Proofs.Kernels
import WW.Model.Slippage
namespace WW

/-- the generated `PairType` as the slippage model's `PoolKind` (the amplification is not looked at) -/
def PoolKind.ofGen : Gen.K.PairType → PoolKind
  | .StableSwap _ => .stableSwap
  | .ConstantProduct => .constantProduct

end WW
