/- Helper lemmas for C01 / C07 (pair part): arithmetic cores of the LP-value argument, list sums,
   inversion of the `Res` do-blocks of `WW/Model/Pair.lean` into effect records, invariants. -/
import WW.Model.Pair
import WW.Proofs.Basic
import WW.Proofs.Quotes
namespace WW.Pair
open WW

/-! ### arithmetic cores (plain `Nat`) -/

theorem value_trans {K K' K'' S S' S'' : Nat} (h1 : K * S' ^ 2 ≤ K' * S ^ 2)
    (h2 : K' * S'' ^ 2 ≤ K'' * S' ^ 2) (hS : 0 < S') : K * S'' ^ 2 ≤ K'' * S ^ 2 := by
  have hpos : 0 < S' ^ 2 := by positivity
  apply Nat.le_of_mul_le_mul_right _ hpos
  calc K * S'' ^ 2 * S' ^ 2 = K * S' ^ 2 * S'' ^ 2 := by ring
    _ ≤ K' * S ^ 2 * S'' ^ 2 := Nat.mul_le_mul_right _ h1
    _ = K' * S'' ^ 2 * S ^ 2 := by ring
    _ ≤ K'' * S' ^ 2 * S ^ 2 := Nat.mul_le_mul_right _ h2
    _ = K'' * S ^ 2 * S' ^ 2 := by ring

/-- two per-side inequalities give the product (value) inequality -/
theorem value_of_sides {p0 p1 q0 q1 S T : Nat} (h0 : p0 * T ≤ q0 * S) (h1 : p1 * T ≤ q1 * S) :
    p0 * p1 * T ^ 2 ≤ q0 * q1 * S ^ 2 := by
  calc p0 * p1 * T ^ 2 = (p0 * T) * (p1 * T) := by ring
    _ ≤ (q0 * S) * (q1 * S) := Nat.mul_le_mul h0 h1
    _ = q0 * q1 * S ^ 2 := by ring

/-- deposit side: share·p ≤ d·S  ⇒  p·(S+share) ≤ (p+d)·S -/
theorem deposit_side {p d S sh : Nat} (h : sh * p ≤ d * S) : p * (S + sh) ≤ (p + d) * S := by
  nlinarith

/-- withdraw side: x·S ≤ p·amt, amt ≤ S  ⇒  p·(S−amt) ≤ (p−x)·S -/
theorem withdraw_side {p x S amt : Nat} (h : x * S ≤ p * amt) (ha : amt ≤ S) :
    p * (S - amt) ≤ (p - x) * S := by
  rcases Nat.eq_zero_or_pos S with h0 | h0
  · subst h0; simp
  obtain ⟨r, rfl⟩ : ∃ r, S = amt + r := ⟨S - amt, by omega⟩
  have hx : x ≤ p := by
    by_contra hc
    have hc := Nat.lt_of_not_le hc
    have : p * amt < x * (amt + r) := by nlinarith
    omega
  obtain ⟨q, rfl⟩ : ∃ q, p = x + q := ⟨p - x, by omega⟩
  have e1 : amt + r - amt = r := by omega
  have e2 : x + q - x = q := by omega
  rw [e1, e2]
  nlinarith

/-- swap: g·(op+off) ≤ ap·off and t ≤ g ⇒ the product of the reserves does not fall -/
theorem swap_k {op ap off g t : Nat} (hg : g * (op + off) ≤ ap * off) (ht : t ≤ g) :
    op * ap ≤ (op + off) * (ap - t) := by
  rcases Nat.eq_zero_or_pos (op + off) with h0 | h0
  · have h1 : op = 0 := by omega
    have h2 : off = 0 := by omega
    subst h1; subst h2; simp
  have hga : g ≤ ap := by
    by_contra hc
    have hc := Nat.lt_of_not_le hc
    have : ap * off < g * (op + off) := by nlinarith
    omega
  obtain ⟨m, rfl⟩ : ∃ m, ap = t + m := ⟨ap - t, by omega⟩
  have e : t + m - t = m := by omega
  rw [e]
  nlinarith

/-- `g·(op+off) ≤ ap·off` bounds `g` by the ask reserve -/
theorem gross_le_ask {op ap off g : Nat} (hg : g * (op + off) ≤ ap * off) (h0 : op + off ≠ 0) : g ≤ ap := by
  by_contra hc
  have hc := Nat.lt_of_not_le hc
  have hp : 0 < op + off := by omega
  have : ap * off < g * (op + off) := by nlinarith
  omega

/-- two nested floors: `(p · ⌊amt·E/S⌋) / E · S ≤ p · amt` -/
theorem refund_le_pro_rata {p amt S E : Nat} (hS : S ≠ 0) (hE : 0 < E) :
    p * (amt * E / S) / E * S ≤ p * amt := by
  have h1 : amt * E / S * S ≤ amt * E := Nat.div_mul_le_self _ _
  have h2 : p * (amt * E / S) / E * E ≤ p * (amt * E / S) := Nat.div_mul_le_self _ _
  apply Nat.le_of_mul_le_mul_right _ hE
  calc p * (amt * E / S) / E * S * E = (p * (amt * E / S) / E * E) * S := by ring
    _ ≤ p * (amt * E / S) * S := Nat.mul_le_mul_right _ h2
    _ = p * (amt * E / S * S) := by ring
    _ ≤ p * (amt * E) := Nat.mul_le_mul_left _ h1
    _ = p * amt * E := by ring

/-! ### sums over the user list -/

def sumF (f : User → Nat) (l : List User) : Nat := (l.map f).sum

theorem sumF_set (f : User → Nat) (l : List User) (u : Nat) (x d : User) (hu : u < l.length) :
    sumF f (l.set u x) + f (l.getD u d) = sumF f l + f x := by
  induction l generalizing u with
  | nil => simp at hu
  | cons y ys ih =>
    cases u with
    | zero => simp [sumF, List.set]; omega
    | succ v =>
      have hv : v < ys.length := by simpa using hu
      have := ih v hv
      simp only [sumF, List.set, List.map_cons, List.sum_cons, List.getD_cons_succ] at this ⊢
      omega

theorem getD_set_self (l : List User) (u : Nat) (x d : User) (hu : u < l.length) :
    (l.set u x).getD u d = x := by
  simp [List.getD, hu]

theorem getD_le_sumF (f : User → Nat) (l : List User) (u : Nat) (hu : u < l.length) (d : User) :
    f (l.getD u d) ≤ sumF f l := by
  induction l generalizing u with
  | nil => simp at hu
  | cons y ys ih =>
    cases u with
    | zero => simp [sumF]
    | succ v =>
      have hv : v < ys.length := by simpa using hu
      have := ih v hv
      simp only [sumF, List.map_cons, List.sum_cons, List.getD_cons_succ] at this ⊢
      omega

/-! ### inversion of the swap computation -/

theorem guardPanic_eq_ok {c : Bool} {u : Unit} (h : guardPanic c = .ok u) : c = true := by
  unfold guardPanic at h
  split at h
  · assumption
  · cases h

theorem mulRatioP_eq_ok {m a n d c : Nat} (h : mulRatioP m a n d = .ok c) : d ≠ 0 ∧ c = a * n / d := by
  unfold mulRatioP at h
  split at h
  · cases h
  · split at h
    · injection h with h; exact ⟨by assumption, h.symm⟩
    · cases h

theorem u128MulDec_eq_ok {a d c : Nat} (h : u128MulDec a d = .ok c) : c = a * d / E18 := by
  unfold u128MulDec at h
  split at h
  · injection h with h; exact h.symm
  · cases h

theorem floor_floor (x d : Nat) : 1 * (x * E18 / d) / E18 = x / d := by
  rw [Nat.one_mul, Nat.div_div_eq_div_mul]
  exact Nat.mul_div_mul_right _ _ E18_pos

/-- what a successful constant-product `compute_swap` returned: the four parts add up to the gross
    output `g = ⌊ask·offer / (offer_pool + offer)⌋` -/
theorem cpSwap_inv {op ap off : Nat} {f : Fees} {c : SwapComp} (h : cpSwap op ap off f = .ok c) :
    op + off ≠ 0 ∧ c.ret + c.swapFee + c.protFee + c.burnFee = ap * off / (op + off) := by
  unfold cpSwap at h
  obtain ⟨prod, e1, h⟩ := Res.bind_eq_ok h
  obtain ⟨den, e2, h⟩ := Res.bind_eq_ok h
  obtain ⟨r, e3, h⟩ := Res.bind_eq_ok h
  obtain ⟨gross, e4, h⟩ := Res.bind_eq_ok h
  obtain ⟨er, _, h⟩ := Res.bind_eq_ok h
  obtain ⟨x, _, h⟩ := Res.bind_eq_ok h
  obtain ⟨sf, e7, h⟩ := Res.bind_eq_ok h
  obtain ⟨pf, e8, h⟩ := Res.bind_eq_ok h
  obtain ⟨bf, e9, h⟩ := Res.bind_eq_ok h
  obtain ⟨r1, e10, h⟩ := Res.bind_eq_ok h
  obtain ⟨r2, e11, h⟩ := Res.bind_eq_ok h
  obtain ⟨ret, e12, h⟩ := Res.bind_eq_ok h
  obtain ⟨ret', e13, h⟩ := Res.bind_eq_ok h
  obtain ⟨sp', _, h⟩ := Res.bind_eq_ok h
  obtain ⟨sf', e15, h⟩ := Res.bind_eq_ok h
  obtain ⟨pf', e16, h⟩ := Res.bind_eq_ok h
  obtain ⟨bf', e17, h⟩ := Res.bind_eq_ok h
  injection h with h
  subst h
  have hprod := pmul_eq_ok e1
  obtain ⟨_, hden⟩ := padd_eq_ok e2
  obtain ⟨hd0, hr⟩ := dec256FromRatio_eq_ok e3
  have hg := u256MulDec_eq_ok e4
  have h10 : sf ≤ gross ∧ r1 = gross - sf := by
    unfold psub at e10; split at e10
    · injection e10 with e10; exact ⟨by assumption, e10.symm⟩
    · cases e10
  have h11 : pf ≤ r1 ∧ r2 = r1 - pf := by
    unfold psub at e11; split at e11
    · injection e11 with e11; exact ⟨by assumption, e11.symm⟩
    · cases e11
  have h12 : bf ≤ r2 ∧ ret = r2 - bf := by
    unfold psub at e12; split at e12
    · injection e12 with e12; exact ⟨by assumption, e12.symm⟩
    · cases e12
  have := to128_eq_ok e13
  have := to128_eq_ok e15
  have := to128_eq_ok e16
  have := to128_eq_ok e17
  have hgross : gross = ap * off / (op + off) := by
    rw [hg, hr, hprod, hden]; exact floor_floor _ _
  refine ⟨by omega, ?_⟩
  show ret' + sf' + pf' + bf' = _
  omega

/-- the effect of `swapCore` on the ask side -/
structure SwapFx (cv : Curve) (f : Fees) (dir : Bool) (o a a' : Side) (amt : Nat) (c : SwapComp) : Prop where
  offerOk : o.pend + amt ≤ o.bal
  askOk : a.pend ≤ a.bal
  comp : cv.swap f dir (o.bal - o.pend - amt) (a.bal - a.pend) amt = .ok c
  paid : c.ret + c.burnFee ≤ a.bal
  bal : a'.bal = a.bal - c.ret - c.burnFee
  pend : a'.pend = a.pend + c.protFee
  allTime : a'.allTime = a.allTime + c.protFee
  burned : a'.burned = a.burned + c.burnFee
  chg : a'.chg = a.chg + c.protFee
  brn : a'.brn = a.brn + c.burnFee
  tot : a'.tot = a.tot - c.burnFee
  col : a'.col = a.col
  colB : a'.colB = a.colB
  sent : a'.sent = a.sent
  native : a'.native = a.native

theorem swapCore_ok {cv : Curve} {f : Fees} {dir : Bool} {o a a' : Side} {amt : Nat} {ms : Option Nat}
    {c : SwapComp} (h : swapCore cv f dir o a amt ms = .ok (a', c)) : SwapFx cv f dir o a a' amt c := by
  unfold swapCore at h
  obtain ⟨pO1, e1, h⟩ := Res.bind_eq_ok h
  obtain ⟨pO, e2, h⟩ := Res.bind_eq_ok h
  obtain ⟨pA, e3, h⟩ := Res.bind_eq_ok h
  obtain ⟨c0, e4, h⟩ := Res.bind_eq_ok h
  obtain ⟨f1, _, h⟩ := Res.bind_eq_ok h
  obtain ⟨fees, _, h⟩ := Res.bind_eq_ok h
  obtain ⟨rf, _, h⟩ := Res.bind_eq_ok h
  obtain ⟨_, _, h⟩ := Res.bind_eq_ok h
  obtain ⟨burned', e9, h⟩ := Res.bind_eq_ok h
  obtain ⟨pend', e10, h⟩ := Res.bind_eq_ok h
  obtain ⟨all', e11, h⟩ := Res.bind_eq_ok h
  obtain ⟨balA1, e12, h⟩ := Res.bind_eq_ok h
  obtain ⟨balA, e13, h⟩ := Res.bind_eq_ok h
  injection h with h
  injection h with h1 h2
  subst h2
  subst h1
  obtain ⟨l1, hp1⟩ := csub_eq_ok e1
  obtain ⟨l2, hp2⟩ := csub_eq_ok e2
  obtain ⟨l3, hp3⟩ := csub_eq_ok e3
  obtain ⟨_, hb⟩ := padd_eq_ok e9
  obtain ⟨_, hpe⟩ := padd_eq_ok e10
  obtain ⟨_, hal⟩ := padd_eq_ok e11
  obtain ⟨l12, hb1⟩ := csub_eq_ok e12
  obtain ⟨l13, hb2⟩ := csub_eq_ok e13
  subst hp1 hp2 hp3
  exact { offerOk := by omega, askOk := l3, comp := e4, paid := by omega, bal := by simp only []; omega,
          pend := hpe, allTime := hal, burned := hb, chg := rfl, brn := rfl, tot := rfl, col := rfl, colB := rfl,
          sent := rfl, native := rfl }

/-! ### operation-level inversion -/

def dflt : User := { a := 0, b := 0, lp := 0 }

theorem sumF_set2 (f : User → Nat) (l : List User) (u t : Nat) (x y : User) (hu : u < l.length)
    (ht : t < l.length) :
    sumF f ((l.set u x).set t y) + f (l.getD u dflt) + f ((l.set u x).getD t dflt) =
      sumF f l + f x + f y := by
  have h1 := sumF_set f l u x dflt hu
  have h2 := sumF_set f (l.set u x) t y dflt (by simpa using ht)
  omega

theorem swap_ok {cv : Curve} {s s' : St} {u dir off rcv : Nat} {ms : Option Nat}
    (h : swap cv s u dir off ms rcv = .ok s') :
    s'.sup = s.sup ∧ s'.lpPair = s.lpPair ∧ s'.fees = s.fees ∧ s'.users.length = s.users.length ∧
    sumF (·.lp) s'.users = sumF (·.lp) s.users ∧
    ((dir = 0 ∧ ∃ a' c, SwapFx cv s.fees false { s.x0 with bal := s.x0.bal + off } s.x1 a' off c ∧
        s'.x0 = { s.x0 with bal := s.x0.bal + off } ∧ s'.x1 = a' ∧
        sumF (·.a) s'.users + off = sumF (·.a) s.users ∧
        sumF (·.b) s'.users = sumF (·.b) s.users + c.ret) ∨
     (dir ≠ 0 ∧ ∃ a' c, SwapFx cv s.fees true { s.x1 with bal := s.x1.bal + off } s.x0 a' off c ∧
        s'.x1 = { s.x1 with bal := s.x1.bal + off } ∧ s'.x0 = a' ∧
        sumF (·.b) s'.users + off = sumF (·.b) s.users ∧
        sumF (·.a) s'.users = sumF (·.a) s.users + c.ret)) := by
  unfold swap at h
  obtain ⟨_, g1, h⟩ := Res.bind_eq_ok h
  have g1 := guardErr_eq_ok g1
  simp only [decide_eq_true_eq] at g1
  obtain ⟨hu, hto, _⟩ := g1
  split at h
  · rename_i hd
    obtain ⟨_, _, h⟩ := Res.bind_eq_ok h
    obtain ⟨_, g3, h⟩ := Res.bind_eq_ok h
    have g3 := guardErr_eq_ok g3
    simp only [decide_eq_true_eq] at g3
    obtain ⟨⟨a', c⟩, e, h⟩ := Res.bind_eq_ok h
    have fx := swapCore_ok e
    injection h with h
    subst h
    have hA := sumF_set2 (·.a) s.users u rcv { s.user u with a := (s.user u).a - off }
      { ((s.users.set u { s.user u with a := (s.user u).a - off }).getD rcv dflt) with
        b := ((s.users.set u { s.user u with a := (s.user u).a - off }).getD rcv dflt).b + c.ret } hu hto
    have hB := sumF_set2 (·.b) s.users u rcv { s.user u with a := (s.user u).a - off }
      { ((s.users.set u { s.user u with a := (s.user u).a - off }).getD rcv dflt) with
        b := ((s.users.set u { s.user u with a := (s.user u).a - off }).getD rcv dflt).b + c.ret } hu hto
    have hL := sumF_set2 (·.lp) s.users u rcv { s.user u with a := (s.user u).a - off }
      { ((s.users.set u { s.user u with a := (s.user u).a - off }).getD rcv dflt) with
        b := ((s.users.set u { s.user u with a := (s.user u).a - off }).getD rcv dflt).b + c.ret } hu hto
    simp only [St.user, dflt] at hA hB hL g3
    refine ⟨rfl, rfl, rfl, by simp [St.setUser], ?_, Or.inl ⟨hd, a', c, fx, rfl, rfl, ?_, ?_⟩⟩
    · simp only [St.setUser, St.user, dflt]; omega
    · simp only [St.setUser, St.user, dflt]; omega
    · simp only [St.setUser, St.user, dflt]; omega
  · rename_i hd
    obtain ⟨_, _, h⟩ := Res.bind_eq_ok h
    obtain ⟨_, g3, h⟩ := Res.bind_eq_ok h
    have g3 := guardErr_eq_ok g3
    simp only [decide_eq_true_eq] at g3
    obtain ⟨⟨a', c⟩, e, h⟩ := Res.bind_eq_ok h
    have fx := swapCore_ok e
    injection h with h
    subst h
    have hA := sumF_set2 (·.a) s.users u rcv { s.user u with b := (s.user u).b - off }
      { ((s.users.set u { s.user u with b := (s.user u).b - off }).getD rcv dflt) with
        a := ((s.users.set u { s.user u with b := (s.user u).b - off }).getD rcv dflt).a + c.ret } hu hto
    have hB := sumF_set2 (·.b) s.users u rcv { s.user u with b := (s.user u).b - off }
      { ((s.users.set u { s.user u with b := (s.user u).b - off }).getD rcv dflt) with
        a := ((s.users.set u { s.user u with b := (s.user u).b - off }).getD rcv dflt).a + c.ret } hu hto
    have hL := sumF_set2 (·.lp) s.users u rcv { s.user u with b := (s.user u).b - off }
      { ((s.users.set u { s.user u with b := (s.user u).b - off }).getD rcv dflt) with
        a := ((s.users.set u { s.user u with b := (s.user u).b - off }).getD rcv dflt).a + c.ret } hu hto
    simp only [St.user, dflt] at hA hB hL g3
    refine ⟨rfl, rfl, rfl, by simp [St.setUser], ?_, Or.inr ⟨hd, a', c, fx, rfl, rfl, ?_, ?_⟩⟩
    · simp only [St.setUser, St.user, dflt]; omega
    · simp only [St.setUser, St.user, dflt]; omega
    · simp only [St.setUser, St.user, dflt]; omega

/-- a deposit naming an asset with the wrong kind never succeeds -/
theorem provideBad_not_ok {s s' : St} {u d0 d1 k : Nat} (h : provideBad s u d0 d1 k = .ok s') : False := by
  unfold provideBad at h
  obtain ⟨_, _, h⟩ := Res.bind_eq_ok h
  split at h
  · obtain ⟨_, _, h⟩ := Res.bind_eq_ok h
    split at h
    · cases h
    · split at h <;> cases h
  · obtain ⟨_, _, h⟩ := Res.bind_eq_ok h
    split at h
    · cases h
    · split at h <;> cases h

theorem swapBad_ok {cv : Curve} {s s' : St} {u dir off sent : Nat}
    (h : swapBad cv s u dir off sent = .ok s') : swap cv s u dir off none u = .ok s' := by
  unfold swapBad at h
  obtain ⟨_, _, h⟩ := Res.bind_eq_ok h
  obtain ⟨_, _, h⟩ := Res.bind_eq_ok h
  obtain ⟨_, _, h⟩ := Res.bind_eq_ok h
  exact h

/-- constant-product LP amounts: first deposit `⌊√(d0·d1)⌋ − 1000` (and 1000 locked in the pair),
    later deposits `min(d0·S/p0, d1·S/p1)` -/
theorem provideShares_ok {sup p0 p1 d0 d1 share lock : Nat} {tol : Option Nat}
    (h : provideShares sup p0 p1 d0 d1 tol = .ok (share, lock)) :
    (sup = 0 ∧ lock = Gen.MINIMUM_LIQUIDITY_AMOUNT ∧ share ≠ 0 ∧
        share + Gen.MINIMUM_LIQUIDITY_AMOUNT = isqrt (d0 * d1)) ∨
    (sup ≠ 0 ∧ lock = 0 ∧ p0 ≠ 0 ∧ p1 ≠ 0 ∧ share = min (d0 * sup / p0) (d1 * sup / p1)) := by
  unfold provideShares at h
  split at h
  · rename_i h0
    obtain ⟨prod, e1, h⟩ := Res.bind_eq_ok h
    obtain ⟨sh, e2, h⟩ := Res.bind_eq_ok h
    obtain ⟨_, e3, h⟩ := Res.bind_eq_ok h
    injection h with h
    injection h with h1 h2
    subst h1 h2
    have e3 := guardErr_eq_ok e3
    simp only [decide_eq_true_eq] at e3
    obtain ⟨l, hs⟩ := csub_eq_ok e2
    have hp : prod = d0 * d1 := by
      unfold cmul at e1; split at e1
      · injection e1 with e1; exact e1.symm
      · cases e1
    subst hp
    exact Or.inl ⟨h0, rfl, e3, by omega⟩
  · rename_i h0
    obtain ⟨a0, e1, h⟩ := Res.bind_eq_ok h
    obtain ⟨a1, e2, h⟩ := Res.bind_eq_ok h
    obtain ⟨_, _, h⟩ := Res.bind_eq_ok h
    injection h with h
    injection h with h1 h2
    subst h1 h2
    obtain ⟨n0, ha0⟩ := mulRatioP_eq_ok e1
    obtain ⟨n1, ha1⟩ := mulRatioP_eq_ok e2
    subst ha0 ha1
    exact Or.inr ⟨h0, rfl, n0, n1, rfl⟩

theorem provide_ok {cv : Curve} {s s' : St} {u rcv d0 d1 : Nat} {tol : Option Nat}
    (h : provide cv s u rcv d0 d1 tol = .ok s') :
    ∃ share lock, s.x0.pend ≤ s.x0.bal ∧ s.x1.pend ≤ s.x1.bal ∧
      cv.shares s.sup (s.x0.bal - s.x0.pend) (s.x1.bal - s.x1.pend) d0 d1 tol = .ok (share, lock) ∧
      u < s.users.length ∧ rcv < s.users.length ∧ d0 ≤ (s.user u).a ∧ d1 ≤ (s.user u).b ∧
      s'.x0 = { s.x0 with bal := s.x0.bal + d0 } ∧ s'.x1 = { s.x1 with bal := s.x1.bal + d1 } ∧
      s'.sup = s.sup + lock + share ∧ s'.lpPair = s.lpPair + lock ∧ s'.fees = s.fees ∧
      s'.users = (s.users.set u { s.user u with a := (s.user u).a - d0, b := (s.user u).b - d1 }).set rcv
        { ((s.users.set u { s.user u with a := (s.user u).a - d0, b := (s.user u).b - d1 }).getD rcv dflt) with
          lp := ((s.users.set u { s.user u with a := (s.user u).a - d0, b := (s.user u).b - d1 }).getD rcv dflt).lp + share } ∧
      s'.users.length = s.users.length ∧
      sumF (·.a) s'.users + d0 = sumF (·.a) s.users ∧ sumF (·.b) s'.users + d1 = sumF (·.b) s.users ∧
      sumF (·.lp) s'.users = sumF (·.lp) s.users + share := by
  unfold provide at h
  obtain ⟨_, g1, h⟩ := Res.bind_eq_ok h
  have g1 := guardErr_eq_ok g1
  simp only [decide_eq_true_eq] at g1
  obtain ⟨hu, hr⟩ := g1
  obtain ⟨_, _, h⟩ := Res.bind_eq_ok h
  obtain ⟨_, _, h⟩ := Res.bind_eq_ok h
  obtain ⟨p0, e0, h⟩ := Res.bind_eq_ok h
  obtain ⟨p1, e1, h⟩ := Res.bind_eq_ok h
  obtain ⟨⟨share, lock⟩, es, h⟩ := Res.bind_eq_ok h
  obtain ⟨_, g4, h⟩ := Res.bind_eq_ok h
  have g4 := guardErr_eq_ok g4
  simp only [decide_eq_true_eq] at g4
  obtain ⟨_, _, h⟩ := Res.bind_eq_ok h
  injection h with h
  subst h
  obtain ⟨l0, hp0⟩ := csub_eq_ok e0
  obtain ⟨l1, hp1⟩ := csub_eq_ok e1
  subst hp0 hp1
  have hA := sumF_set2 (·.a) s.users u rcv { s.user u with a := (s.user u).a - d0, b := (s.user u).b - d1 }
    { ((s.users.set u { s.user u with a := (s.user u).a - d0, b := (s.user u).b - d1 }).getD rcv dflt) with
      lp := ((s.users.set u { s.user u with a := (s.user u).a - d0, b := (s.user u).b - d1 }).getD rcv dflt).lp + share } hu hr
  have hB := sumF_set2 (·.b) s.users u rcv { s.user u with a := (s.user u).a - d0, b := (s.user u).b - d1 }
    { ((s.users.set u { s.user u with a := (s.user u).a - d0, b := (s.user u).b - d1 }).getD rcv dflt) with
      lp := ((s.users.set u { s.user u with a := (s.user u).a - d0, b := (s.user u).b - d1 }).getD rcv dflt).lp + share } hu hr
  have hL := sumF_set2 (·.lp) s.users u rcv { s.user u with a := (s.user u).a - d0, b := (s.user u).b - d1 }
    { ((s.users.set u { s.user u with a := (s.user u).a - d0, b := (s.user u).b - d1 }).getD rcv dflt) with
      lp := ((s.users.set u { s.user u with a := (s.user u).a - d0, b := (s.user u).b - d1 }).getD rcv dflt).lp + share } hu hr
  simp only [St.user, dflt] at hA hB hL g4
  refine ⟨share, lock, l0, l1, es, hu, hr, g4.1, g4.2, rfl, rfl, rfl, rfl, rfl, rfl, by simp [St.setUser], ?_, ?_, ?_⟩
  · simp only [St.setUser, St.user, dflt]; omega
  · simp only [St.setUser, St.user, dflt]; omega
  · simp only [St.setUser, St.user, dflt]; omega

theorem refunds_ok {s : St} {amt r0 r1 : Nat} (h : refunds s amt = .ok (r0, r1)) :
    s.sup ≠ 0 ∧ s.x0.pend ≤ s.x0.bal ∧ s.x1.pend ≤ s.x1.bal ∧
    r0 = (s.x0.bal - s.x0.pend) * (amt * E18 / s.sup) / E18 ∧
    r1 = (s.x1.bal - s.x1.pend) * (amt * E18 / s.sup) / E18 := by
  unfold refunds at h
  obtain ⟨ratio, e1, h⟩ := Res.bind_eq_ok h
  obtain ⟨p0, e2, h⟩ := Res.bind_eq_ok h
  obtain ⟨x0, e3, h⟩ := Res.bind_eq_ok h
  obtain ⟨p1, e4, h⟩ := Res.bind_eq_ok h
  obtain ⟨x1, e5, h⟩ := Res.bind_eq_ok h
  injection h with h
  injection h with h1 h2
  subst h1 h2
  obtain ⟨hs, hr⟩ := mulRatioP_eq_ok e1
  obtain ⟨l0, hp0⟩ := csub_eq_ok e2
  obtain ⟨l1, hp1⟩ := csub_eq_ok e4
  have h3 := u128MulDec_eq_ok e3
  have h5 := u128MulDec_eq_ok e5
  subst hr hp0 hp1
  exact ⟨hs, l0, l1, h3, h5⟩

theorem withdraw_ok {s s' : St} {u amt : Nat} (h : withdraw s u amt = .ok s') :
    ∃ r0 r1, refunds s amt = .ok (r0, r1) ∧ u < s.users.length ∧ amt ≤ (s.user u).lp ∧
      r0 ≤ s.x0.bal ∧ r1 ≤ s.x1.bal ∧
      s'.x0 = { s.x0 with bal := s.x0.bal - r0 } ∧ s'.x1 = { s.x1 with bal := s.x1.bal - r1 } ∧
      s'.sup = s.sup - amt ∧ s'.lpPair = s.lpPair ∧ s'.fees = s.fees ∧
      s'.users = s.users.set u { a := (s.user u).a + r0, b := (s.user u).b + r1, lp := (s.user u).lp - amt } ∧
      s'.users.length = s.users.length ∧
      sumF (·.a) s'.users = sumF (·.a) s.users + r0 ∧ sumF (·.b) s'.users = sumF (·.b) s.users + r1 ∧
      sumF (·.lp) s'.users + amt = sumF (·.lp) s.users := by
  unfold withdraw at h
  obtain ⟨_, g1, h⟩ := Res.bind_eq_ok h
  have hu := guardErr_eq_ok g1
  simp only [decide_eq_true_eq] at hu
  obtain ⟨_, g2, h⟩ := Res.bind_eq_ok h
  have g2 := guardErr_eq_ok g2
  simp only [decide_eq_true_eq] at g2
  obtain ⟨⟨r0, r1⟩, er, h⟩ := Res.bind_eq_ok h
  obtain ⟨_, _, h⟩ := Res.bind_eq_ok h
  obtain ⟨_, g4, h⟩ := Res.bind_eq_ok h
  have g4 := guardErr_eq_ok g4
  simp only [decide_eq_true_eq] at g4
  injection h with h
  subst h
  have hA := sumF_set (·.a) s.users u { a := (s.user u).a + r0, b := (s.user u).b + r1, lp := (s.user u).lp - amt } dflt hu
  have hB := sumF_set (·.b) s.users u { a := (s.user u).a + r0, b := (s.user u).b + r1, lp := (s.user u).lp - amt } dflt hu
  have hL := sumF_set (·.lp) s.users u { a := (s.user u).a + r0, b := (s.user u).b + r1, lp := (s.user u).lp - amt } dflt hu
  simp only [St.user, dflt] at hA hB hL g2
  refine ⟨r0, r1, er, hu, g2, g4.1, g4.2, rfl, rfl, rfl, rfl, rfl, rfl, by simp [St.setUser], ?_, ?_, ?_⟩
  · simp only [St.setUser, St.user, dflt]; omega
  · simp only [St.setUser, St.user, dflt]; omega
  · simp only [St.setUser, St.user, dflt]; omega

/-- what a collection above the threshold does to one side: the pending entry leaves the pair and
    lands with the configured collector (`useB` selects which of the two collector accounts) -/
structure CollectFx (useB : Bool) (x x' : Side) : Prop where
  above : Gen.PAIR_MINIMUM_COLLECTABLE_BALANCE < x.pend
  le : x.pend ≤ x.bal
  bal : x'.bal = x.bal - x.pend
  pend : x'.pend = 0
  col : x'.col = (if useB then x.col else x.col + x.pend)
  colB : x'.colB = (if useB then x.colB + x.pend else x.colB)
  sent : x'.sent = x.sent + x.pend
  native : x'.native = x.native
  allTime : x'.allTime = x.allTime
  burned : x'.burned = x.burned
  chg : x'.chg = x.chg
  brn : x'.brn = x.brn
  tot : x'.tot = x.tot

/-- one side of `collect_protocol_fees` -/
theorem collectSide_ok {useB : Bool} {x x' : Side} (h : collectSide useB x = .ok x') :
    CollectFx useB x x' ∨ (x.pend ≤ Gen.PAIR_MINIMUM_COLLECTABLE_BALANCE ∧ x' = x) := by
  unfold collectSide at h
  split at h
  · rename_i hc
    obtain ⟨b, e, h⟩ := Res.bind_eq_ok h
    obtain ⟨l, hb⟩ := csub_eq_ok e
    subst hb
    cases useB with
    | true =>
      simp only [if_true] at h
      injection h with h
      subst h
      exact Or.inl ⟨hc, l, rfl, rfl, rfl, rfl, rfl, rfl, rfl, rfl, rfl, rfl, rfl⟩
    | false =>
      simp only [Bool.false_eq_true, if_false] at h
      injection h with h
      subst h
      exact Or.inl ⟨hc, l, rfl, rfl, rfl, rfl, rfl, rfl, rfl, rfl, rfl, rfl, rfl⟩
  · rename_i hc
    injection h with h
    exact Or.inr ⟨by omega, h.symm⟩

theorem collect_ok {s s' : St} (h : collect s = .ok s') :
    ∃ y0 y1, collectSide s.useB s.x0 = .ok y0 ∧ collectSide s.useB s.x1 = .ok y1 ∧
      s' = { s with x0 := y0, x1 := y1 } := by
  unfold collect at h
  obtain ⟨y0, e0, h⟩ := Res.bind_eq_ok h
  obtain ⟨y1, e1, h⟩ := Res.bind_eq_ok h
  injection h with h
  exact ⟨y0, y1, e0, e1, h.symm⟩

theorem setFees_ok {s s' : St} {o : Bool} {f : Fees} (h : setFees s o f = .ok s') :
    o = true ∧ f.valid = true ∧ s' = { s with fees := f } := by
  unfold setFees at h
  obtain ⟨_, g1, h⟩ := Res.bind_eq_ok h
  obtain ⟨_, g2, h⟩ := Res.bind_eq_ok h
  injection h with h
  exact ⟨guardErr_eq_ok g1, guardErr_eq_ok g2, h.symm⟩

theorem setCollector_ok {s s' : St} {o b : Bool} (h : setCollector s o b = .ok s') :
    o = true ∧ s' = { s with useB := b } := by
  unfold setCollector at h
  obtain ⟨_, g1, h⟩ := Res.bind_eq_ok h
  injection h with h
  exact ⟨guardErr_eq_ok g1, h.symm⟩

theorem donate_ok {s s' : St} {u which amt : Nat} (h : donate s u which amt = .ok s') :
    u < s.users.length ∧
    ((which = 0 ∧ amt ≤ (s.user u).a ∧
        s' = { s with x0 := { s.x0 with bal := s.x0.bal + amt },
                      users := s.users.set u { s.user u with a := (s.user u).a - amt } }) ∨
     (which = 1 ∧ amt ≤ (s.user u).b ∧
        s' = { s with x1 := { s.x1 with bal := s.x1.bal + amt },
                      users := s.users.set u { s.user u with b := (s.user u).b - amt } }) ∨
     (which = 2 ∧ amt ≤ (s.user u).lp ∧
        s' = { s with lpPair := s.lpPair + amt,
                      users := s.users.set u { s.user u with lp := (s.user u).lp - amt } })) := by
  unfold donate at h
  obtain ⟨_, g1, h⟩ := Res.bind_eq_ok h
  have hu := guardErr_eq_ok g1
  simp only [decide_eq_true_eq] at hu
  refine ⟨hu, ?_⟩
  split at h
  · rename_i hw
    obtain ⟨_, _, h⟩ := Res.bind_eq_ok h
    obtain ⟨_, g3, h⟩ := Res.bind_eq_ok h
    have g3 := guardErr_eq_ok g3
    simp only [decide_eq_true_eq] at g3
    injection h with h
    exact Or.inl ⟨hw, g3, h.symm⟩
  · split at h
    · rename_i hw
      obtain ⟨_, _, h⟩ := Res.bind_eq_ok h
      obtain ⟨_, g3, h⟩ := Res.bind_eq_ok h
      have g3 := guardErr_eq_ok g3
      simp only [decide_eq_true_eq] at g3
      injection h with h
      exact Or.inr (Or.inl ⟨hw, g3, h.symm⟩)
    · split at h
      · rename_i hw
        obtain ⟨_, g3, h⟩ := Res.bind_eq_ok h
        have g3 := guardErr_eq_ok g3
        simp only [decide_eq_true_eq] at g3
        injection h with h
        exact Or.inr (Or.inr ⟨hw, g3, h.symm⟩)
      · cases h

/-! ### invariants -/

/-- LP-value comparison: `√(r0·r1)/S` at `s` is at most that at `s'`, cross-multiplied and squared -/
def ValueLe (s s' : St) : Prop :=
  s.x0.res * s.x1.res * s'.sup ^ 2 ≤ s'.x0.res * s'.x1.res * s.sup ^ 2

/-- solvency and LP bookkeeping -/
structure Inv (s : St) : Prop where
  solv0 : s.x0.pend ≤ s.x0.bal
  solv1 : s.x1.pend ≤ s.x1.bal
  lpSum : s.sup = s.lpPair + sumF (·.lp) s.users
  locked : s.sup = 0 ∨ Gen.MINIMUM_LIQUIDITY_AMOUNT ≤ s.lpPair

/-- fee ledgers of one side against the ghost sums; `K` = initial circulating amount, `C` = what the
    collector held initially -/
structure SideLedger (K C : Nat) (x : Side) : Prop where
  ledger : x.pend + x.sent = x.chg
  allTime : x.allTime = x.chg
  burned : x.burned = x.brn
  col : x.col + x.colB = C + x.sent
  supply : x.tot + x.brn = K

/-- closed world: every unit of each asset is on the pair, with the collector or with a user -/
structure Cons (s : St) : Prop where
  c0 : s.x0.tot = s.x0.bal + s.x0.col + s.x0.colB + sumF (·.a) s.users
  c1 : s.x1.tot = s.x1.bal + s.x1.col + s.x1.colB + sumF (·.b) s.users

structure LInv (K0 C0 K1 C1 : Nat) (s : St) : Prop where
  l0 : SideLedger K0 C0 s.x0
  l1 : SideLedger K1 C1 s.x1
  cons : Cons s

theorem SideLedger.of_swap {K C : Nat} {cv : Curve} {f : Fees} {dir : Bool} {o a a' : Side} {amt : Nat}
    {c : SwapComp} (fx : SwapFx cv f dir o a a' amt c) (h : SideLedger K C a) (hb : c.burnFee ≤ a.tot) :
    SideLedger K C a' := by
  have := fx.pend; have := fx.allTime; have := fx.burned; have := fx.chg; have := fx.brn
  have := fx.tot; have := fx.col; have := fx.colB; have := fx.sent
  have := h.ledger; have := h.allTime; have := h.burned; have := h.col; have := h.supply
  exact ⟨by omega, by omega, by omega, by omega, by omega⟩

theorem SideLedger.of_bal {K C : Nat} {x : Side} (h : SideLedger K C x) (b : Nat) :
    SideLedger K C { x with bal := b } := ⟨h.ledger, h.allTime, h.burned, h.col, h.supply⟩

theorem SideLedger.of_collect {K C : Nat} {useB : Bool} {x x' : Side} (h : SideLedger K C x)
    (hc : collectSide useB x = .ok x') : SideLedger K C x' := by
  rcases collectSide_ok hc with fx | ⟨_, e⟩
  · have := h.ledger; have := h.col; have := h.allTime; have := h.burned; have := h.supply
    have := fx.pend; have := fx.sent; have := fx.allTime; have := fx.burned; have := fx.chg
    have := fx.brn; have := fx.tot
    have hcol : x'.col + x'.colB = x.col + x.colB + x.pend := by
      rw [fx.col, fx.colB]; cases useB <;> simp <;> omega
    exact ⟨by omega, by omega, by omega, by omega, by omega⟩
  · subst e; exact h

/-- the ledger invariant and the closed-world conservation are preserved by every successful
    operation of ANY pair type -/
theorem step_linv {cv : Curve} {K0 C0 K1 C1 : Nat} {s s' : St} {op : Op} (hL : LInv K0 C0 K1 C1 s)
    (h : step cv s op = .ok s') : LInv K0 C0 K1 C1 s' := by
  have swapCase : ∀ {u dir off rcv : Nat} {ms : Option Nat}, swap cv s u dir off ms rcv = .ok s' →
      LInv K0 C0 K1 C1 s' := by
    intro u dir off rcv ms h
    obtain ⟨_, _, _, _, _, hcase⟩ := swap_ok h
    have c0 := hL.cons.c0; have c1 := hL.cons.c1
    rcases hcase with ⟨_, a', c, fx, e0, e1, hA, hB⟩ | ⟨_, a', c, fx, e1, e0, hB, hA⟩
    · have hp := fx.paid; have hb := fx.bal; have ht := fx.tot; have hc := fx.col; have hcb := fx.colB
      refine ⟨?_, ?_, ⟨?_, ?_⟩⟩
      · rw [e0]; exact hL.l0.of_bal _
      · rw [e1]; exact hL.l1.of_swap fx (by omega)
      · rw [e0]; simp only []; omega
      · rw [e1]; omega
    · have hp := fx.paid; have hb := fx.bal; have ht := fx.tot; have hc := fx.col; have hcb := fx.colB
      refine ⟨?_, ?_, ⟨?_, ?_⟩⟩
      · rw [e0]; exact hL.l0.of_swap fx (by omega)
      · rw [e1]; exact hL.l1.of_bal _
      · rw [e0]; omega
      · rw [e1]; simp only []; omega
  cases op with
  | provide u rcv d0 d1 tol =>
    obtain ⟨share, lock, _, _, _, _, _, _, _, e0, e1, _, _, _, _, _, hA, hB, _⟩ := provide_ok h
    have c0 := hL.cons.c0; have c1 := hL.cons.c1
    refine ⟨?_, ?_, ⟨?_, ?_⟩⟩
    · rw [e0]; exact hL.l0.of_bal _
    · rw [e1]; exact hL.l1.of_bal _
    · rw [e0]; simp only []; omega
    · rw [e1]; simp only []; omega
  | swap u dir off ms rcv => exact swapCase h
  | swapBad u dir off sent => exact swapCase (swapBad_ok h)
  | withdraw u amt =>
    obtain ⟨r0, r1, _, _, _, hr0, hr1, e0, e1, _, _, _, _, _, hA, hB, _⟩ := withdraw_ok h
    have c0 := hL.cons.c0; have c1 := hL.cons.c1
    refine ⟨?_, ?_, ⟨?_, ?_⟩⟩
    · rw [e0]; exact hL.l0.of_bal _
    · rw [e1]; exact hL.l1.of_bal _
    · rw [e0]; simp only []; omega
    · rw [e1]; simp only []; omega
  | collect =>
    obtain ⟨y0, y1, h0, h1, e⟩ := collect_ok h
    subst e
    have c0 := hL.cons.c0; have c1 := hL.cons.c1
    refine ⟨hL.l0.of_collect h0, hL.l1.of_collect h1, ⟨?_, ?_⟩⟩
    · rcases collectSide_ok h0 with fx | ⟨_, e⟩
      · have h1 := fx.le; have h2 := fx.bal; have h3 := fx.tot
        have hcol : y0.col + y0.colB = s.x0.col + s.x0.colB + s.x0.pend := by
          rw [fx.col, fx.colB]; cases s.useB <;> simp <;> omega
        show y0.tot = y0.bal + y0.col + y0.colB + sumF (·.a) s.users
        rw [h3, h2, c0]; omega
      · subst e; exact c0
    · rcases collectSide_ok h1 with fx | ⟨_, e⟩
      · have h1 := fx.le; have h2 := fx.bal; have h3 := fx.tot
        have hcol : y1.col + y1.colB = s.x1.col + s.x1.colB + s.x1.pend := by
          rw [fx.col, fx.colB]; cases s.useB <;> simp <;> omega
        show y1.tot = y1.bal + y1.col + y1.colB + sumF (·.b) s.users
        rw [h3, h2, c1]; omega
      · subst e; exact c1
  | setFees o f =>
    obtain ⟨_, _, e⟩ := setFees_ok h
    subst e
    exact ⟨hL.l0, hL.l1, ⟨hL.cons.c0, hL.cons.c1⟩⟩
  | setCollector o b =>
    obtain ⟨_, e⟩ := setCollector_ok h
    subst e
    exact ⟨hL.l0, hL.l1, ⟨hL.cons.c0, hL.cons.c1⟩⟩
  | foreign k u a => cases h
  | provideBad u d0 d1 k => exact (provideBad_not_ok h).elim
  | donate u which amt =>
    obtain ⟨hu, hcase⟩ := donate_ok h
    have c0 := hL.cons.c0; have c1 := hL.cons.c1
    rcases hcase with ⟨_, ha, e⟩ | ⟨_, ha, e⟩ | ⟨_, ha, e⟩
    · subst e
      have hA := sumF_set (·.a) s.users u { s.user u with a := (s.user u).a - amt } dflt hu
      have hB := sumF_set (·.b) s.users u { s.user u with a := (s.user u).a - amt } dflt hu
      simp only [St.user, dflt] at hA hB ha
      refine ⟨hL.l0.of_bal _, hL.l1, ⟨?_, ?_⟩⟩
      · simp only [St.user, dflt]; omega
      · simp only [St.user, dflt]; omega
    · subst e
      have hA := sumF_set (·.a) s.users u { s.user u with b := (s.user u).b - amt } dflt hu
      have hB := sumF_set (·.b) s.users u { s.user u with b := (s.user u).b - amt } dflt hu
      simp only [St.user, dflt] at hA hB ha
      refine ⟨hL.l0, hL.l1.of_bal _, ⟨?_, ?_⟩⟩
      · simp only [St.user, dflt]; omega
      · simp only [St.user, dflt]; omega
    · subst e
      have hA := sumF_set (·.a) s.users u { s.user u with lp := (s.user u).lp - amt } dflt hu
      have hB := sumF_set (·.b) s.users u { s.user u with lp := (s.user u).lp - amt } dflt hu
      simp only [St.user, dflt] at hA hB ha
      refine ⟨hL.l0, hL.l1, ⟨?_, ?_⟩⟩
      · simp only [St.user, dflt]; omega
      · simp only [St.user, dflt]; omega

/-! ### constant-product pair: solvency / locked liquidity / LP value -/

/-- constant-product swap on the two sides: what the ask side loses is at most the gross output, which
    is at most `ask·offer/(offer_pool+offer)` -/
theorem cp_swap_bound {f : Fees} {dir : Bool} {o a a' : Side} {amt : Nat} {c : SwapComp}
    (fx : SwapFx cpCurve f dir o a a' amt c) :
    ∃ g, c.ret + c.protFee + c.burnFee ≤ g ∧
      g * ((o.bal - o.pend - amt) + amt) ≤ (a.bal - a.pend) * amt ∧ g ≤ a.bal - a.pend := by
  have hc : cpSwap (o.bal - o.pend - amt) (a.bal - a.pend) amt f = .ok c := fx.comp
  obtain ⟨h0, hsum⟩ := cpSwap_inv hc
  refine ⟨(a.bal - a.pend) * amt / (o.bal - o.pend - amt + amt), by omega, Nat.div_mul_le_self _ _, ?_⟩
  exact gross_le_ask (Nat.div_mul_le_self _ _) h0

theorem Side.res_bal (x : Side) (b : Nat) : ({ x with bal := b } : Side).res = b - x.pend := rfl

/-- **one step keeps the pool solvent and the LP bookkeeping exact, and never lets the pair's own LP
    tokens out** (constant-product pair) -/
theorem step_inv {s s' : St} {op : Op} (hI : Inv s) (h : step cpCurve s op = .ok s') :
    Inv s' ∧ s.lpPair ≤ s'.lpPair := by
  have swapCase : ∀ {u dir off rcv : Nat} {ms : Option Nat}, swap cpCurve s u dir off ms rcv = .ok s' →
      Inv s' ∧ s.lpPair ≤ s'.lpPair := by
    intro u dir off rcv ms h
    obtain ⟨e1, e2, _, _, eL, hcase⟩ := swap_ok h
    have hs := hI.lpSum; have hl := hI.locked
    rcases hcase with ⟨_, a', c, fx, x0, x1, _, _⟩ | ⟨_, a', c, fx, x1, x0, _, _⟩
    · obtain ⟨g, hg1, _, hg3⟩ := cp_swap_bound fx
      have := fx.offerOk; have := fx.askOk; have := fx.bal; have := fx.pend; have := fx.paid
      refine ⟨⟨?_, ?_, by omega, by omega⟩, by omega⟩
      · rw [x0]; simp only [] at *; omega
      · rw [x1]; omega
    · obtain ⟨g, hg1, _, hg3⟩ := cp_swap_bound fx
      have := fx.offerOk; have := fx.askOk; have := fx.bal; have := fx.pend; have := fx.paid
      refine ⟨⟨?_, ?_, by omega, by omega⟩, by omega⟩
      · rw [x0]; omega
      · rw [x1]; simp only [] at *; omega
  cases op with
  | provide u rcv d0 d1 tol =>
    obtain ⟨share, lock, l0, l1, es, _, _, _, _, e0, e1, eS, eP, _, _, _, _, _, eL⟩ := provide_ok h
    have hs := hI.lpSum; have hl := hI.locked
    have hlock : s.sup = 0 → Gen.MINIMUM_LIQUIDITY_AMOUNT ≤ lock := by
      intro h0
      rcases provideShares_ok es with ⟨_, hk, _, _⟩ | ⟨hn, _⟩
      · omega
      · exact absurd h0 hn
    refine ⟨⟨?_, ?_, by omega, ?_⟩, by omega⟩
    · rw [e0]; simp only []; omega
    · rw [e1]; simp only []; omega
    · right
      rcases hl with h0 | h0
      · have := hlock h0; omega
      · omega
  | swap u dir off ms rcv => exact swapCase h
  | swapBad u dir off sent => exact swapCase (swapBad_ok h)
  | withdraw u amt =>
    obtain ⟨r0, r1, er, hu, ha, hr0, hr1, e0, e1, eS, eP, _, _, _, _, _, eL⟩ := withdraw_ok h
    obtain ⟨hS, l0, l1, q0, q1⟩ := refunds_ok er
    have hs := hI.lpSum; have hl := hI.locked
    have hle := getD_le_sumF (·.lp) s.users u hu dflt
    simp only [St.user, dflt] at ha hle
    have hamt : amt ≤ s.sup := by omega
    -- each refund is at most the reported reserve
    have b0 : r0 ≤ s.x0.bal - s.x0.pend := by
      have := refund_le_pro_rata (p := s.x0.bal - s.x0.pend) (amt := amt) hS E18_pos
      rw [← q0] at this
      have hpos : 0 < s.sup := Nat.pos_of_ne_zero hS
      by_contra hc
      have hc := Nat.lt_of_not_le hc
      have : (s.x0.bal - s.x0.pend) * amt < r0 * s.sup := by nlinarith
      omega
    have b1 : r1 ≤ s.x1.bal - s.x1.pend := by
      have := refund_le_pro_rata (p := s.x1.bal - s.x1.pend) (amt := amt) hS E18_pos
      rw [← q1] at this
      have hpos : 0 < s.sup := Nat.pos_of_ne_zero hS
      by_contra hc
      have hc := Nat.lt_of_not_le hc
      have : (s.x1.bal - s.x1.pend) * amt < r1 * s.sup := by nlinarith
      omega
    refine ⟨⟨?_, ?_, by omega, ?_⟩, by omega⟩
    · rw [e0]; simp only []; omega
    · rw [e1]; simp only []; omega
    · right
      rcases hl with h0 | h0
      · exact absurd h0 hS
      · omega
  | collect =>
    obtain ⟨y0, y1, h0, h1, e⟩ := collect_ok h
    subst e
    refine ⟨⟨?_, ?_, hI.lpSum, hI.locked⟩, Nat.le_refl _⟩
    · rcases collectSide_ok h0 with fx | ⟨_, e⟩
      · show y0.pend ≤ y0.bal
        rw [fx.pend]; exact Nat.zero_le _
      · subst e; exact hI.solv0
    · rcases collectSide_ok h1 with fx | ⟨_, e⟩
      · show y1.pend ≤ y1.bal
        rw [fx.pend]; exact Nat.zero_le _
      · subst e; exact hI.solv1
  | setFees o f =>
    obtain ⟨_, _, e⟩ := setFees_ok h
    subst e
    exact ⟨⟨hI.solv0, hI.solv1, hI.lpSum, hI.locked⟩, Nat.le_refl _⟩
  | setCollector o b =>
    obtain ⟨_, e⟩ := setCollector_ok h
    subst e
    exact ⟨⟨hI.solv0, hI.solv1, hI.lpSum, hI.locked⟩, Nat.le_refl _⟩
  | foreign k u a => cases h
  | provideBad u d0 d1 k => exact (provideBad_not_ok h).elim
  | donate u which amt =>
    obtain ⟨hu, hcase⟩ := donate_ok h
    have hs := hI.lpSum; have hl := hI.locked
    have s0 := hI.solv0; have s1 := hI.solv1
    rcases hcase with ⟨_, ha, e⟩ | ⟨_, ha, e⟩ | ⟨_, ha, e⟩
    · subst e
      have hL := sumF_set (·.lp) s.users u { s.user u with a := (s.user u).a - amt } dflt hu
      simp only [St.user, dflt] at hL
      refine ⟨⟨by simp only []; omega, s1, ?_, hl⟩, Nat.le_refl _⟩
      simp only [St.user, dflt]; omega
    · subst e
      have hL := sumF_set (·.lp) s.users u { s.user u with b := (s.user u).b - amt } dflt hu
      simp only [St.user, dflt] at hL
      refine ⟨⟨s0, by simp only []; omega, ?_, hl⟩, Nat.le_refl _⟩
      simp only [St.user, dflt]; omega
    · subst e
      have hL := sumF_set (·.lp) s.users u { s.user u with lp := (s.user u).lp - amt } dflt hu
      simp only [St.user, dflt] at hL ha
      refine ⟨⟨s0, s1, ?_, ?_⟩, by simp only []; omega⟩
      · simp only [St.user, dflt]; omega
      · rcases hl with h0 | h0
        · left; exact h0
        · right; simp only []; omega

theorem ValueLe.refl (s : St) : ValueLe s s := Nat.le_refl _

theorem ValueLe.of_res {s s' : St} (h0 : s.x0.res ≤ s'.x0.res) (h1 : s.x1.res ≤ s'.x1.res)
    (hs : s'.sup = s.sup) : ValueLe s s' := by
  unfold ValueLe
  rw [hs]
  exact Nat.mul_le_mul_right _ (Nat.mul_le_mul h0 h1)

/-- **the value backing one LP token never falls** across a successful operation of the
    constant-product pair (`√(r0·r1)/S`, cross-multiplied and squared; `S ≠ 0` before the operation) -/
theorem step_value {s s' : St} {op : Op} (h : step cpCurve s op = .ok s') (hS : s.sup ≠ 0) :
    ValueLe s s' := by
  have swapCase : ∀ {u dir off rcv : Nat} {ms : Option Nat}, swap cpCurve s u dir off ms rcv = .ok s' →
      ValueLe s s' := by
    intro u dir off rcv ms h
    obtain ⟨e1, _, _, _, _, hcase⟩ := swap_ok h
    unfold ValueLe
    rw [e1]
    apply Nat.mul_le_mul_right
    rcases hcase with ⟨_, a', c, fx, x0, x1, _, _⟩ | ⟨_, a', c, fx, x1, x0, _, _⟩
    · obtain ⟨g, hg1, hg2, hg3⟩ := cp_swap_bound fx
      have hk := swap_k (t := c.ret + c.protFee + c.burnFee) hg2 hg1
      have := fx.offerOk; have := fx.askOk; have := fx.bal; have := fx.pend; have := fx.paid
      have r0 : s'.x0.res = (s.x0.bal - s.x0.pend) + off := by
        rw [x0]; simp only [Side.res] at *; omega
      have r1 : s'.x1.res = (s.x1.bal - s.x1.pend) - (c.ret + c.protFee + c.burnFee) := by
        rw [x1]; simp only [Side.res]; omega
      have e : s.x0.bal + off - s.x0.pend - off = s.x0.bal - s.x0.pend := by omega
      simp only [e] at hk
      rw [r0, r1]
      exact hk
    · obtain ⟨g, hg1, hg2, hg3⟩ := cp_swap_bound fx
      have hk := swap_k (t := c.ret + c.protFee + c.burnFee) hg2 hg1
      have := fx.offerOk; have := fx.askOk; have := fx.bal; have := fx.pend; have := fx.paid
      have r1 : s'.x1.res = (s.x1.bal - s.x1.pend) + off := by
        rw [x1]; simp only [Side.res] at *; omega
      have r0 : s'.x0.res = (s.x0.bal - s.x0.pend) - (c.ret + c.protFee + c.burnFee) := by
        rw [x0]; simp only [Side.res]; omega
      have e : s.x1.bal + off - s.x1.pend - off = s.x1.bal - s.x1.pend := by omega
      simp only [e] at hk
      rw [r0, r1, Nat.mul_comm (s.x0.bal - s.x0.pend - _) _]
      show (s.x0.bal - s.x0.pend) * (s.x1.bal - s.x1.pend) ≤ _
      rw [Nat.mul_comm (s.x0.bal - s.x0.pend) _]
      exact hk
  cases op with
  | provide u rcv d0 d1 tol =>
    obtain ⟨share, lock, l0, l1, es, _, _, _, _, e0, e1, eS, _⟩ := provide_ok h
    rcases provideShares_ok es with ⟨h0, _⟩ | ⟨_, hk, n0, n1, hsh⟩
    · exact absurd h0 hS
    · subst hk
      have m0 : share * (s.x0.bal - s.x0.pend) ≤ d0 * s.sup := by
        have : share ≤ d0 * s.sup / (s.x0.bal - s.x0.pend) := by rw [hsh]; exact Nat.min_le_left _ _
        calc share * (s.x0.bal - s.x0.pend) ≤ d0 * s.sup / (s.x0.bal - s.x0.pend) * (s.x0.bal - s.x0.pend) :=
              Nat.mul_le_mul_right _ this
          _ ≤ d0 * s.sup := Nat.div_mul_le_self _ _
      have m1 : share * (s.x1.bal - s.x1.pend) ≤ d1 * s.sup := by
        have : share ≤ d1 * s.sup / (s.x1.bal - s.x1.pend) := by rw [hsh]; exact Nat.min_le_right _ _
        calc share * (s.x1.bal - s.x1.pend) ≤ d1 * s.sup / (s.x1.bal - s.x1.pend) * (s.x1.bal - s.x1.pend) :=
              Nat.mul_le_mul_right _ this
          _ ≤ d1 * s.sup := Nat.div_mul_le_self _ _
      unfold ValueLe
      have r0 : s'.x0.res = (s.x0.bal - s.x0.pend) + d0 := by rw [e0]; simp only [Side.res]; omega
      have r1 : s'.x1.res = (s.x1.bal - s.x1.pend) + d1 := by rw [e1]; simp only [Side.res]; omega
      rw [r0, r1, eS]
      simp only [Side.res, Nat.add_zero]
      exact value_of_sides (deposit_side m0) (deposit_side m1)
  | swap u dir off ms rcv => exact swapCase h
  | swapBad u dir off sent => exact swapCase (swapBad_ok h)
  | withdraw u amt =>
    obtain ⟨r0, r1, er, _, _, hr0, hr1, e0, e1, eS, _⟩ := withdraw_ok h
    obtain ⟨_, l0, l1, q0, q1⟩ := refunds_ok er
    unfold ValueLe
    rcases Nat.lt_or_ge amt s.sup with hlt | hge
    · have p0 := refund_le_pro_rata (p := s.x0.bal - s.x0.pend) (amt := amt) hS E18_pos
      have p1 := refund_le_pro_rata (p := s.x1.bal - s.x1.pend) (amt := amt) hS E18_pos
      rw [← q0] at p0
      rw [← q1] at p1
      have w0 := withdraw_side p0 (Nat.le_of_lt hlt)
      have w1 := withdraw_side p1 (Nat.le_of_lt hlt)
      have hpos : 0 < s.sup := Nat.pos_of_ne_zero hS
      have b0 : r0 ≤ s.x0.bal - s.x0.pend := by
        by_contra hc
        have hc := Nat.lt_of_not_le hc
        have : (s.x0.bal - s.x0.pend) * amt < r0 * s.sup := by nlinarith
        omega
      have b1 : r1 ≤ s.x1.bal - s.x1.pend := by
        by_contra hc
        have hc := Nat.lt_of_not_le hc
        have : (s.x1.bal - s.x1.pend) * amt < r1 * s.sup := by nlinarith
        omega
      have f0 : s'.x0.res = (s.x0.bal - s.x0.pend) - r0 := by rw [e0]; simp only [Side.res]; omega
      have f1 : s'.x1.res = (s.x1.bal - s.x1.pend) - r1 := by rw [e1]; simp only [Side.res]; omega
      rw [f0, f1, eS]
      exact value_of_sides w0 w1
    · have : s'.sup = 0 := by omega
      rw [this]
      simp
  | collect =>
    obtain ⟨y0, y1, h0, h1, e⟩ := collect_ok h
    subst e
    refine ValueLe.of_res (s := s) (s' := { s with x0 := y0, x1 := y1 }) ?_ ?_ rfl
    · rcases collectSide_ok h0 with fx | ⟨_, e⟩
      · have := fx.le; have := fx.bal; have := fx.pend
        show s.x0.res ≤ y0.res
        simp only [Side.res]; omega
      · subst e; exact Nat.le_refl _
    · rcases collectSide_ok h1 with fx | ⟨_, e⟩
      · have := fx.le; have := fx.bal; have := fx.pend
        show s.x1.res ≤ y1.res
        simp only [Side.res]; omega
      · subst e; exact Nat.le_refl _
  | setFees o f =>
    obtain ⟨_, _, e⟩ := setFees_ok h
    subst e
    exact ValueLe.refl _
  | setCollector o b =>
    obtain ⟨_, e⟩ := setCollector_ok h
    subst e
    exact ValueLe.refl _
  | foreign k u a => cases h
  | provideBad u d0 d1 k => exact (provideBad_not_ok h).elim
  | donate u which amt =>
    obtain ⟨_, hcase⟩ := donate_ok h
    rcases hcase with ⟨_, _, e⟩ | ⟨_, _, e⟩ | ⟨_, _, e⟩ <;> subst e
    · exact ValueLe.of_res (by simp only [Side.res]; omega) (Nat.le_refl _) rfl
    · exact ValueLe.of_res (Nat.le_refl _) (by simp only [Side.res]; omega) rfl
    · exact ValueLe.of_res (Nat.le_refl _) (Nat.le_refl _) rfl

/-! ### histories -/

theorem reach_inv (s : St) (hI : Inv s) (ops : List Op) :
    Inv (reach cpCurve s ops) ∧ s.lpPair ≤ (reach cpCurve s ops).lpPair := by
  induction ops generalizing s with
  | nil => exact ⟨hI, Nat.le_refl _⟩
  | cons op ops ih =>
    simp only [reach]
    cases h : step cpCurve s op with
    | ok s1 =>
      obtain ⟨hI1, hl1⟩ := step_inv hI h
      obtain ⟨hI2, hl2⟩ := ih s1 hI1
      exact ⟨hI2, Nat.le_trans hl1 hl2⟩
    | err => exact ih s hI
    | panic => exact ih s hI

/-- supply stays positive once it is (the pair's own locked tokens are part of it) -/
theorem Inv.sup_pos {s : St} (hI : Inv s) (h : s.sup ≠ 0) : Gen.MINIMUM_LIQUIDITY_AMOUNT ≤ s.sup := by
  have := hI.lpSum
  rcases hI.locked with h0 | h0
  · exact absurd h0 h
  · omega

theorem step_sup_ne_zero {s s' : St} {op : Op} (hI : Inv s) (h : step cpCurve s op = .ok s')
    (hS : s.sup ≠ 0) : s'.sup ≠ 0 := by
  obtain ⟨hI', hl⟩ := step_inv hI h
  have h1 := hI.sup_pos hS
  have := hI'.lpSum
  have := hI.lpSum
  rcases hI.locked with h0 | h0
  · exact absurd h0 hS
  · have : 0 < Gen.MINIMUM_LIQUIDITY_AMOUNT := by decide
    omega

theorem reach_value (s : St) (hI : Inv s) (hS : s.sup ≠ 0) (ops : List Op) :
    ValueLe s (reach cpCurve s ops) := by
  induction ops generalizing s with
  | nil => exact ValueLe.refl s
  | cons op ops ih =>
    simp only [reach]
    cases h : step cpCurve s op with
    | ok s1 =>
      have hI1 := (step_inv hI h).1
      have hS1 := step_sup_ne_zero hI h hS
      have v1 := step_value h hS
      have v2 := ih s1 hI1 hS1
      unfold ValueLe at *
      exact value_trans v1 v2 (Nat.pos_of_ne_zero hS1)
    | err => exact ih s hI hS
    | panic => exact ih s hI hS

theorem reach_linv {cv : Curve} {K0 C0 K1 C1 : Nat} (s : St) (hL : LInv K0 C0 K1 C1 s) (ops : List Op) :
    LInv K0 C0 K1 C1 (reach cv s ops) := by
  induction ops generalizing s with
  | nil => exact hL
  | cons op ops ih =>
    simp only [reach]
    cases h : step cv s op with
    | ok s1 => exact ih s1 (step_linv hL h)
    | err => exact ih s hL
    | panic => exact ih s hL

theorem init_inv (n0 n1 : Bool) (f : Fees) (us : List User) (h : ∀ u ∈ us, u.lp = 0) :
    Inv (init n0 n1 f us) := by
  refine ⟨Nat.le_refl _, Nat.le_refl _, ?_, Or.inl rfl⟩
  show 0 = 0 + sumF (·.lp) us
  induction us with
  | nil => rfl
  | cons u us ih =>
    have h1 := h u (List.mem_cons_self)
    have h2 := ih (fun v hv => h v (List.mem_cons_of_mem _ hv))
    simp only [sumF, List.map_cons, List.sum_cons] at h2 ⊢
    omega

theorem init_linv (n0 n1 : Bool) (f : Fees) (us : List User) :
    LInv (sumF (·.a) us) 0 (sumF (·.b) us) 0 (init n0 n1 f us) := by
  refine ⟨⟨rfl, rfl, rfl, rfl, rfl⟩, ⟨rfl, rfl, rfl, rfl, rfl⟩, ⟨?_, ?_⟩⟩
  · show sumF (·.a) us = 0 + 0 + sumF (·.a) us
    omega
  · show sumF (·.b) us = 0 + 0 + sumF (·.b) us
    omega

/-! ### deposit then withdraw -/

theorem dw_first {r d amt T : Nat} (h : r * T ≤ d * amt) (ha : amt ≤ T) (hT : 0 < T) : r ≤ d := by
  apply Nat.le_of_mul_le_mul_right _ hT
  exact Nat.le_trans h (Nat.mul_le_mul_left _ ha)

theorem dw_later {r P d S sh amt : Nat} (h : r * (S + sh) ≤ (P + d) * amt) (ha : amt ≤ sh)
    (hm : sh * P ≤ d * S) (hpos : 0 < S + sh) : r ≤ d := by
  apply Nat.le_of_mul_le_mul_right _ hpos
  calc r * (S + sh) ≤ (P + d) * amt := h
    _ ≤ (P + d) * sh := Nat.mul_le_mul_left _ ha
    _ = sh * P + d * sh := by ring
    _ ≤ d * S + d * sh := Nat.add_le_add_right hm _
    _ = d * (S + sh) := by ring

/-- user `u` after `provide … rcv = u` holds its old balances minus the deposits and `share` more LP -/
theorem provide_self_user {l : List User} {u d0 d1 share : Nat} (hu : u < l.length) :
    ((l.set u { l.getD u dflt with a := (l.getD u dflt).a - d0, b := (l.getD u dflt).b - d1 }).set u
      { ((l.set u { l.getD u dflt with a := (l.getD u dflt).a - d0, b := (l.getD u dflt).b - d1 }).getD u dflt) with
        lp := ((l.set u { l.getD u dflt with a := (l.getD u dflt).a - d0, b := (l.getD u dflt).b - d1 }).getD u dflt).lp + share }).getD u dflt
      = { a := (l.getD u dflt).a - d0, b := (l.getD u dflt).b - d1, lp := (l.getD u dflt).lp + share } := by
  rw [getD_set_self _ _ _ _ (by simpa using hu), getD_set_self _ _ _ _ hu]

/-- **depositing and immediately withdrawing (any part of) the minted shares never pays out more than
    was deposited**, provided an empty pool holds nothing (a plain transfer into a pool without
    supply is a gift to the first depositor) -/
theorem deposit_then_withdraw_le {s s1 s2 : St} {u d0 d1 amt : Nat} {tol : Option Nat}
    (hp : provide cpCurve s u u d0 d1 tol = .ok s1)
    (hamt : amt + (s.user u).lp ≤ (s1.user u).lp)
    (hw : withdraw s1 u amt = .ok s2)
    (hempty : s.sup = 0 → s.x0.bal = s.x0.pend ∧ s.x1.bal = s.x1.pend) :
    (s2.user u).a ≤ (s.user u).a ∧ (s2.user u).b ≤ (s.user u).b := by
  obtain ⟨share, lock, l0, l1, es, hu, _, hd0, hd1, e0, e1, eS, _, _, eU, eLen, _⟩ := provide_ok hp
  obtain ⟨r0, r1, er, hu1, _, _, _, _, _, _, _, _, eU2, _⟩ := withdraw_ok hw
  obtain ⟨hS1, _, _, q0, q1⟩ := refunds_ok er
  -- the user's record after the deposit
  have hu1' : (s1.user u) = { a := (s.user u).a - d0, b := (s.user u).b - d1, lp := (s.user u).lp + share } := by
    simp only [St.user, eU]
    exact provide_self_user hu
  have hshare : amt ≤ share := by rw [hu1'] at hamt; simp only [] at hamt; omega
  -- the user's record after the withdrawal
  have hu2 : (s2.user u) = { a := (s1.user u).a + r0, b := (s1.user u).b + r1, lp := (s1.user u).lp - amt } := by
    simp only [St.user, eU2]
    exact getD_set_self _ _ _ _ hu1
  rw [hu2, hu1']
  simp only []
  -- the refunds are at most the deposits
  have p0 := refund_le_pro_rata (p := s1.x0.bal - s1.x0.pend) (amt := amt) hS1 E18_pos
  have p1 := refund_le_pro_rata (p := s1.x1.bal - s1.x1.pend) (amt := amt) hS1 E18_pos
  rw [← q0] at p0
  rw [← q1] at p1
  rw [e0] at p0
  rw [e1] at p1
  simp only [] at p0 p1
  rw [eS] at p0 p1
  have hpos : 0 < s.sup + lock + share := by rw [← eS]; exact Nat.pos_of_ne_zero hS1
  have key : r0 ≤ d0 ∧ r1 ≤ d1 := by
    rcases provideShares_ok es with ⟨h0, hk, _, hsq⟩ | ⟨_, hk, n0, n1, hsh⟩
    · obtain ⟨b0, b1⟩ := hempty h0
      have z0 : s.x0.bal + d0 - s.x0.pend = d0 := by omega
      have z1 : s.x1.bal + d1 - s.x1.pend = d1 := by omega
      rw [z0] at p0
      rw [z1] at p1
      have hT : amt ≤ s.sup + lock + share := by omega
      exact ⟨dw_first p0 hT hpos, dw_first p1 hT hpos⟩
    · subst hk
      have m0 : share * (s.x0.bal - s.x0.pend) ≤ d0 * s.sup := by
        have : share ≤ d0 * s.sup / (s.x0.bal - s.x0.pend) := by rw [hsh]; exact Nat.min_le_left _ _
        calc share * (s.x0.bal - s.x0.pend) ≤ d0 * s.sup / (s.x0.bal - s.x0.pend) * (s.x0.bal - s.x0.pend) :=
              Nat.mul_le_mul_right _ this
          _ ≤ d0 * s.sup := Nat.div_mul_le_self _ _
      have m1 : share * (s.x1.bal - s.x1.pend) ≤ d1 * s.sup := by
        have : share ≤ d1 * s.sup / (s.x1.bal - s.x1.pend) := by rw [hsh]; exact Nat.min_le_right _ _
        calc share * (s.x1.bal - s.x1.pend) ≤ d1 * s.sup / (s.x1.bal - s.x1.pend) * (s.x1.bal - s.x1.pend) :=
              Nat.mul_le_mul_right _ this
          _ ≤ d1 * s.sup := Nat.div_mul_le_self _ _
      have z0 : s.x0.bal + d0 - s.x0.pend = (s.x0.bal - s.x0.pend) + d0 := by omega
      have z1 : s.x1.bal + d1 - s.x1.pend = (s.x1.bal - s.x1.pend) + d1 := by omega
      rw [z0] at p0
      rw [z1] at p1
      simp only [Nat.add_zero] at p0 p1 hpos
      exact ⟨dw_later p0 hshare m0 hpos, dw_later p1 hshare m1 hpos⟩
  simp only [St.user, dflt] at hd0 hd1 ⊢
  omega

/-! ### fee ledgers (any pair type) -/

def collectable (x : Side) : Bool := decide (Gen.PAIR_MINIMUM_COLLECTABLE_BALANCE < x.pend)

/-- one side of a collection: exactly the pending entry moves (iff above the threshold), to the
    CONFIGURED collector (the other collector account gets nothing); the reported reserve, the
    counters and the circulating amount are untouched -/
theorem collectSide_exact {useB : Bool} {x x' : Side} (h : collectSide useB x = .ok x') :
    x'.col = x.col + (if collectable x && !useB then x.pend else 0) ∧
    x'.colB = x.colB + (if collectable x && useB then x.pend else 0) ∧
    x'.pend = (if collectable x then 0 else x.pend) ∧
    x.bal - x'.bal = (if collectable x then x.pend else 0) ∧ x'.bal ≤ x.bal ∧
    x'.res = x.res ∧ x'.allTime = x.allTime ∧ x'.burned = x.burned ∧ x'.chg = x.chg ∧ x'.brn = x.brn ∧
    x'.tot = x.tot ∧ x'.sent = x.sent + (if collectable x then x.pend else 0) := by
  rcases collectSide_ok h with fx | ⟨hc, e⟩
  · have hcl : collectable x = true := by simp [collectable, fx.above]
    have := fx.le; have := fx.bal; have := fx.pend
    simp only [hcl, if_true, Bool.true_and, Side.res]
    refine ⟨?_, ?_, fx.pend, by omega, by omega, by omega, fx.allTime, fx.burned, fx.chg, fx.brn, fx.tot, fx.sent⟩
    · rw [fx.col]; cases useB <;> simp
    · rw [fx.colB]; cases useB <;> simp
  · have : collectable x = false := by simp [collectable]; omega
    subst e
    simp [this]

/-- what one successful operation does to the ledgers of one side -/
structure SideDelta (x x' : Side) (pf bf sent : Nat) : Prop where
  chg : x'.chg = x.chg + pf
  allTime : x'.allTime = x.allTime + pf
  brn : x'.brn = x.brn + bf
  burned : x'.burned = x.burned + bf
  snt : x'.sent = x.sent + sent
  col : x'.col + x'.colB = x.col + x.colB + sent
  pend : x'.pend + sent = x.pend + pf

theorem SideDelta.zero_of_bal (x : Side) (b : Nat) : SideDelta x { x with bal := b } 0 0 0 :=
  ⟨rfl, rfl, rfl, rfl, rfl, rfl, rfl⟩

theorem SideDelta.same (x : Side) : SideDelta x x 0 0 0 := ⟨rfl, rfl, rfl, rfl, rfl, rfl, rfl⟩

/-- **only swaps charge fees, only collections pay the collector**: every successful operation of any
    pair type changes the ledgers of each side by `(pf, bf, sent)` where `pf`, `bf` are non-zero only
    for a swap (then they are the computation's protocol / burn fee on the ASK side) and `sent` is
    non-zero only for a collection -/
theorem step_deltas {cv : Curve} {s s' : St} {op : Op} (h : step cv s op = .ok s') :
    ∃ pf0 bf0 st0 pf1 bf1 st1, SideDelta s.x0 s'.x0 pf0 bf0 st0 ∧ SideDelta s.x1 s'.x1 pf1 bf1 st1 ∧
      ((pf0 ≠ 0 ∨ bf0 ≠ 0 ∨ pf1 ≠ 0 ∨ bf1 ≠ 0) →
        (∃ u dir off ms rcv, op = .swap u dir off ms rcv) ∨ (∃ u dir off sent, op = .swapBad u dir off sent)) ∧
      ((st0 ≠ 0 ∨ st1 ≠ 0) → op = .collect) := by
  have swapCase : ∀ {u dir off rcv : Nat} {ms : Option Nat}, swap cv s u dir off ms rcv = .ok s' →
      ∃ pf0 bf0 pf1 bf1, SideDelta s.x0 s'.x0 pf0 bf0 0 ∧ SideDelta s.x1 s'.x1 pf1 bf1 0 := by
    intro u dir off rcv ms h
    obtain ⟨_, _, _, _, _, hcase⟩ := swap_ok h
    rcases hcase with ⟨_, a', c, fx, x0, x1, _, _⟩ | ⟨_, a', c, fx, x1, x0, _, _⟩
    · refine ⟨0, 0, c.protFee, c.burnFee, ?_, ?_⟩
      · rw [x0]; exact SideDelta.zero_of_bal _ _
      · rw [x1]; exact ⟨fx.chg, fx.allTime, fx.brn, fx.burned, fx.sent, by rw [fx.col, fx.colB]; rfl, fx.pend⟩
    · refine ⟨c.protFee, c.burnFee, 0, 0, ?_, ?_⟩
      · rw [x0]; exact ⟨fx.chg, fx.allTime, fx.brn, fx.burned, fx.sent, by rw [fx.col, fx.colB]; rfl, fx.pend⟩
      · rw [x1]; exact SideDelta.zero_of_bal _ _
  cases op with
  | provide u rcv d0 d1 tol =>
    obtain ⟨_, _, _, _, _, _, _, _, _, e0, e1, _⟩ := provide_ok h
    refine ⟨0, 0, 0, 0, 0, 0, ?_, ?_, by simp, by simp⟩
    · rw [e0]; exact SideDelta.zero_of_bal _ _
    · rw [e1]; exact SideDelta.zero_of_bal _ _
  | swap u dir off ms rcv =>
    obtain ⟨pf0, bf0, pf1, bf1, d0, d1⟩ := swapCase h
    exact ⟨pf0, bf0, 0, pf1, bf1, 0, d0, d1, fun _ => Or.inl ⟨u, dir, off, ms, rcv, rfl⟩, by simp⟩
  | swapBad u dir off sent =>
    obtain ⟨pf0, bf0, pf1, bf1, d0, d1⟩ := swapCase (swapBad_ok h)
    exact ⟨pf0, bf0, 0, pf1, bf1, 0, d0, d1, fun _ => Or.inr ⟨u, dir, off, sent, rfl⟩, by simp⟩
  | withdraw u amt =>
    obtain ⟨_, _, _, _, _, _, _, e0, e1, _⟩ := withdraw_ok h
    refine ⟨0, 0, 0, 0, 0, 0, ?_, ?_, by simp, by simp⟩
    · rw [e0]; exact SideDelta.zero_of_bal _ _
    · rw [e1]; exact SideDelta.zero_of_bal _ _
  | collect =>
    obtain ⟨y0, y1, h0, h1, e⟩ := collect_ok h
    subst e
    obtain ⟨c0, cb0, p0, _, _, _, a0, b0, g0, n0, _, t0⟩ := collectSide_exact h0
    obtain ⟨c1, cb1, p1, _, _, _, a1, b1, g1, n1, _, t1⟩ := collectSide_exact h1
    refine ⟨0, 0, if collectable s.x0 then s.x0.pend else 0, 0, 0, if collectable s.x1 then s.x1.pend else 0,
      ⟨g0, a0, n0, b0, t0, ?_, ?_⟩, ⟨g1, a1, n1, b1, t1, ?_, ?_⟩, by simp, fun _ => rfl⟩
    · show y0.col + y0.colB = _
      rw [c0, cb0]; cases collectable s.x0 <;> cases s.useB <;> simp <;> omega
    · show y0.pend + _ = _
      rw [p0]; split <;> omega
    · show y1.col + y1.colB = _
      rw [c1, cb1]; cases collectable s.x1 <;> cases s.useB <;> simp <;> omega
    · show y1.pend + _ = _
      rw [p1]; split <;> omega
  | setFees o f =>
    obtain ⟨_, _, e⟩ := setFees_ok h
    subst e
    exact ⟨0, 0, 0, 0, 0, 0, SideDelta.same _, SideDelta.same _, by simp, by simp⟩
  | setCollector o b =>
    obtain ⟨_, e⟩ := setCollector_ok h
    subst e
    exact ⟨0, 0, 0, 0, 0, 0, SideDelta.same _, SideDelta.same _, by simp, by simp⟩
  | foreign k u a => cases h
  | provideBad u d0 d1 k => exact (provideBad_not_ok h).elim
  | donate u which amt =>
    obtain ⟨_, hcase⟩ := donate_ok h
    rcases hcase with ⟨_, _, e⟩ | ⟨_, _, e⟩ | ⟨_, _, e⟩ <;> subst e
    · exact ⟨0, 0, 0, 0, 0, 0, SideDelta.zero_of_bal _ _, SideDelta.same _, by simp, by simp⟩
    · exact ⟨0, 0, 0, 0, 0, 0, SideDelta.same _, SideDelta.zero_of_bal _ _, by simp, by simp⟩
    · exact ⟨0, 0, 0, 0, 0, 0, SideDelta.same _, SideDelta.same _, by simp, by simp⟩

/-! ### nobody else's funds move -/

/-- the user index whose funds an operation may take (the sender of the message) -/
def Op.actor : Op → Option Nat
  | .provide u _ _ _ _ => some u
  | .swap u _ _ _ _ => some u
  | .withdraw u _ => some u
  | .donate u _ _ => some u
  | .swapBad u _ _ _ => some u
  | .foreign _ u _ => some u
  | .provideBad u _ _ _ => some u
  | .collect => none
  | .setFees _ _ => none
  | .setCollector _ _ => none

def User.le (x y : User) : Prop := x.a ≤ y.a ∧ x.b ≤ y.b ∧ x.lp ≤ y.lp

theorem User.le_refl (x : User) : User.le x x := ⟨Nat.le_refl _, Nat.le_refl _, Nat.le_refl _⟩

theorem getD_set_ne (l : List User) (u v : Nat) (x d : User) (h : v ≠ u) :
    (l.set u x).getD v d = l.getD v d := by
  simp [List.getD, List.getElem?_set_ne (Ne.symm h)]

/-- after `set u x` then `set r y` where `y` only adds to what was there, every user other than `u`
    holds at least what it held -/
theorem others_le_set2 (l : List User) (u r v : Nat) (x y : User) (hv : v ≠ u)
    (hy : User.le ((l.set u x).getD r dflt) y) :
    User.le (l.getD v dflt) (((l.set u x).set r y).getD v dflt) := by
  by_cases hr : v = r
  · subst hr
    by_cases hlen : v < (l.set u x).length
    · rw [getD_set_self _ _ _ _ hlen]
      rw [getD_set_ne l u v x dflt hv] at hy
      exact hy
    · have hlen' : ¬ v < l.length := by simpa using hlen
      have e1 : l.getD v dflt = dflt := by simp [List.getD, hlen']
      rw [e1]
      exact ⟨Nat.zero_le _, Nat.zero_le _, Nat.zero_le _⟩
  · rw [getD_set_ne _ r v y dflt hr, getD_set_ne l u v x dflt hv]
    exact User.le_refl _

/-- **nobody else's funds move**: a successful operation of ANY pair type never lowers the asset or LP
    balances of a user other than the sender of the message (receivers only gain) -/
theorem others_never_lose {cv : Curve} {s s' : St} {op : Op} (h : step cv s op = .ok s') (v : Nat)
    (hv : op.actor ≠ some v) : User.le (s.user v) (s'.user v) := by
  have swapCase : ∀ {u dir off rcv : Nat} {ms : Option Nat}, swap cv s u dir off ms rcv = .ok s' → v ≠ u →
      User.le (s.user v) (s'.user v) := by
    intro u dir off rcv ms h hvu
    unfold swap at h
    obtain ⟨_, g1, h⟩ := Res.bind_eq_ok h
    split at h
    · obtain ⟨_, _, h⟩ := Res.bind_eq_ok h
      obtain ⟨_, _, h⟩ := Res.bind_eq_ok h
      obtain ⟨⟨a', c⟩, _, h⟩ := Res.bind_eq_ok h
      injection h with h
      subst h
      simp only [St.user, St.setUser]
      apply others_le_set2 _ _ _ _ _ _ hvu
      exact ⟨Nat.le_refl _, Nat.le_add_right _ _, Nat.le_refl _⟩
    · obtain ⟨_, _, h⟩ := Res.bind_eq_ok h
      obtain ⟨_, _, h⟩ := Res.bind_eq_ok h
      obtain ⟨⟨a', c⟩, _, h⟩ := Res.bind_eq_ok h
      injection h with h
      subst h
      simp only [St.user, St.setUser]
      apply others_le_set2 _ _ _ _ _ _ hvu
      exact ⟨Nat.le_add_right _ _, Nat.le_refl _, Nat.le_refl _⟩
  cases op with
  | provide u rcv d0 d1 tol =>
    have hvu : v ≠ u := fun e => hv (by simp [Op.actor, e])
    obtain ⟨share, lock, _, _, _, _, _, _, _, _, _, _, _, _, eU, _⟩ := provide_ok h
    simp only [St.user, eU]
    apply others_le_set2 _ _ _ _ _ _ hvu
    exact ⟨Nat.le_refl _, Nat.le_refl _, Nat.le_add_right _ _⟩
  | swap u dir off ms rcv =>
    exact swapCase h (fun e => hv (by simp [Op.actor, e]))
  | swapBad u dir off sent =>
    exact swapCase (swapBad_ok h) (fun e => hv (by simp [Op.actor, e]))
  | withdraw u amt =>
    have hvu : v ≠ u := fun e => hv (by simp [Op.actor, e])
    obtain ⟨r0, r1, _, _, _, _, _, _, _, _, _, _, eU, _⟩ := withdraw_ok h
    simp only [St.user, eU]
    rw [getD_set_ne _ u v _ _ hvu]
    exact User.le_refl _
  | collect =>
    obtain ⟨y0, y1, _, _, e⟩ := collect_ok h
    subst e
    exact User.le_refl _
  | setFees o f =>
    obtain ⟨_, _, e⟩ := setFees_ok h
    subst e
    exact User.le_refl _
  | setCollector o b =>
    obtain ⟨_, e⟩ := setCollector_ok h
    subst e
    exact User.le_refl _
  | foreign k u a => cases h
  | provideBad u d0 d1 k => exact (provideBad_not_ok h).elim
  | donate u which amt =>
    have hvu : v ≠ u := fun e => hv (by simp [Op.actor, e])
    obtain ⟨_, hcase⟩ := donate_ok h
    rcases hcase with ⟨_, _, e⟩ | ⟨_, _, e⟩ | ⟨_, _, e⟩ <;> subst e <;>
      (simp only [St.user]; rw [getD_set_ne _ u v _ _ hvu]; exact User.le_refl _)

end WW.Pair
