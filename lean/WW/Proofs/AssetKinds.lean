/-
  Assets named in the wrong KIND (helpers for WW/Props/C11.lean, C12.lean).
  Asset ids 5 … 9 of the incentive model are the five asset NAMES in the other kind: the native denom that
  spells a cw20 token's address (an ordinary, distinct native asset) and the cw20 `Token` that spells a
  native denom (no contract behind it: `Cfg.dead`). Facts proved here: the look-alike has the other kind;
  a message to a token that does not exist fails; `open_flow` / `expand_flow` naming such a token are
  refused; `expand_flow` is refused unless it names exactly the flow's own asset id (kind and name).
-/
import WW.Proofs.FlowExact
namespace WW.Inc
open WW WW.Gen

theorem native_lookalike (c : Cfg) {a : Nat} (h : a < 5) : c.native (a + 5) = !c.native a := by
  have h5 : a = 0 ∨ a = 1 ∨ a = 2 ∨ a = 3 ∨ a = 4 := by omega
  rcases h5 with h | h | h | h | h <;> subst h <;> simp [Cfg.native]

theorem dead_not_native {c : Cfg} {a : Nat} (h : c.dead a = true) : c.native a = false := by
  unfold Cfg.dead at h
  cases hn : c.native a with
  | false => rfl
  | true => rw [hn] at h; cases h

theorem base_not_dead (c : Cfg) {a : Nat} (h : a < 5) : c.dead a = false := by
  unfold Cfg.dead
  have : decide (5 ≤ a) = false := by simp; omega
  rw [this, Bool.and_false]

/-- the look-alike of a native asset is a token that does not exist; the look-alike of a cw20 token is a
    live native denom -/
theorem dead_lookalike (c : Cfg) {a : Nat} (h : a < 5) : c.dead (a + 5) = c.native a := by
  unfold Cfg.dead
  rw [native_lookalike c h]
  have : decide (5 ≤ a + 5) = true := by simp
  rw [this, Bool.and_true, Bool.not_not]

/-- what is left of a message list after a prefix was applied successfully -/
theorem applyMsgs_append_ok {c : Cfg} : ∀ (m0 m1 : List Msg) (b b' : Bal) (al : List (Nat × Nat)),
    applyMsgs c b al (m0 ++ m1) = .ok b' → ∃ b1 al1, applyMsgs c b1 al1 m1 = .ok b' := by
  intro m0
  induction m0 with
  | nil => intro m1 b b' al h; exact ⟨b, al, h⟩
  | cons m t ih =>
    intro m1 b b' al h
    rw [List.cons_append] at h
    unfold applyMsgs at h
    split at h
    · exact ih m1 _ b' _ h
    · cases h
    · cases h

/-- a `TransferFrom` sent to a token that does not exist fails -/
theorem pull_dead_fails {c : Cfg} {b b' : Bal} {al : List (Nat × Nat)} {o d a amt : Nat} (hd : c.dead a = true)
    (h : applyMsgs c b al [.pull o d a amt] = .ok b') : False := by
  unfold applyMsgs at h
  unfold applyMsg at h
  simp only [hd, if_true] at h
  cases h

/-- a `Transfer` sent to a token that does not exist fails -/
theorem send_dead_fails {c : Cfg} {b b' : Bal} {al : List (Nat × Nat)} {src d a amt : Nat} (hd : c.dead a = true)
    (h : applyMsgs c b al [.send src d a amt] = .ok b') : False := by
  unfold applyMsgs at h
  unfold applyMsg at h
  have hn := dead_not_native hd
  simp only [hn, hd, if_true] at h
  cases h

/-- `open_flow` naming a token that does not exist (the `Token` that spells a native denom) is refused,
    whatever is attached or allowed -/
theorem step_openFlow_dead {c : Cfg} {s s' : St} {e : Env} {a amt : Nat} {st en : Option Nat}
    (hd : c.dead a = true) (h : step c s e (.openFlow a amt st en) = .ok s') : False := by
  unfold step at h
  simp only at h
  obtain ⟨b, _, h⟩ := bind_eq_ok h
  obtain ⟨⟨s1, msgs⟩, h1, h⟩ := bind_eq_ok h
  obtain ⟨b1, hb1, _⟩ := bind_eq_ok h
  have h1' : openFlow c ({ s with bal := b } : St) e a amt st en = .ok (s1, msgs) := h1
  obtain ⟨x, y, m0, m1, f, _, hasset, hm, _⟩ := openFlow_delta h1'
  subst hm
  rcases openFlowAsset_spec hasset with ⟨hna, _⟩ | ⟨_, hm1, _⟩
  · rw [dead_not_native hd] at hna; cases hna
  · subst hm1
    obtain ⟨b2, al2, h2⟩ := applyMsgs_append_ok _ _ _ _ _ hb1
    exact pull_dead_fails hd h2

/-- `expand_flow` is accepted only when it names exactly the flow's own asset id — kind and name -/
theorem step_expandFlow_names_asset {c : Cfg} {s s' : St} {e : Env} {id a amt : Nat} {en : Option Nat} {f : Flow}
    (hf : findFlow s.flows id = some f) (h : step c s e (.expandFlow id a amt en) = .ok s') : f.asset = a := by
  unfold step at h
  simp only at h
  obtain ⟨b, _, h⟩ := bind_eq_ok h
  obtain ⟨⟨s1, msgs⟩, h1, _⟩ := bind_eq_ok h
  have h1' : expandFlow c ({ s with bal := b } : St) e id a amt en = .ok (s1, msgs) := h1
  obtain ⟨f', _, _, hf', hfa, _⟩ := expandFlow_delta h1'
  have : findFlow s.flows id = some f' := hf'
  rw [hf] at this
  injection this with this
  rw [this]; exact hfa

/-- `expand_flow` naming a token that does not exist is refused -/
theorem step_expandFlow_dead {c : Cfg} {s s' : St} {e : Env} {id a amt : Nat} {en : Option Nat}
    (hd : c.dead a = true) (h : step c s e (.expandFlow id a amt en) = .ok s') : False := by
  unfold step at h
  simp only at h
  obtain ⟨b, _, h⟩ := bind_eq_ok h
  obtain ⟨⟨s1, msgs⟩, h1, h⟩ := bind_eq_ok h
  obtain ⟨b1, hb1, _⟩ := bind_eq_ok h
  have h1' : expandFlow c ({ s with bal := b } : St) e id a amt en = .ok (s1, msgs) := h1
  obtain ⟨_, _, _, _, _, hfunds, _, hs'⟩ := expandFlow_delta h1'
  subst hs'
  rcases expandFlowFunds_spec hfunds with ⟨hna, _⟩ | ⟨_, _, hm⟩
  · rw [dead_not_native hd] at hna; cases hna
  · subst hm
    exact pull_dead_fails hd hb1

/-- a helper deposit whose assets are named in the wrong kind is refused -/
theorem step_helperDepositAs {c : Cfg} {s s' : St} {e : Env} {x0 x1 a0 a1 dur : Nat}
    (h : step c s e (.helperDepositAs x0 x1 a0 a1 dur) = .ok s') : False := by
  unfold step at h
  simp only at h
  obtain ⟨b, _, h⟩ := bind_eq_ok h
  obtain ⟨_, h1, _⟩ := bind_eq_ok h
  cases h1

end WW.Inc
