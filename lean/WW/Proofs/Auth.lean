/-
  Helper lemmas for C16 (authorisation model). Everything here is finite case analysis over the
  enumerations of `WW.Model.Auth`, plus the unfolding lemmas for `step`.
-/
import WW.Model.Auth
namespace WW.Auth
open WW

/-! ### unfolding `step` -/

theorem stepP_err_of_not_admits {s : St} {m : Msg} {no : Option Principal} {p : Principal}
    (h : admitsP s m p = false) : stepP s m no p = .err := by
  unfold stepP
  rw [h]
  rfl

theorem stepP_ok_iff {s : St} {m : Msg} {no : Option Principal} {p : Principal} {s' : St} :
    stepP s m no p = .ok s' ↔
      (admitsP s m p = true ∧ subcallsAdmitted s m = true ∧ s' = effect s m no) := by
  unfold stepP
  by_cases h1 : admitsP s m p = true
  · by_cases h2 : subcallsAdmitted s m = true
    · rw [if_pos h1, if_pos h2]
      constructor
      · intro h
        injection h with h
        exact ⟨h1, h2, h.symm⟩
      · rintro ⟨_, _, h⟩
        rw [h]
    · rw [if_pos h1, if_neg h2]
      constructor
      · intro h; cases h
      · rintro ⟨_, h, _⟩; exact absurd h h2
  · rw [if_neg h1]
    constructor
    · intro h; cases h
    · rintro ⟨h, _, _⟩; exact absurd h h1

theorem stepP_never_panics (s : St) (m : Msg) (no : Option Principal) (p : Principal) :
    stepP s m no p ≠ .panic := by
  unfold stepP
  split
  · split <;> simp
  · simp

/-! ### enumerations are complete -/

theorem allMsgs_complete (m : Msg) : m ∈ allMsgs := by
  cases m with
  | terraswap_factory v => cases v <;> decide
  | terraswap_pair v => cases v <;> decide
  | stableswap_3pool v => cases v <;> decide
  | terraswap_router v => cases v <;> decide
  | terraswap_token v => cases v <;> decide
  | incentive_factory v => cases v <;> decide
  | incentive v => cases v <;> decide
  | frontend_helper v => cases v <;> decide
  | vault_factory v => cases v <;> decide
  | vault v => cases v <;> decide
  | vault_router v => cases v <;> decide
  | fee_collector v => cases v <;> decide
  | fee_distributor v => cases v <;> decide
  | whale_lair v => cases v <;> decide
  | epoch_manager v => cases v <;> decide

theorem allRoles_complete (r : Role) : r ∈ allRoles := by
  cases r with
  | hub c => cases c <;> decide
  | _ => decide

theorem allContracts_complete (c : Contract) : c ∈ allContracts := by cases c <;> decide

/-- a universally quantified decidable statement over messages follows from the check on the list -/
theorem forall_msg_of_all {P : Msg → Prop} [DecidablePred P] (h : ∀ m ∈ allMsgs, P m) : ∀ m, P m :=
  fun m => h m (allMsgs_complete m)

theorem forall_role_of_all {P : Role → Prop} [DecidablePred P] (h : ∀ r ∈ allRoles, P r) : ∀ r, P r :=
  fun r => h r (allRoles_complete r)

/-! ### `setOwner` -/

@[simp] theorem setOwner_same (s : St) (c : Contract) (p : Principal) : (s.setOwner c p).owner c = p := by
  simp [St.setOwner]

theorem setOwner_other (s : St) {c c' : Contract} (p : Principal) (h : c' ≠ c) :
    (s.setOwner c p).owner c' = s.owner c' := by
  simp [St.setOwner, h]

/-! ### the owner rule in terms of principals -/

theorem holds_owner_iff (s : St) (c : Contract) (p : Principal) :
    holds s c .owner p = true ↔ p = s.owner c := by
  simp [holds]

theorem holds_self_iff (s : St) (c : Contract) (p : Principal) :
    holds s c .self p = true ↔ p = .contract c := by
  simp [holds]

/-- the state after the transfer script, computed -/
def afterOwner : Contract → Principal
  | .terraswap_router | .terraswap_token | .incentive => .acct .initOwner
  | _ => .acct .newOwner

end WW.Auth
