/-
  Helper lemmas for C16 (authorisation model). Everything here is finite case analysis over the
  enumerations of `WW.Model.Auth`, plus the unfolding lemmas for `step`.
-/
import WW.Model.Auth
namespace WW.Auth
open WW

/-! ### unfolding `step` -/

theorem stepP_err_of_not_admits {s : St} {m : Msg} {pl : Payload} {p : Principal}
    (h : admitsP s m pl.flow p = false) : stepP s m pl p = .err := by
  unfold stepP
  rw [h]
  rfl

theorem stepP_ok_iff {s : St} {m : Msg} {pl : Payload} {p : Principal} {s' : St} :
    stepP s m pl p = .ok s' ↔
      (admitsP s m pl.flow p = true ∧ subcallsAdmitted s m = true ∧ s' = effect s m pl) := by
  unfold stepP
  by_cases h1 : admitsP s m pl.flow p = true
  · by_cases h2 : subcallsAdmitted s m = true
    · rw [if_pos h1, if_pos h2]
      constructor
      · intro h
        injection h with h
        exact ⟨h1, h2, h.symm⟩
      · rintro ⟨_, _, h⟩
        rw [h]
    · rw [if_pos h1, if_neg h2]
      constructor
      · intro h; cases h
      · rintro ⟨_, h, _⟩; exact absurd h h2
  · rw [if_neg h1]
    constructor
    · intro h; cases h
    · rintro ⟨h, _, _⟩; exact absurd h h1

theorem stepP_never_panics (s : St) (m : Msg) (pl : Payload) (p : Principal) :
    stepP s m pl p ≠ .panic := by
  unfold stepP
  split
  · split <;> simp
  · simp

/-! ### enumerations are complete -/

theorem allMsgs_complete (m : Msg) : m ∈ allMsgs := by
  cases m with
  | terraswap_factory v => cases v <;> decide
  | terraswap_pair v => cases v <;> decide
  | stableswap_3pool v => cases v <;> decide
  | terraswap_router v => cases v <;> decide
  | terraswap_token v => cases v <;> decide
  | incentive_factory v => cases v <;> decide
  | incentive v => cases v <;> decide
  | frontend_helper v => cases v <;> decide
  | vault_factory v => cases v <;> decide
  | vault v => cases v <;> decide
  | vault_router v => cases v <;> decide
  | fee_collector v => cases v <;> decide
  | fee_distributor v => cases v <;> decide
  | whale_lair v => cases v <;> decide
  | epoch_manager v => cases v <;> decide

theorem allRoles_complete (r : Role) : r ∈ allRoles := by
  cases r with
  | hub c => cases c <;> decide
  | _ => decide

theorem allContracts_complete (c : Contract) : c ∈ allContracts := by cases c <;> decide

/-- a universally quantified decidable statement over messages follows from the check on the list -/
theorem forall_msg_of_all {P : Msg → Prop} [DecidablePred P] (h : ∀ m ∈ allMsgs, P m) : ∀ m, P m :=
  fun m => h m (allMsgs_complete m)

theorem forall_role_of_all {P : Role → Prop} [DecidablePred P] (h : ∀ r ∈ allRoles, P r) : ∀ r, P r :=
  fun r => h r (allRoles_complete r)

/-! ### `setOwner` -/

@[simp] theorem setOwner_same (s : St) (c : Contract) (p : Principal) : (s.setOwner c p).owner c = p := by
  simp [St.setOwner]

theorem setOwner_other (s : St) {c c' : Contract} (p : Principal) (h : c' ≠ c) :
    (s.setOwner c p).owner c' = s.owner c' := by
  simp [St.setOwner, h]

/-! ### the owner rule in terms of principals -/

theorem holds_owner_iff (s : St) (c : Contract) (sel : FlowSel) (p : Principal) :
    holds s c sel .owner p = true ↔ p = s.owner c := by
  simp [holds]

theorem holds_self_iff (s : St) (c : Contract) (sel : FlowSel) (p : Principal) :
    holds s c sel .self p = true ↔ p = .contract c := by
  simp [holds]

/-! ### the loan flag and the flows -/

/-- no rule looks at the loan flag -/
theorem holds_withLoan (s : St) (b : Bool) (c : Contract) (sel : FlowSel) (rule : AuthRule) (p : Principal) :
    holds (s.withLoan b) c sel rule p = holds s c sel rule p := by
  cases rule <;> rfl

/-- every guarded-by-loan entry point is permissionless: no variant with a sender rule is loan-guarded -/
theorem rule_not_loanGuarded : ∀ m : Msg, (requires m).isSome = true → loanGuarded m = false :=
  forall_msg_of_all (by decide)

/-- for a variant with a sender rule the verdict IS the rule, in every state (loan in flight or not) -/
theorem admitsP_of_rule {s : St} {m : Msg} {rule : AuthRule} (sel : FlowSel) (p : Principal)
    (hr : requires m = some rule) : admitsP s m sel p = holds s m.contract sel rule p := by
  have hg : loanGuarded m = false := rule_not_loanGuarded m (by rw [hr]; rfl)
  unfold admitsP
  rw [hr, hg]
  simp

@[simp] theorem flowEffect_owner (s : St) (m : Msg) (sel : FlowSel) : (flowEffect s m sel).owner = s.owner := by
  unfold flowEffect
  split
  · split <;> rfl
  · rfl

@[simp] theorem flowEffect_loan (s : St) (m : Msg) (sel : FlowSel) : (flowEffect s m sel).loan = s.loan := by
  unfold flowEffect
  split
  · split <;> rfl
  · rfl

@[simp] theorem ownerEffect_flows (s : St) (m : Msg) (no : Option Principal) : (ownerEffect s m no).flows = s.flows := by
  unfold ownerEffect
  split <;> rfl

@[simp] theorem ownerEffect_loan (s : St) (m : Msg) (no : Option Principal) : (ownerEffect s m no).loan = s.loan := by
  unfold ownerEffect
  split <;> rfl

/-- the flow a selector denotes is a stored flow that matches it -/
theorem resolve_some {s : St} {sel : FlowSel} {f : Flow} (h : s.resolve sel = some f) :
    f ∈ s.flows ∧ f.matches sel = true := by
  unfold St.resolve at h
  exact ⟨List.mem_of_find?_eq_some h, List.find?_some (p := fun f : Flow => f.matches sel) h⟩

/-- the state after the transfer script, computed -/
def afterOwner : Contract → Principal
  | .terraswap_router | .terraswap_token | .incentive => .acct .initOwner
  | _ => .acct .newOwner

def afterSt : St := { St.init with owner := afterOwner }

end WW.Auth
