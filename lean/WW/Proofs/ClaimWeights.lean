/- C13: the weight the claim loop uses. `earliest` semantics, the last-claimed / history invariant, the
   carried pair at the first iteration (`claimStart`) and through every iteration (after the repair the loop
   also reads the history for the epochs it skips before the flow's start). -/
import WW.Proofs.SharesHist
namespace WW.Inc
open WW WW.Gen

def estep (u : Addr) (acc : Option (Nat × Nat)) (p : (Addr × Nat) × Nat) : Option (Nat × Nat) :=
  if p.1.1 = u then
    match acc with
    | none => some (p.1.2, p.2)
    | some q => if p.1.2 < q.1 then some (p.1.2, p.2) else acc
  else acc

theorem earliest_eq_foldl (wh : List ((Addr × Nat) × Nat)) (u : Addr) : earliest wh u = wh.foldl (estep u) none := rfl

theorem foldl_estep_spec (u : Addr) : ∀ (l : List ((Addr × Nat) × Nat)) (acc : Option (Nat × Nat)),
    (l.foldl (estep u) acc = none → acc = none ∧ ∀ k, alook l (u, k) = none)
    ∧ (∀ k w, l.foldl (estep u) acc = some (k, w) →
        (∀ k', k' < k → alook l (u, k') = none)
        ∧ (acc = some (k, w) ∨ (alook l (u, k) = some w ∧ ∀ q, acc = some q → k < q.1))
        ∧ (∀ q, acc = some q → k ≤ q.1)) := by
  intro l
  induction l with
  | nil =>
    intro acc
    refine ⟨fun h => ⟨h, fun k => rfl⟩, fun k w h => ⟨fun k' _ => rfl, Or.inl h, ?_⟩⟩
    intro q hq
    have h' : acc = some (k, w) := h
    rw [h'] at hq; injection hq with hq; rw [← hq]
  | cons p t ih =>
    intro acc
    obtain ⟨⟨a, b⟩, v⟩ := p
    rw [List.foldl_cons]
    by_cases ha : a = u
    · subst ha
      have hlook : ∀ k, alook (((a, b), v) :: t) (a, k) = if b = k then some v else alook t (a, k) := by
        intro k
        simp only [alook]
        by_cases hb : b = k
        · subst hb; simp
        · have : ¬ (a, b) = (a, k) := fun he => hb (by injection he)
          rw [if_neg this, if_neg hb]
      cases acc with
      | none =>
        have hs : estep a none ((a, b), v) = some (b, v) := by simp [estep]
        rw [hs]
        obtain ⟨i1, i2⟩ := ih (some (b, v))
        refine ⟨fun h => (by have := (i1 h).1; cases this), ?_⟩
        intro k w h
        obtain ⟨j1, j2, j3⟩ := i2 k w h
        have hkb : k ≤ b := j3 (b, v) rfl
        refine ⟨?_, Or.inr ⟨?_, fun q hq => by cases hq⟩, fun q hq => by cases hq⟩
        · intro k' hk'
          rw [hlook, if_neg (by omega)]; exact j1 k' hk'
        · rcases j2 with hacc | ⟨hl, hlt⟩
          · injection hacc with hacc; injection hacc with hk hw
            rw [hlook, if_pos hk, hw]
          · have := hlt (b, v) rfl
            simp only at this
            rw [hlook, if_neg (by omega)]; exact hl
      | some q =>
        by_cases hbq : b < q.1
        · have hs : estep a (some q) ((a, b), v) = some (b, v) := by simp [estep, hbq]
          rw [hs]
          obtain ⟨i1, i2⟩ := ih (some (b, v))
          refine ⟨fun h => (by have := (i1 h).1; cases this), ?_⟩
          intro k w h
          obtain ⟨j1, j2, j3⟩ := i2 k w h
          have hkb : k ≤ b := j3 (b, v) rfl
          refine ⟨?_, Or.inr ⟨?_, ?_⟩, ?_⟩
          · intro k' hk'
            rw [hlook, if_neg (by omega)]; exact j1 k' hk'
          · rcases j2 with hacc | ⟨hl, hlt⟩
            · injection hacc with hacc; injection hacc with hk hw
              rw [hlook, if_pos hk, hw]
            · have := hlt (b, v) rfl
              simp only at this
              rw [hlook, if_neg (by omega)]; exact hl
          · intro q' hq'; injection hq' with hq'; rw [← hq']; omega
          · intro q' hq'; injection hq' with hq'; rw [← hq']; omega
        · have hs : estep a (some q) ((a, b), v) = some q := by simp [estep, hbq]
          rw [hs]
          obtain ⟨i1, i2⟩ := ih (some q)
          refine ⟨fun h => (by have := (i1 h).1; cases this), ?_⟩
          intro k w h
          obtain ⟨j1, j2, j3⟩ := i2 k w h
          have hkq : k ≤ q.1 := j3 q rfl
          refine ⟨?_, ?_, j3⟩
          · intro k' hk'
            rw [hlook, if_neg (by omega)]; exact j1 k' hk'
          · rcases j2 with hacc | ⟨hl, hlt⟩
            · exact Or.inl hacc
            · have := hlt q rfl
              refine Or.inr ⟨?_, hlt⟩
              rw [hlook, if_neg (by omega)]; exact hl
    · have hs : estep u acc ((a, b), v) = acc := by simp [estep, ha]
      rw [hs]
      have hlook : ∀ k, alook (((a, b), v) :: t) (u, k) = alook t (u, k) := by
        intro k
        simp only [alook]
        have : ¬ (a, b) = (u, k) := fun he => ha (by injection he)
        rw [if_neg this]
      obtain ⟨i1, i2⟩ := ih acc
      refine ⟨fun h => ⟨(i1 h).1, fun k => by rw [hlook]; exact (i1 h).2 k⟩, ?_⟩
      intro k w h
      obtain ⟨j1, j2, j3⟩ := i2 k w h
      refine ⟨fun k' hk' => by rw [hlook]; exact j1 k' hk', ?_, j3⟩
      rcases j2 with hacc | ⟨hl, hlt⟩
      · exact Or.inl hacc
      · exact Or.inr ⟨by rw [hlook]; exact hl, hlt⟩

/-- `get_earliest_available_weight_snapshot_for_user`: no entry at all, or the entry with the smallest epoch -/
theorem earliest_spec (wh : List ((Addr × Nat) × Nat)) (u : Addr) :
    (earliest wh u = none → ∀ k, alook wh (u, k) = none)
    ∧ (∀ k w, earliest wh u = some (k, w) → alook wh (u, k) = some w ∧ ∀ k', k' < k → alook wh (u, k') = none) := by
  obtain ⟨h1, h2⟩ := foldl_estep_spec u wh none
  rw [earliest_eq_foldl]
  refine ⟨fun h => (h1 h).2, fun k w h => ?_⟩
  obtain ⟨j1, j2, _⟩ := h2 k w h
  rcases j2 with hacc | ⟨hl, _⟩
  · cases hacc
  · exact ⟨hl, j1⟩

/-! ### what a claim does to the history, entry by entry -/

theorem alook_claim_other (wh : List ((Addr × Nat) × Nat)) {u v : Addr} (e x k : Nat) (hv : v ≠ u) :
    alook (aset (wh.filter (fun p => p.1.1 ≠ u)) (u, e) x) (v, k) = alook wh (v, k) := by
  rw [alook_aset_other _ _ (fun he => by injection he with h1 _; exact hv h1)]
  exact alook_filter_ne_other wh k hv

theorem alook_claim_self (wh : List ((Addr × Nat) × Nat)) (u : Addr) (e x : Nat) {k : Nat} (hk : k ≠ e) :
    alook (aset (wh.filter (fun p => p.1.1 ≠ u)) (u, e) x) (u, k) = none := by
  rw [alook_aset_other _ _ (fun he => by injection he with _ h2; exact hk h2)]
  exact alook_filter_ne_same wh u k

theorem step_claim_whist {c : Cfg} {s s' : St} {e : Env} (h : step c s e .claim = .ok s') :
    s'.whist = aset (s.whist.filter (fun p => p.1.1 ≠ e.sender)) (e.sender, e.epoch + 1) (aget s.addrW e.sender) := by
  unfold step at h
  simp only at h
  obtain ⟨b, _, h⟩ := bind_eq_ok h
  obtain ⟨⟨s1, msgs⟩, h1, h⟩ := bind_eq_ok h
  obtain ⟨b1, _, h⟩ := bind_eq_ok h
  injection h with h
  subst h
  have h2 : claimExec { s with bal := b } e = .ok (s1, msgs) := h1
  unfold claimExec at h2
  split at h2
  · cases h2
  · unfold claimCore at h2
    split at h2
    · cases h2
    · split at h2
      · injection h2 with h2; injection h2 with e1 e2; subst e1; rfl
      · cases h2
      · cases h2

/-- last-claimed / history invariant: a recorded last-claimed epoch is not in the future and the address has
    no history entry at or before it; nobody has an entry for epoch 0 -/
structure LCI (s : St) (cur : Nat) : Prop where
  le : ∀ u l, alook s.lastClaimed u = some l → l ≤ cur
  gone : ∀ u l, alook s.lastClaimed u = some l → ∀ k, k ≤ l → alook s.whist (u, k) = none
  zero : ∀ u, alook s.whist (u, 0) = none

theorem LCI.adv {s : St} {cur e : Nat} (h : LCI s cur) (hle : cur ≤ e) : LCI s e :=
  ⟨fun u l hl => Nat.le_trans (h.le u l hl) hle, h.gone, h.zero⟩

theorem step_LCI {c : Cfg} {s s' : St} {e : Env} {op : Op} (hI : LCI s e.epoch) (h : step c s e op = .ok s') :
    LCI s' e.epoch := by
  by_cases hop : op = .claim
  · subst hop
    have hw := step_claim_whist h
    have hrec := step_claim_records h
    have hoth : ∀ v, v ≠ e.sender → alook s'.lastClaimed v = alook s.lastClaimed v :=
      fun v hv => step_lastClaimed v (fun hh => hv hh.2.symm) h
    refine ⟨?_, ?_, ?_⟩
    · intro u l hl
      by_cases hu : u = e.sender
      · subst hu; rw [hrec] at hl; injection hl with hl; omega
      · rw [hoth u hu] at hl; exact hI.le u l hl
    · intro u l hl k hk
      rw [hw]
      by_cases hu : u = e.sender
      · subst hu
        rw [hrec] at hl; injection hl with hl
        exact alook_claim_self _ _ _ _ (by omega)
      · rw [hoth u hu] at hl
        rw [alook_claim_other _ _ _ _ hu]
        exact hI.gone u l hl k hk
    · intro u
      rw [hw]
      by_cases hu : u = e.sender
      · subst hu; exact alook_claim_self _ _ _ _ (by omega)
      · rw [alook_claim_other _ _ _ _ hu]; exact hI.zero u
  · have hlc : ∀ u, alook s'.lastClaimed u = alook s.lastClaimed u :=
      fun u => step_lastClaimed u (fun hh => hop hh.1) h
    have hwh : ∀ u k, k ≤ e.epoch → alook s'.whist (u, k) = alook s.whist (u, k) ∨ alook s'.whist (u, k) = none := by
      intro u k hk
      rcases step_weff h with ⟨_, h2, _, _⟩ | ⟨_, _, h2, _, _⟩ | ⟨_, r, x, _, h3⟩ | ⟨_, _, _, _, v, h4⟩
      · left; rw [h2]
      · left; rw [h2]
      · left; rw [h3, alook_aset_other _ _ (fun he => by injection he with _ h2; omega)]
      · rw [h4]
        by_cases hu : u = v
        · subst hu; right; exact alook_claim_self _ _ _ _ (by omega)
        · left; exact alook_claim_other _ _ _ _ hu
    refine ⟨?_, ?_, ?_⟩
    · intro u l hl; rw [hlc u] at hl; exact hI.le u l hl
    · intro u l hl k hk
      rw [hlc u] at hl
      have hle := hI.le u l hl
      rcases hwh u k (by omega) with h1 | h1
      · rw [h1]; exact hI.gone u l hl k hk
      · exact h1
    · intro u
      rcases hwh u 0 (Nat.zero_le _) with h1 | h1
      · rw [h1]; exact hI.zero u
      · exact h1

theorem init_LCI (e0 : Nat) (bal : Bal) : LCI (init e0 bal) e0 :=
  ⟨fun u l hl => (by cases hl), fun u l hl => (by cases hl), fun u => rfl⟩

theorem reach_LCI {c : Cfg} :
    ∀ (ops : List (Env × Op)) (s : St) (ep : Nat), LCI s ep → EpochsFrom ep ops → ∃ ep', LCI (reach c s ops) ep' := by
  intro ops
  induction ops with
  | nil => intro s ep hI _; exact ⟨ep, hI⟩
  | cons p t ih =>
    intro s ep hI hep
    obtain ⟨e, op⟩ := p
    obtain ⟨hle, hep'⟩ := hep
    simp only at hle hep'
    show ∃ ep', LCI (reach c (stepOrStay c s e op) t) ep'
    unfold stepOrStay
    split
    · rename_i s' hstep
      exact ih s' e.epoch (step_LCI (hI.adv hle) hstep) hep'
    · exact ih s e.epoch (hI.adv hle) hep'

/-- the pair `claim` / `get_rewards` start a flow's loop with is correct for the first claimable epoch -/
theorem claimStart_carry {s : St} {cur : Nat} (hI : LCI s cur) (u : Addr) (f : Flow) :
    Carry s.whist u (claimStart s u f).1 (claimStart s u f).2.1 (claimStart s u f).2.2 := by
  obtain ⟨e1, e2⟩ := earliest_spec s.whist u
  unfold claimStart
  cases he : earliest s.whist u with
  | none =>
    have hnone := e1 he
    simp only [Option.getD_none]
    right
    exact ⟨fun k _ => hnone k, fun h0 => absurd rfl h0⟩
  | some p =>
    obtain ⟨lu, ls⟩ := p
    obtain ⟨hl, hbefore⟩ := e2 lu ls he
    simp only [Option.getD_some]
    right
    cases hlc : alook s.lastClaimed u with
    | some l =>
      simp only
      have hg := hI.gone u l hlc
      have hlt : l < lu := by
        by_contra hc
        rw [hg lu (by omega)] at hl; cases hl
      exact ⟨fun k hk => hg k (by omega), fun _ => ⟨by omega, hl, hbefore⟩⟩
    | none =>
      simp only
      by_cases hs : f.startE > lu
      · rw [if_pos hs]
        exact ⟨hbefore, fun _ => ⟨Nat.le_refl _, hl, hbefore⟩⟩
      · rw [if_neg hs]
        exact ⟨fun k hk => hbefore k (by omega), fun _ => ⟨by omega, hl, hbefore⟩⟩

/-! ### through the loop -/

theorem claimPay_carry {u expAmt : Nat} {st st' : ClaimLoop} {emission uw g : Nat}
    (h : claimPay u expAmt st emission uw g = .ok (.next st')) :
    st'.lastUpd = st.lastUpd ∧ st'.lastSeen = st.lastSeen := by
  unfold claimPay at h
  split at h
  · injection h with h; injection h with h; subst h; exact ⟨rfl, rfl⟩
  · split at h
    · split at h
      · split at h
        · cases h
        · split at h
          · injection h with h; injection h with h; subst h; exact ⟨rfl, rfl⟩
          · split at h
            · injection h with h; injection h with h; subst h; exact ⟨rfl, rfl⟩
            · cases h
            · cases h
      · cases h
      · cases h
    · cases h
    · cases h

/-- Carry with the hypothesis that matters in the `some` branch (no entry for epoch 0) -/
theorem weightAt_effW' {s : St} {u ep lu ls : Nat} (hz : alook s.whist (u, 0) = none)
    (hC : Carry s.whist u ep lu ls) :
    (weightAt s u ep lu ls).2.2.getD 0 = effW s.whist u ep
    ∧ Carry s.whist u (ep + 1) (weightAt s u ep lu ls).1 (weightAt s u ep lu ls).2.1 := by
  by_cases hep : 1 ≤ ep
  · exact weightAt_effW hep hC
  · have h0 : ep = 0 := by omega
    subst h0
    unfold weightAt
    rw [hz]
    simp only
    rcases hC with ⟨_, c2, _, _⟩ | ⟨c1, c2⟩
    · omega
    · have hc : ¬ (lu ≠ 0 && decide (lu ≤ 0)) = true := by
        simp only [Bool.and_eq_true, decide_eq_true_eq, ne_eq, not_and]
        intro h0 hle
        have h0' : lu ≠ 0 := by simpa using h0
        omega
      rw [if_neg hc]
      simp only [Option.getD_none]
      refine ⟨?_, Or.inr ⟨?_, ?_⟩⟩
      · unfold effW; rw [hz]; rfl
      · intro k hk
        have : k = 0 := by omega
        rw [this]; exact hz
      · intro h0
        obtain ⟨_, d2, d3⟩ := c2 h0
        exact ⟨by omega, d2, d3⟩

/-- one iteration of `claim.rs` keeps the carried pair correct (also when the epoch lies before the flow's
    start and is skipped: the repaired loop still reads the history entry of the skipped epoch) -/
theorem claimEpoch_carry {s : St} {u expAmt expEnd ep : Nat} {st st' : ClaimLoop}
    (hz : alook s.whist (u, 0) = none) (hC : Carry s.whist u ep st.lastUpd st.lastSeen)
    (h : claimEpoch s u expAmt expEnd st ep = .ok (.next st')) :
    Carry s.whist u (ep + 1) st'.lastUpd st'.lastSeen := by
  obtain ⟨_, hC'⟩ := weightAt_effW' hz hC
  unfold claimEpoch at h
  simp only [] at h
  split at h
  · cases h
  · split at h
    · injection h with h; injection h with h; subst h
      exact hC'
    · split at h
      · cases h
      · split at h
        · rename_i emission em hes
          generalize hwa : weightAt s u ep st.lastUpd st.lastSeen = wa at h hC'
          obtain ⟨w1, w2, w3⟩ := wa
          cases w3 with
          | none =>
            simp only at h
            injection h with h; injection h with h; subst h
            exact hC'
          | some uw =>
            simp only at h
            obtain ⟨p1, p2⟩ := claimPay_carry h
            simp only at p1 p2 hC'
            rw [p1, p2]
            exact hC'
        · cases h
        · cases h

/-- the same for one iteration of `get_rewards.rs` -/
theorem rewardsEpoch_carry {s : St} {u expAmt expEnd ep : Nat} {f : Flow} {rt rt' : RewLoop}
    (hz : alook s.whist (u, 0) = none) (hC : Carry s.whist u ep rt.lastUpd rt.lastSeen)
    (h : rewardsEpoch s u f expAmt expEnd rt ep = .ok (.next rt')) :
    Carry s.whist u (ep + 1) rt'.lastUpd rt'.lastSeen := by
  obtain ⟨_, hC'⟩ := weightAt_effW' hz hC
  unfold rewardsEpoch at h
  split at h
  · injection h with h; injection h with h; subst h
    exact hC'
  · split at h
    · cases h
    · split at h
      · rename_i emission em hes
        generalize hwa : weightAt s u ep rt.lastUpd rt.lastSeen = wa at h hC'
        obtain ⟨w1, w2, w3⟩ := wa
        cases w3 with
        | none =>
          simp only at h
          injection h with h; injection h with h; subst h
          exact hC'
        | some uw =>
          simp only at h
          unfold rewardsAdd at h
          split at h
          · injection h with h; injection h with h; subst h; exact hC'
          · split at h
            · split at h
              · split at h
                · cases h
                · split at h
                  · injection h with h; injection h with h; subst h; exact hC'
                  · cases h
                  · cases h
              · cases h
              · cases h
            · cases h
            · cases h
      · cases h
      · cases h

/-- every iteration the claim loop reaches from `(ep, st)` uses `effW … u ·` as the address weight -/
def LoopReadsEffW (s : St) (u : Addr) (expAmt expEnd : Nat) : Nat → Nat → ClaimLoop → Prop
  | 0, _, _ => True
  | n + 1, ep, st =>
    (weightAt s u ep st.lastUpd st.lastSeen).2.2.getD 0 = effW s.whist u ep
    ∧ ∀ st', claimEpoch s u expAmt expEnd st ep = .ok (.next st') → LoopReadsEffW s u expAmt expEnd n (ep + 1) st'

theorem loop_reads_effW {s : St} {u expAmt expEnd : Nat} (hz : alook s.whist (u, 0) = none) :
    ∀ (n ep : Nat) (st : ClaimLoop), Carry s.whist u ep st.lastUpd st.lastSeen →
      LoopReadsEffW s u expAmt expEnd n ep st := by
  intro n
  induction n with
  | zero => intro _ _ _; trivial
  | succ n ih =>
    intro ep st hC
    refine ⟨(weightAt_effW' hz hC).1, ?_⟩
    intro st' h
    exact ih (ep + 1) st' (claimEpoch_carry hz hC h)

/-- … and so does every iteration of the rewards-query loop -/
def QueryReadsEffW (s : St) (u : Addr) (f : Flow) (expAmt expEnd : Nat) : Nat → Nat → RewLoop → Prop
  | 0, _, _ => True
  | n + 1, ep, rt =>
    (weightAt s u ep rt.lastUpd rt.lastSeen).2.2.getD 0 = effW s.whist u ep
    ∧ ∀ rt', rewardsEpoch s u f expAmt expEnd rt ep = .ok (.next rt') → QueryReadsEffW s u f expAmt expEnd n (ep + 1) rt'

theorem query_reads_effW {s : St} {u : Addr} {f : Flow} {expAmt expEnd : Nat} (hz : alook s.whist (u, 0) = none) :
    ∀ (n ep : Nat) (rt : RewLoop), Carry s.whist u ep rt.lastUpd rt.lastSeen →
      QueryReadsEffW s u f expAmt expEnd n ep rt := by
  intro n
  induction n with
  | zero => intro _ _ _; trivial
  | succ n ih =>
    intro ep rt hC
    refine ⟨(weightAt_effW' hz hC).1, ?_⟩
    intro rt' h
    exact ih (ep + 1) rt' (rewardsEpoch_carry hz hC h)

end WW.Inc
