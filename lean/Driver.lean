import Driver.Main
