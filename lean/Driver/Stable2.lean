/- Driver for the two-asset stableswap model (C03): pure calls `call ss_*` and `init stable2` histories. -/
import Driver.Util
import Driver.Pure
import WW.Model.Stable2
namespace Driver
open WW

def showOptNat : Option Nat → String
  | none => "none"
  | some n => toString n

/-- `call ss_swap op ap off p s b amp offPrec askPrec`, `call ss_y opDec apDec offDec amp askPrec dir`,
    `call ss_d amp a b` (compute_d, raw), `call ss_lp_mint amp da db sa sb supply` -/
def stable2Call (ws : List String) : Option String :=
  match ws with
  | "ss_swap" :: args =>
    match nats? args with
    | some [op, ap, off, p, s, b, amp, po, pa] =>
      some (showRes showSwap (ssSwap op ap off { prot := p, swap := s, burn := b } amp po pa))
    | _ => some "bad-op"
  | "ss_y" :: args =>
    match nats? args with
    | some [op, ap, off, amp, pa, dir] => some (showRes toString (ssY op ap off amp pa dir))
    | _ => some "bad-op"
  | "ss_d" :: args =>
    match nats? args with
    | some [amp, a, b] => some (showRes toString (computeD amp a b))
    | _ => some "bad-op"
  | "ss_lp_mint" :: args =>
    match nats? args with
    | some [amp, da, db, sa, sb, sup] => some (showRes showOptNat (ssLpMint amp da db sa sb sup))
    | _ => some "bad-op"
  | _ => none

def ssObs (s : SsSt) : String :=
  let us := (List.range s.users.length).map fun i =>
    let u := s.user i
    s!"u{i}a={u.a} u{i}b={u.b} u{i}lp={u.lp}"
  s!"r0={s.r0} r1={s.r1} pf0={s.pend0} pf1={s.pend1} sup={s.sup} lpPair={s.lpPair} " ++ " ".intercalate us

/-- `none`: the line does not parse (`bad-op`); `some none`: the pair contract rejects the
    configuration at instantiate (amp outside `[MIN_AMP, MAX_AMP]`, invalid fees) -/
def ssInitLine (ws : List String) : Option (Option (SsCfg × SsSt)) :=
  let m := kvs ws
  match lookupNat m "amp", lookupNat m "d0", lookupNat m "d1", lookupNat m "p", lookupNat m "s",
        lookupNat m "b", lookupNat m "balA", lookupNat m "balB" with
  | some amp, some d0, some d1, some p, some s, some b, some ba, some bb =>
    let f : Fees := { prot := p, swap := s, burn := b }
    let k0 := lookupStr m "k0" "n"
    let k1 := lookupStr m "k1" "n"
    if amp > U64MAX ∨ d0 > 255 ∨ d1 > 255 then none
    else if (k0 ≠ "n" ∧ k0 ≠ "c") ∨ (k1 ≠ "n" ∧ k1 ≠ "c") then none
    else if Gen.PAIR_MIN_AMP ≤ amp ∧ amp ≤ Gen.PAIR_MAX_AMP ∧ f.valid then
      some (some ({ amp := amp, dec0 := d0, dec1 := d1, fees := f, cw0 := k0 == "c", cw1 := k1 == "c" }, ssInit ba bb))
    else some none
  | _, _, _, _, _, _, _, _ => none

def userIx? (w : String) : Option Nat :=
  match w with
  | "u0" => some 0
  | "u1" => some 1
  | "u2" => some 2
  | _ => none

/-- op lines: `<height> <time> <user> provide <d0> <d1>` | `… swap <dir> <offer>` | `… withdraw <amount>` -/
def ssParseOp (ws : List String) : Option SsOp :=
  match ws with
  | [_, _, u, "provide", a, b] =>
    match userIx? u, a.toNat?, b.toNat? with
    | some u, some a, some b => some (.provide u a b)
    | _, _, _ => none
  | [_, _, u, "swap", d, o] =>
    match userIx? u, d.toNat?, o.toNat? with
    | some u, some d, some o => if d ≤ 1 then some (.swap u d o) else none
    | _, _, _ => none
  | [_, _, _u, "collect"] => some .collect
  | [_, _, u, "withdraw", a] =>
    match userIx? u, a.toNat? with
    | some u, some a => some (.withdraw u a)
    | _, _ => none
  | _ => none

def ssOpLine (cfg : SsCfg) (s : SsSt) (ws : List String) : SsSt × String :=
  match ssParseOp ws with
  | none => (s, "bad-op")
  | some op =>
    match ssStep cfg s op with
    | .ok s' => (s', "ok " ++ ssObs s')
    | .err => (s, "err " ++ ssObs s)
    | .panic => (s, "panic " ++ ssObs s)

end Driver
