/- Driver for the three-asset stableswap model: `call trio_*` pure calls and the `trio` history engine. -/
import Driver.Util
import WW.Model.Trio
namespace Driver.Trio
open WW WW.Trio Driver

def showComp (c : SwapComp) : String :=
  showNats [c.ret, c.spread, c.swapFee, c.protFee, c.burnFee]

def showUnit (_ : Unit) : String := ""

/-- `-` = none, else a number -/
def optNat? (w : String) : Option (Option Nat) :=
  if w == "-" then some none else (w.toNat?).map some

def csv? (w : String) : Option (List Nat) := (w.splitOn ",").mapM String.toNat?

/-- pure calls; every function takes the five `StableSwap` fields `init target cur start stop` first -/
def pureCall (fn : String) (args : List String) : String :=
  match fn, args with
  | "trio_slip", sl :: rest =>
    match optNat? sl, nats? rest with
    | some slip, some [d0, d1, d2, p0, p1, p2, amount, supply] =>
      showRes showUnit (assertSlippage slip d0 d1 d2 p0 p1 p2 amount supply)
    | _, _ => "bad-op"
  | _, _ =>
  match nats? args with
  | some (i :: t :: cur :: st :: sp :: rest) =>
    let A : AmpCfg := { init := i, target := t, start := st, stop := sp }
    match fn, rest with
    | "trio_amp", [] => showRes toString (A.at cur)
    | "trio_d", [a, b, c] => showRes toString (computeD A cur a b c)
    | "trio_yraw", [x, n, d] => showRes toString (yRaw A cur x n d)
    | "trio_y", [x, n, d] => showRes toString (computeY A cur x n d)
    | "trio_swap_to", [src, ss, sd, un] =>
      showRes (fun r => showNats [r.newSource, r.newDest, r.swapped]) (swapTo A cur src ss sd un)
    | "trio_mint", [da, db, dc, sa, sb, sc, sup] => showRes toString (mintAmount A cur da db dc sa sb sc sup)
    | "trio_cswap", [op, ap, un, off, p, s, b] =>
      showRes showComp (computeSwap A cur op ap un off { prot := p, swap := s, burn := b })
    | "trio_rt", [op, ap, un, off, p, s, b] =>
      let f : Fees := { prot := p, swap := s, burn := b }
      match computeSwap A cur op ap un off f with
      | .ok c =>
        -- the pool as the contract reports it after the swap: the offer joins the offer pool;
        -- proceeds, protocol fee and burn fee leave the ask pool
        if op + off > U128MAX || c.ret + c.protFee + c.burnFee > ap then "ok " ++ showComp c ++ " | skip"
        else "ok " ++ showComp c ++ " | " ++
          showRes showComp (computeSwap A cur (ap - c.ret - c.protFee - c.burnFee) (op + off) un c.ret f)
      | r => showRes showComp r
    | _, _ => "bad-op"
  | _ => "bad-op"

/-! ### history engine -/

def c3 (f : Nat → Nat) : String := s!"{f 0},{f 1},{f 2}"

def b01 (b : Bool) : String := if b then "1" else "0"

def showSim : Res SwapComp → String
  | .ok c => s!"ok:{c.ret}:{c.spread}:{c.swapFee}:{c.protFee}:{c.burnFee}"
  | .err => "err"
  | .panic => "panic"

/-- reserve as the `Pool` query reports it (`amount - protocol_fee`, unchecked) -/
def reserve (s : St) (i : Nat) : String :=
  if s.pend i ≤ s.bal i then toString (s.bal i - s.pend i) else "panic"

def obs (s : St) : String :=
  let accts := (List.range 6).map fun a => s!"u{a}={s.ub a 0},{s.ub a 1},{s.ub a 2},{s.lp a}"
  s!"r={reserve s 0},{reserve s 1},{reserve s 2} lps={s.lpSup} pend={c3 s.pend} all={c3 s.allTime} " ++
  s!"burned={c3 s.burned} amp={s.amp.init},{s.amp.target},{s.amp.start},{s.amp.stop} " ++
  s!"own={s.owner} col={s.collector} fees={s.fees.prot},{s.fees.swap},{s.fees.burn} " ++
  s!"tog={b01 s.depOn}{b01 s.wdOn}{b01 s.swOn} pb={c3 s.bal} lpp={s.lpPool} " ++
  " ".intercalate accts ++ s!" sup={c3 s.sup}"

def outcome {α : Type} : Res α → String
  | .ok _ => "ok"
  | .err => "err"
  | .panic => "panic"

/-- `init trio kinds=ncn p= s= b= amp= h= fund=` -/
def init (ws : List String) : Option St :=
  let m := kvs ws
  let kinds := (lookupStr m "kinds").toList
  match kinds, lookupNat m "p", lookupNat m "s", lookupNat m "b", lookupNat m "amp", lookupNat m "h",
        lookupNat m "fund" with
  | [k0, k1, k2], some p, some s, some b, some amp, some h, some fund =>
    if !([k0, k1, k2].all fun k => k == 'n' || k == 'c') then none else
    let kind : Nat → Bool := fun i => if i = 0 then k0 == 'n' else if i = 1 then k1 == 'n' else k2 == 'n'
    match mkInit kind { prot := p, swap := s, burn := b } amp h
        (fun a i => if a < 6 ∧ i < 3 then fund else 0) (fun i => if i < 3 then 6 * fund else 0) with
    | .ok st => some st
    | _ => none
  | _, _, _, _, _, _, _ => none

def parseTog (w : String) : Option (Option (Bool × Bool × Bool)) :=
  if w == "-" then some none else
  match w.toList with
  | [d, wd, sw] =>
    if [d, wd, sw].all (fun c => c == '0' || c == '1') then some (some (d == '1', wd == '1', sw == '1')) else none
  | _ => none

def parseFees (w : String) : Option (Option Fees) :=
  if w == "-" then some none else
  match csv? w with
  | some [p, s, b] => some (some { prot := p, swap := s, burn := b })
  | _ => none

def parseRamp (w : String) : Option (Option (Nat × Nat)) :=
  if w == "-" then some none else
  match csv? w with
  | some [a, b] => some (some (a, b))
  | _ => none

/-- `<height> <time> <sender> <op> <args…>` -/
def parseOp (ws : List String) : Option (Nat × Nat × Op) :=
  match ws with
  | h :: _t :: u :: name :: args =>
    match h.toNat?, u.toNat? with
    | some h, some u =>
      if u ≥ 6 then none else
      let op : Option Op :=
        match name, args with
        | "provide", [d0, d1, d2, sl, rc] =>
          match nats? [d0, d1, d2], optNat? sl, optNat? rc with
          | some [d0, d1, d2], some sl, some rc => some (.provide d0 d1 d2 sl rc)
          | _, _, _ => none
        | "withdraw", [a] => a.toNat?.map .withdraw
        | "swap", [o, a, amt, bp, ms, to] =>
          match nats? [o, a, amt], optNat? bp, optNat? ms, optNat? to with
          | some [o, a, amt], some bp, some ms, some to => some (.swap o a amt bp ms to)
          | _, _, _, _ => none
        | "collect", [] => some .collect
        | "config", [o, c, f, t, r] =>
          match optNat? o, optNat? c, parseFees f, parseTog t, parseRamp r with
          | some o, some c, some f, some t, some r => some (.updateConfig o c f t r)
          | _, _, _, _, _ => none
        | "donate", [i, a] =>
          match nats? [i, a] with
          | some [i, a] => some (.donate i a)
          | _ => none
        -- entry points a cw20-LP pool refuses: direct `WithdrawLiquidity {}` (`sel` = attached coins),
        -- `WithdrawLiquidity` hook from pool asset `i`, `Swap` hook from the LP token
        | "wdirect", [sel, a] =>
          match nats? [sel, a] with
          | some [sel, a] => if sel ≤ 6 then some (.foreign 0 sel a) else none
          | _ => none
        | "wfake", [i, a] =>
          match nats? [i, a] with
          | some [i, a] => if i < 3 then some (.foreign 1 i a) else none
          | _ => none
        -- direct `Swap` naming offer / ask assets `k / 3`, `k % 3` with nothing attached
        | "sdirect", [k, a] =>
          match nats? [k, a] with
          | some [k, a] => if k < 9 ∧ a ≠ 0 then some (.foreign 3 k a) else none
          | _ => none
        | "sfake", [k, a] =>
          match nats? [k, a] with
          | some [k, a] => if k < 3 then some (.foreign 2 k a) else none
          | _ => none
        | _, _ => none
      op.map fun op => (h, u, op)
    | _, _ => none
  | _ => none

/-- `<h> <t> <u> fund <i> <amt> collect|config …`: a message that takes no funds sent with coins of pool
    asset `i` attached: on the model TWO operations of the history — the donation, then the message — or none
    when either fails (the transaction is atomic) -/
def fundLine (s : St) (h t u i a : String) (inner : List String) : St × String :=
  match parseOp [h, t, u, "donate", i, a], parseOp (h :: t :: u :: inner) with
  | some (hh, uu, don), some (_, _, op) =>
    let allowed := match inner with
      | "collect" :: _ => true
      | "config" :: _ => true
      | _ => false
    let native := match i.toNat? with
      | some k => k < 3 && s.kind k
      | none => false
    if !allowed || !native || a.toNat? == some 0 then (s, "bad-op")
    else
      match step hh uu s don with
      | .ok s1 =>
        match step hh uu s1 op with
        | .ok s' => (s', "ok " ++ obs s')
        | r => (s, outcome r ++ " " ++ obs s)
      | r => (s, outcome r ++ " " ++ obs s)
  | _, _ => (s, "bad-op")

def opLine (s : St) (ws : List String) : St × String :=
  match ws with
  | h :: t :: u :: "fund" :: i :: a :: inner => fundLine s h t u i a inner
  | _ =>
  match parseOp ws with
  | none => (s, "bad-op")
  | some (h, u, op) =>
    let sim := match op with
      | .swap o a amt _ _ _ => " sim=" ++ showSim (simulate s h o a amt)
      | _ => ""
    match step h u s op with
    | .ok s' => (s', "ok " ++ obs s' ++ sim)
    | r => (s, outcome r ++ " " ++ obs s ++ sim)

end Driver.Trio
