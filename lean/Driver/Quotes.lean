/- Line-protocol driver of the `quotes` engine (C14): see harness/src/engines/quotes.rs for the grammar. -/
import Driver.Util
import WW.Model.Quotes
namespace Driver.Quotes
open WW WW.Quotes Driver

/-- number of asset ids of the engine's cast -/
def NA : Nat := 4

structure QSt where
  cfg : Cfg
  st : St

def showPool (ps : PoolSt) : String :=
  ",".intercalate ([ps.bal false, ps.bal true, ps.pend false, ps.pend true,
    ps.allTime false, ps.allTime true, ps.burned false, ps.burned true].map toString)

def showState (q : QSt) : String :=
  let n := q.cfg.pairs.length
  let ps := (List.range n).map fun i => s!"p{i}={showPool (q.st.pool i)}"
  let r := ",".intercalate ((List.range NA).map fun a => toString (q.st.router a))
  " ".intercalate (ps ++ [s!"r={r}"])

def showComp (c : SwapComp) : String :=
  ",".intercalate ([c.ret, c.spread, c.swapFee, c.protFee, c.burnFee].map toString)

def status {α : Type} : Res α → String
  | .ok _ => "ok"
  | .err => "err"
  | .panic => "panic"

def parseMs (w : String) : Option (Option Nat) :=
  if w == "none" then some none else (w.toNat?).map some

def commaNats? (v : String) : Option (List Nat) := (v.splitOn ",").mapM String.toNat?

/-- `init quotes kinds=… p0=a0,a1,prot,swap,burn,bal0,bal1 …` -/
def init (ws : List String) : Option QSt := do
  let mut specs : List (Nat × List Nat) := []
  let mut kinds : List Bool := [true, true, false, false]
  for w in ws do
    match w.splitOn "=" with
    | [k, v] =>
      if k == "kinds" then
        let ks := v.splitOn ","
        if ks.length != NA || ks.any (fun x => x != "n" && x != "c") then none
        kinds := ks.map (· == "n")
      else if k == "dn" then
        -- denom set of the world (names of the native assets): the model does not look at names
        let _ ← v.toNat?
      else if k.startsWith "p" then
        let idx ← (k.drop 1).toNat?
        let ns ← commaNats? v
        if ns.length != 7 then none
        specs := specs ++ [(idx, ns)]
      else none
    | _ => none
  let n := specs.length
  -- pair ids must be exactly 0..n-1
  let sorted := (List.range n).filterMap fun i => (specs.find? (·.1 == i)).map (·.2)
  if sorted.length != n then none
  let mut pairs : List PairCfg := []
  let mut pools : List PoolSt := []
  for ns in sorted do
    match ns with
    | [a0, a1, pf, sf, bf, b0, b1] =>
      if a0 ≥ NA || a1 ≥ NA || a0 == a1 then none
      pairs := pairs ++ [{ a0 := a0, a1 := a1, fees := { prot := pf, swap := sf, burn := bf } }]
      pools := pools ++ [{ bal := fun k => if k then b1 else b0, pend := fun _ => 0,
                           allTime := fun _ => 0, burned := fun _ => 0 }]
    | _ => none
  let empty : PoolSt := { bal := fun _ => 0, pend := fun _ => 0, allTime := fun _ => 0, burned := fun _ => 0 }
  pure { cfg := { pairs := pairs, native := fun a => kinds.getD a true }, st := { pool := fun i => pools.getD i empty, router := fun _ => 0 } }

def initLine (ws : List String) : Option QSt × String :=
  match init ws with
  | some q => (some q, "ok " ++ showState q)
  | none => (none, "bad-op")

def parseHop (w : String) : Option Hop :=
  match w.splitOn ":" with
  | [x, y] => do
    let x ← x.toNat?
    let y ← y.toNat?
    if x < NA && y < NA then some { offer := x, ask := y } else none
  | _ => none

/-- op lines: `<op> <args…>` -/
def opLine (q : QSt) (ws : List String) : QSt × String :=
  let np := q.cfg.pairs.length
  match ws with
  | ["swap", pi, oa, amt, ms] =>
    match pi.toNat?, oa.toNat?, amt.toNat?, parseMs ms with
    | some pi, some oa, some amt, some ms =>
      if pi < np && oa < NA then
        let sim := simulate q.cfg q.st pi oa amt
        let simtxt := match sim with
          | .ok c => "ok:" ++ showComp c
          | .err => "err"
          | .panic => "panic"
        match executeSwap q.cfg q.st pi oa amt ms false false with
        | .ok (s', c) =>
          let q' := { q with st := s' }
          (q', s!"ok sim={simtxt} ex=ok:{showComp c} recv={c.ret} {showState q'}")
        | .err => (q, s!"err sim={simtxt} ex=err recv=0 {showState q}")
        | .panic => (q, s!"panic sim={simtxt} ex=panic recv=0 {showState q}")
      else (q, "bad-op")
    | _, _, _, _ => (q, "bad-op")
  | "route" :: amt :: ms :: hops =>
    match amt.toNat?, parseMs ms, hops.mapM parseHop with
    | some amt, some ms, some hops =>
      if hops.isEmpty || hops.length > 8 then (q, "bad-op")
      else
        let simtxt := match simulateSwapOperations q.cfg q.st hops amt with
          | .ok a => s!"ok:{a}"
          | .err => "err"
          | .panic => "panic"
        match executeSwapOperations q.cfg q.st hops amt ms with
        | .ok (s', recv) =>
          let q' := { q with st := s' }
          (q', s!"ok sim={simtxt} recv={recv} {showState q'}")
        | .err => (q, s!"err sim={simtxt} recv=0 {showState q}")
        | .panic => (q, s!"panic sim={simtxt} recv=0 {showState q}")
    | _, _, _ => (q, "bad-op")
  | ["donate", pi, a, amt] =>
    match pi.toNat?, a.toNat?, amt.toNat? with
    | some pi, some a, some amt =>
      if pi < np && a < NA then
        match donate q.cfg q.st pi a amt with
        | .ok s' => let q' := { q with st := s' }; (q', "ok " ++ showState q')
        | r => (q, status r ++ " " ++ showState q)
      else (q, "bad-op")
    | _, _, _ => (q, "bad-op")
  | ["fund", a, amt] =>
    match a.toNat?, amt.toNat? with
    | some a, some amt =>
      if a < NA then
        match fund q.cfg q.st a amt with
        | .ok s' => let q' := { q with st := s' }; (q', "ok " ++ showState q')
        | r => (q, status r ++ " " ++ showState q)
      else (q, "bad-op")
    | _, _ => (q, "bad-op")
  | ["replace", pi, b0, b1] =>
    match pi.toNat?, b0.toNat?, b1.toNat? with
    | some pi, some b0, some b1 =>
      if pi < np then
        match replacePair q.cfg q.st pi b0 b1 with
        | .ok s' => let q' := { q with st := s' }; (q', "ok " ++ showState q')
        | r => (q, status r ++ " " ++ showState q)
      else (q, "bad-op")
    | _, _, _ => (q, "bad-op")
  | ["collect", pi] =>
    match pi.toNat? with
    | some pi =>
      if pi < np then
        match collect q.cfg q.st pi with
        | .ok s' => let q' := { q with st := s' }; (q', "ok " ++ showState q')
        | r => (q, status r ++ " " ++ showState q)
      else (q, "bad-op")
    | none => (q, "bad-op")
  | _ => (q, "bad-op")

end Driver.Quotes
