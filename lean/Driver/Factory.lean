/- Line-protocol driver for the `registry` engine (C19): model side of harness/src/engines/registry.rs. -/
import Driver.Util
import WW.Model.Factory
namespace Driver
open WW WW.Factory

structure FacState where
  cfg : Cfg
  st : St

def hexDigit? (c : Char) : Option Nat :=
  if '0' ≤ c ∧ c ≤ '9' then some (c.toNat - '0'.toNat)
  else if 'a' ≤ c ∧ c ≤ 'f' then some (c.toNat - 'a'.toNat + 10)
  else none

def unhexAux : List Char → Option (List Nat)
  | [] => some []
  | [_] => none
  | a :: b :: rest => do
    let x ← hexDigit? a
    let y ← hexDigit? b
    let r ← unhexAux rest
    pure ((x * 16 + y) :: r)

def unhex? (s : String) : Option (List Nat) :=
  if s == "-" then some [] else unhexAux s.toList

def hexChar (n : Nat) : Char := if n < 10 then Char.ofNat (48 + n) else Char.ofNat (87 + n)

def hexOf (b : List Nat) : String :=
  if b.isEmpty then "-" else String.ofList (b.flatMap fun x => [hexChar (x / 16), hexChar (x % 16)])

def parseAsset? (v : String) : Option AssetDef :=
  match v.splitOn ":" with
  | [k, raw, ref, label, dec] => do
    -- n = native denom, c = cw20 token, a = a cw20 token's address in another letter case
    let native ← if k == "n" then some true else if k == "c" || k == "a" then some false else none
    let raw ← unhex? raw
    let ref ← unhex? ref
    let label ← unhex? label
    let dec ← dec.toNat?
    pure { native := native, raw := raw, ref := ref, label := label, dec := dec, dead := k == "a" }
  | _ => none

def joinWith (sep : String) (xs : List String) : String := sep.intercalate xs
def dots (xs : List Nat) : String := joinWith "." (xs.map toString)
def orDash (s : String) : String := if s.isEmpty then "-" else s

def ptypeStr : Option Nat → String
  | none => "cp"
  | some amp => "ss" ++ toString amp

def parsePtype? (s : String) : Option (Option Nat) :=
  if s == "cp" then some none
  else if s.startsWith "ss" then (s.drop 2).toString.toNat?.map some
  else none

def showPair (s : St) (e : PoolEntry) : String :=
  let es := dots e.assets ++ "/" ++ dots e.decs ++ "/" ++ ptypeStr e.ptype ++ "/c" ++ toString e.child ++ "/p" ++ toString e.lp
  let cs := match s.pairs.kids[e.child]? with
    | some c => dots c.assets ++ "/" ++ dots c.decs ++ "/" ++ ptypeStr c.ptype ++ "/p" ++ toString c.lp ++ "/f" ++ (if c.funded then "1" else "0")
    | none => "noreport"
  es ++ "|" ++ cs

def showTrio (s : St) (e : PoolEntry) : String :=
  let es := dots e.assets ++ "/" ++ dots e.decs ++ "/c" ++ toString e.child ++ "/t" ++ toString e.lp
  let cs := match s.trios.kids[e.child]? with
    | some c => dots c.assets ++ "/" ++ dots c.decs ++ "/t" ++ toString c.lp
    | none => "noreport"
  es ++ "|" ++ cs

def showVault (s : St) (e : VaultEntry) : String :=
  toString e.asset ++ "/c" ++ toString e.child ++ "|" ++
    (match s.vaults.kids[e.child]? with | some a => toString a | none => "noreport")

def showInc (cfg : Cfg) (s : St) (k : List Nat) (child : Nat) : String :=
  -- the listing only carries the key bytes; the asset is recovered from the universe
  let a := match cfg.assets.findIdx? (fun x => x.raw == k) with | some i => toString i | none => "99"
  a ++ "/c" ++ toString child ++ "|" ++
    (match s.incs.kids[child]? with | some a => toString a | none => "noreport")

def showHops (hs : List (Nat × Nat)) : String :=
  joinWith "," (hs.map fun h => toString h.1 ++ "-" ++ toString h.2)

def showRoute (e : RouteEntry) : String := hexOf e.lo ++ ">" ++ hexOf e.la ++ ":" ++ showHops e.hops

def body (cfg : Cfg) (s : St) : String :=
  let decs := joinWith "." (cfg.assets.map fun a => match regLookup a.ref s.decs with | some d => toString d | none => "-")
  "decs=" ++ decs ++
  " pairs=" ++ orDash (joinWith ";" (s.pairs.reg.map fun e => showPair s e.2)) ++
  " trios=" ++ orDash (joinWith ";" (s.trios.reg.map fun e => showTrio s e.2)) ++
  " vaults=" ++ orDash (joinWith ";" (s.vaults.reg.map fun e => showVault s e.2)) ++
  " incs=" ++ orDash (joinWith ";" (s.incs.reg.map fun e => showInc cfg s e.1 e.2)) ++
  " routes=" ++ orDash (joinWith ";" (s.routes.map fun e => showRoute e.2)) ++
  " kids=" ++ dots (childCounts cfg s)

def facInit (ws : List String) : Option (FacState × String) := do
  let m := kvs ws
  let n ← lookupNat m "n"
  let assets ← (List.range n).mapM fun i => (m.lookup ("a" ++ toString i)).bind parseAsset?
  let cfg : Cfg := { assets := assets }
  pure ({ cfg := cfg, st := St.init }, "ok " ++ body cfg St.init)

def idx? (n : Nat) (s : String) : Option Nat := s.toNat?.bind fun i => if i < n then some i else none

def parseHops? (n : Nat) (s : String) : Option (List (Nat × Nat)) :=
  if s.isEmpty then some []
  else (s.splitOn ",").mapM fun h =>
    match h.splitOn "-" with
    | [x, y] => do let x ← idx? n x; let y ← idx? n y; pure (x, y)
    | _ => none

def parseRoute? (n : Nat) (s : String) : Option Route :=
  match s.splitOn ":" with
  | [o, a, hs] => do
    let o ← idx? n o
    let a ← idx? n a
    let hops ← parseHops? n hs
    pure { offer := o, ask := a, hops := hops }
  | _ => none

def parseKey? (n : Nat) (s : String) : Option (Nat × Nat) :=
  match s.splitOn ":" with
  | [o, a] => do let o ← idx? n o; let a ← idx? n a; pure (o, a)
  | _ => none

def parseOp? (n : Nat) (ws : List String) : Option Op :=
  match ws with
  | ["add_dec", a, d] => do
    let a ← idx? n a
    let d ← d.toNat?
    if d < 256 then pure (.addDec a d) else none
  | ["create_pair", a, b, t] => do pure (.createPair (← idx? n a) (← idx? n b) (← parsePtype? t))
  | ["create_trio", a, b, c, amp] => do pure (.createTrio (← idx? n a) (← idx? n b) (← idx? n c) (← amp.toNat?))
  | ["remove_pair", a, b] => do pure (.removePair (← idx? n a) (← idx? n b))
  | ["remove_trio", a, b, c] => do pure (.removeTrio (← idx? n a) (← idx? n b) (← idx? n c))
  | ["fund", a, b] => do pure (.fund (← idx? n a) (← idx? n b))
  | ["create_vault", a] => do pure (.createVault (← idx? n a))
  | ["remove_vault", a] => do pure (.removeVault (← idx? n a))
  | ["create_incentive", a] => do pure (.createInc (← idx? n a))
  | "add_routes" :: rs => do pure (.addRoutes (← rs.mapM (parseRoute? n)))
  | "remove_routes" :: ks => do pure (.removeRoutes (← ks.mapM (parseKey? n)))
  | ["swap"] => some (.swap [])
  | ["swap", hs] => do pure (.swap (← parseHops? n hs))
  | ["swap_route", o, a] => do pure (.swapRoute (← idx? n o) (← idx? n a))
  | _ => none

def parseLimit? (s : String) : Option (Option Nat) :=
  if s == "none" then some none else s.toNat?.map some

/-- the asset sets of a page, as the harness prints them -/
def showSets {ε : Type} (f : Bytes × ε → String) (pg : List (Bytes × ε)) : String :=
  orDash (joinWith "," (pg.map f))

def incAsset (cfg : Cfg) (k : List Nat) : String :=
  match cfg.assets.findIdx? (fun x => x.raw == k) with | some i => toString i | none => "99"

/-- `pages <reg> <limit>`: follow the cursors from the start -/
def pagesOp (fs : FacState) (reg : String) (limit : Option Nat) : Option String :=
  let s := fs.st
  let fmt {ε : Type} (f : Bytes × ε → String) (ps : List (List (Bytes × ε))) : String :=
    orDash (joinWith "|" (ps.map (showSets f)))
  match reg with
  | "pairs" =>
    let lim := pageLimit Gen.POOL_FACTORY_DEFAULT_LIMIT Gen.POOL_FACTORY_MAX_LIMIT limit
    some (fmt (fun e => dots e.2.assets) (pagesFrom (s.pairs.reg.length + 3) s.pairs.reg none lim))
  | "trios" =>
    let lim := pageLimit Gen.POOL_FACTORY_DEFAULT_LIMIT Gen.POOL_FACTORY_MAX_LIMIT limit
    some (fmt (fun e => dots e.2.assets) (pagesFrom (s.trios.reg.length + 3) s.trios.reg none lim))
  | "vaults" =>
    let lim := pageLimit Gen.VAULT_FACTORY_DEFAULT_LIMIT Gen.VAULT_FACTORY_MAX_LIMIT limit
    some (fmt (fun e => toString e.2.asset) (pagesFrom (s.vaults.reg.length + 3) s.vaults.reg none lim))
  | "incs" =>
    let lim := pageLimit Gen.INCENTIVE_FACTORY_DEFAULT_LIMIT Gen.INCENTIVE_FACTORY_MAX_LIMIT limit
    some (fmt (fun e => incAsset fs.cfg e.1) (pagesFrom (s.incs.reg.length + 3) s.incs.reg none lim))
  | _ => none

/-- `page <reg> <limit> <cursor>` -/
def pageOp (fs : FacState) (reg : String) (limit : Option Nat) (cur : String) : Option String :=
  let n := fs.cfg.assets.length
  let s := fs.st
  match reg with
  | "pairs" => do
    let c ← (cur.splitOn ".").mapM (idx? n)
    if c.length != 2 then none
    match pairsPage fs.cfg s (some c) limit with
    | .ok pg => some (showSets (fun e => dots e.2.assets) pg)
    | _ => none
  | "trios" => do
    let c ← (cur.splitOn ".").mapM (idx? n)
    if c.length != 3 then none
    match triosPage fs.cfg s (some c) limit with
    | .ok pg => some (showSets (fun e => dots e.2.assets) pg)
    | _ => none
  | "vaults" =>
    if cur.startsWith "x" then do
      let b ← unhex? (cur.drop 1).toString
      some (showSets (fun e => toString e.2.asset) (vaultsPage s (some b) limit))
    else do
      let i ← idx? n cur
      let a ← fs.cfg.assets[i]?
      some (showSets (fun e => toString e.2.asset) (vaultsPage s (some a.ref) limit))
  | "incs" => do
    let i ← idx? n cur
    match incsPage fs.cfg s (some i) limit with
    | .ok pg => some (showSets (fun e => incAsset fs.cfg e.1) pg)
    | _ => none
  | _ => none

def facOp (fs : FacState) (ws : List String) : FacState × String :=
  match ws with
  | ["pages", reg, lim] =>
    match parseLimit? lim with
    | some l =>
      match pagesOp fs reg l with
      | some p => (fs, "ok p=" ++ p ++ " " ++ body fs.cfg fs.st)
      | none => (fs, "bad-op")
    | none => (fs, "bad-op")
  | ["page", reg, lim, cur] =>
    match parseLimit? lim with
    | some l =>
      match pageOp fs reg l cur with
      | some p => (fs, "ok p=" ++ p ++ " " ++ body fs.cfg fs.st)
      | none => (fs, "bad-op")
    | none => (fs, "bad-op")
  | _ =>
    match parseOp? fs.cfg.assets.length ws with
    | none => (fs, "bad-op")
    | some op =>
      match step fs.cfg fs.st op with
      | .ok (s', _) => ({ fs with st := s' }, "ok " ++ body fs.cfg s')
      | .err => (fs, "err " ++ body fs.cfg fs.st)
      | .panic => (fs, "panic " ++ body fs.cfg fs.st)

end Driver
