/- Driver for the constant-product pair model (C01, C07 pair part): `init pair …` histories. -/
import Driver.Util
import WW.Model.Pair
namespace Driver.PairD
open WW WW.Pair

def pr2 (a b : Nat) : String := s!"{a},{b}"

def obs (s : St) : String :=
  let us := (List.range s.users.length).map fun i =>
    let u := s.user i
    s!"u{i}={u.a},{u.b},{u.lp}"
  let pool := match queryPool s with
    | .ok (r0, r1, sp) => s!"{r0},{r1},{sp}"
    | _ => "x"
  s!"b={pr2 s.x0.bal s.x1.bal} pend={pr2 s.x0.pend s.x1.pend} all={pr2 s.x0.allTime s.x1.allTime} " ++
  s!"burn={pr2 s.x0.burned s.x1.burned} col={pr2 s.x0.col s.x1.col} colb={pr2 s.x0.colB s.x1.colB} chg={pr2 s.x0.chg s.x1.chg} " ++
  s!"sent={pr2 s.x0.sent s.x1.sent} brn={pr2 s.x0.brn s.x1.brn} tot={pr2 s.x0.tot s.x1.tot} " ++
  s!"sup={s.sup} lpp={s.lpPair} fees={s.fees.prot},{s.fees.swap},{s.fees.burn} pool={pool} " ++
  " ".intercalate us

def kind? (w : String) : Option Bool :=
  if w == "n" then some true else if w == "c" then some false else none

/-- the curve named by the init line: `curve=cp` (default) or `curve=ss amp=<n> d0=<dec> d1=<dec>`;
    `none` = unparsable, `some none` = amp rejected at instantiate -/
def curveOf (ws : List String) : Option (Option Curve) :=
  let m := kvs ws
  if lookupStr m "curve" "cp" == "cp" then some (some cpCurve)
  else if lookupStr m "curve" == "ss" then
    match lookupNat m "amp", lookupNat m "d0", lookupNat m "d1" with
    | some amp, some d0, some d1 =>
      if amp > U64MAX ∨ d0 > 255 ∨ d1 > 255 then none
      else if Gen.PAIR_MIN_AMP ≤ amp ∧ amp ≤ Gen.PAIR_MAX_AMP then some (some (ssCurve amp d0 d1))
      else some none
    | _, _, _ => none
  else none

/-- `none`: unparsable; `some none`: the pair rejects the configuration at instantiate -/
def initLine (ws : List String) : Option (Option St) :=
  let m := kvs ws
  match kind? (lookupStr m "k0"), kind? (lookupStr m "k1"), lookupNat m "p", lookupNat m "s",
        lookupNat m "b", lookupNat m "n", lookupNat m "a", lookupNat m "bb" with
  | some k0, some k1, some p, some sw, some b, some n, some a, some bb =>
    let f : Fees := { prot := p, swap := sw, burn := b }
    if n = 0 ∨ n > 8 then none
    else if f.valid then
      some (some (init k0 k1 f (List.replicate n { a := a, b := bb, lp := 0 })))
    else some none
  | _, _, _, _, _, _, _, _ => none

def optNat? (w : String) : Option (Option Nat) :=
  if w == "none" then some none else w.toNat?.map some

def parseOp (ws : List String) : Option Op :=
  match ws with
  | ["provide", u, r, a, b, t, _ord] =>
    match u.toNat?, r.toNat?, a.toNat?, b.toNat?, optNat? t with
    | some u, some r, some a, some b, some t => some (.provide u r a b t)
    | _, _, _, _, _ => none
  | ["swap", u, d, o, ms, to] =>
    match u.toNat?, d.toNat?, o.toNat?, optNat? ms, to.toNat? with
    | some u, some d, some o, some ms, some to => some (.swap u d o ms to)
    | _, _, _, _, _ => none
  | ["withdraw", u, a] =>
    match u.toNat?, a.toNat? with
    | some u, some a => some (.withdraw u a)
    | _, _ => none
  | ["collect", _u] => some .collect
  | ["setfees", who, p, s, b] =>
    match p.toNat?, s.toNat?, b.toNat? with
    | some p, some s, some b => some (.setFees (who == "o") { prot := p, swap := s, burn := b })
    | _, _, _ => none
  | ["setcol", who, b] =>
    match b.toNat? with
    | some b => if b ≤ 1 then some (.setCollector (who == "o") (b == 1)) else none
    | none => none
  | ["donate", u, w, a] =>
    match u.toNat?, w.toNat?, a.toNat? with
    | some u, some w, some a => some (.donate u w a)
    | _, _, _ => none
  | ["swapbad", u, d, o, sent] =>
    match u.toNat?, d.toNat?, o.toNat?, sent.toNat? with
    | some u, some d, some o, some sent => some (.swapBad u d o sent)
    | _, _, _, _ => none
  | ["provbad", u, a, b, k] =>
    match u.toNat?, a.toNat?, b.toNat?, k.toNat? with
    | some u, some a, some b, some k => some (.provideBad u a b k)
    | _, _, _, _ => none
  | ["wdirect", u, _denom, a] =>
    match u.toNat?, a.toNat? with
    | some u, some a => some (.foreign 0 u a)
    | _, _ => none
  | ["wfake", u, _asset, a] =>
    match u.toNat?, a.toNat? with
    | some u, some a => some (.foreign 1 u a)
    | _, _ => none
  | ["sfake", u, a] =>
    match u.toNat?, a.toNat? with
    | some u, some a => some (.foreign 2 u a)
    | _, _ => none
  | _ => none

/-- `fund u which amt <op…>`: a message that takes no funds (collect / setfees / setcol) sent with
    coins of native asset `which` attached. On the model this is TWO operations of the history — the
    donation and then the message — or none when either fails (the transaction is atomic). -/
def fundLine (cv : Curve) (s : St) (u w a : Nat) (inner : List String) : St × String :=
  let native := if w == 0 then s.x0.native else s.x1.native
  let allowed := match inner with
    | "collect" :: _ => true
    | "setfees" :: _ => true
    | "setcol" :: _ => true
    | _ => false
  let senderOk := match inner with
    | _ :: who :: _ => who == "o" || who == toString u || who == s!"u{u}"
    | _ => false
  match parseOp inner with
  | none => (s, "bad-op")
  | some op =>
    if w ≥ 2 || !native || !allowed || !senderOk || u ≥ s.users.length then (s, "bad-op")
    else
      match step cv s (.donate u w a) with
      | .ok s1 =>
        match step cv s1 op with
        | .ok s' => (s', "ok " ++ obs s')
        | .err => (s, "err " ++ obs s)
        | .panic => (s, "panic " ++ obs s)
      | .err => (s, "err " ++ obs s)
      | .panic => (s, "panic " ++ obs s)

def opLine (cv : Curve) (s : St) (ws : List String) : St × String :=
  match ws with
  | "fund" :: u :: w :: a :: inner =>
    match u.toNat?, w.toNat?, a.toNat? with
    | some u, some w, some a => fundLine cv s u w a inner
    | _, _, _ => (s, "bad-op")
  | _ =>
  match parseOp ws with
  | none => (s, "bad-op")
  | some op =>
    match step cv s op with
    | .ok s' => (s', "ok " ++ obs s')
    | .err => (s, "err " ++ obs s)
    | .panic => (s, "panic " ++ obs s)

end Driver.PairD
