/- Line-protocol driver for the configuration-bounds model (engine `config`, C18). -/
import Driver.Util
import WW.Model.Config
namespace Driver.ConfigD
open Driver
open WW WW.Config

def parseVia : String → Option Bool
  | "direct" => some false
  | "factory" => some true
  | _ => none

def parseTriple (s : String) : Option Fees3 :=
  match (s.splitOn ",").mapM String.toNat? with
  | some [a, b, c] => some ⟨a, b, c⟩
  | _ => none

/-- `-` = `None`, otherwise the parsed value; outer `none` = parse error -/
def parseOpt {α : Type} (f : String → Option α) (s : String) : Option (Option α) :=
  if s == "-" then some none else (f s).map some

def parseClass : String → Option AssetClass
  | "plain" => some .plain
  | "ibc" => some .ibc
  | "factory" => some .factory
  | "twoslash" => some .twoslash
  | "factorybad" => some .factorybad
  | "ibc2" => some .ibc2
  | "cw20" => some .cw20
  | _ => none

def parseFlag : String → Option Bool
  | "0" => some false
  | "1" => some true
  | _ => none

def parsePairType (s : String) : Option (Option Nat) :=
  if s == "cp" then some none
  else match s.splitOn ":" with
    | ["stable", a] => a.toNat?.map some
    | _ => none

def parseRamp (s : String) : Option (Nat × Nat) :=
  match (s.splitOn ",").mapM String.toNat? with
  | some [a, b] => some (a, b)
  | _ => none

def showFees (f : Fees3) : String := s!"{f.a}/{f.b}/{f.c}"

def enum {α : Type} (xs : List α) : List (Nat × α) := (List.range xs.length).zip xs

def showCfg (c : Cfg) : String :=
  let ps := (enum c.pairs).map fun (i, p) =>
    s!"p{i}={showFees p.fees}/" ++ (match p.amp with | none => "cp" | some a => toString a)
  let ts := (enum c.trios).map fun (i, t) =>
    s!"t{i}={showFees t.fees}/{t.initAmp}/{t.futAmp}/{t.initBlock}/{t.futBlock}"
  let vs := (enum c.vaults).map fun (i, v) => s!"v{i}={showFees v.fees}"
  let d := match c.dist with | none => "d=-" | some d => s!"d={d.grace}/{d.duration}"
  let l := match c.lair with | none => "l=-" | some l => s!"l={l.growth}/{l.nAssets}"
  let k := match c.coll with | none => "c=-" | some k => s!"c={k.take}"
  " ".intercalate (ps ++ ts ++ vs ++ [d, l, k])

def configInit (ws : List String) : Option Cfg × String :=
  match ws, lookupNat (kvs ws) "h" with
  | [_], some h => let c := Cfg.empty h; (some c, "ok " ++ showCfg c)
  | _, _ => (none, "bad-op")

def parseConfigOp (c : Cfg) (ws : List String) : Option Op :=
  let m := kvs ws.tail
  let s := fun k => m.lookup k
  match ws with
  | ["advance", n] => n.toNat?.map Op.advance
  | ["pair_inst", _, _, _, _] => do
    let via ← (← s "via") |> parseVia
    let fees ← (← s "fees") |> parseTriple
    let ty ← (← s "type") |> parsePairType
    let tf ← (← s "tf") |> parseFlag
    pure (.pairInst via fees ty tf)
  | ["pair_upd", _, _, _] => do
    let via ← (← s "via") |> parseVia
    let i ← (← s "i").toNat?
    let fees ← (← s "fees") |> parseOpt parseTriple
    if i < c.pairs.length then pure (.pairUpd via i fees) else none
  | ["trio_inst", _, _, _, _] => do
    let via ← (← s "via") |> parseVia
    let fees ← (← s "fees") |> parseTriple
    let amp ← (← s "amp").toNat?
    let tf ← (← s "tf") |> parseFlag
    pure (.trioInst via fees amp tf)
  | ["trio_upd", _, _, _, _] => do
    let via ← (← s "via") |> parseVia
    let i ← (← s "i").toNat?
    let fees ← (← s "fees") |> parseOpt parseTriple
    let ramp ← (← s "ramp") |> parseOpt parseRamp
    if i < c.trios.length then pure (.trioUpd via i fees ramp) else none
  | ["vault_inst", _, _, _, _] => do
    let via ← (← s "via") |> parseVia
    let fees ← (← s "fees") |> parseTriple
    let a ← (← s "asset") |> parseClass
    let tf ← (← s "tf") |> parseFlag
    pure (.vaultInst via fees a tf)
  | ["vault_inst", _, _, _, _, _] => do
    let via ← (← s "via") |> parseVia
    let fees ← (← s "fees") |> parseTriple
    let a ← (← s "asset") |> parseClass
    let tf ← (← s "tf") |> parseFlag
    let lp ← s "lp"
    if lp == "stock" then pure (.vaultInst via fees a tf false)
    else if lp == "lenient" then pure (.vaultInst via fees a tf true)
    else none
  | ["vault_upd", _, _, _] => do
    let via ← (← s "via") |> parseVia
    let i ← (← s "i").toNat?
    let fees ← (← s "fees") |> parseOpt parseTriple
    if i < c.vaults.length then pure (.vaultUpd via i fees) else none
  | ["vault_upd", _, _, _, _] => do
    -- `tog=…`: switches written by the same message; no configuration bound depends on them (model: ignored)
    let via ← (← s "via") |> parseVia
    let i ← (← s "i").toNat?
    let fees ← (← s "fees") |> parseOpt parseTriple
    let _ ← s "tog"
    if i < c.vaults.length then pure (.vaultUpd via i fees) else none
  | ["dist_inst", _, _] => do
    let g ← (← s "grace").toNat?
    let d ← (← s "dur").toNat?
    pure (.distInst g d)
  | ["dist_upd", _, _] => do
    let g ← (← s "grace") |> parseOpt String.toNat?
    let d ← (← s "dur") |> parseOpt String.toNat?
    pure (.distUpd g d)
  | ["lair_inst", _, _, _] => do
    let r ← (← s "growth").toNat?
    let n ← (← s "n").toNat?
    let k ← (← s "cw20") |> parseFlag
    pure (.lairInst r n (k && decide (n > 0)))
  | ["lair_inst", _, _, _, _] => do
    let r ← (← s "growth").toNat?
    let n ← (← s "n").toNat?
    let k ← (← s "cw20") |> parseFlag
    let via ← s "via"
    if via == "chain" then pure (.lairInst r n (k && decide (n > 0)) true)
    else if via == "entry" then pure (.lairInst r n (k && decide (n > 0)) false)
    else none
  | ["lair_upd", _] => do
    let r ← (← s "growth") |> parseOpt String.toNat?
    pure (.lairUpd r)
  | ["mig", _, _, _] => some .migrate
  | ["coll_inst"] => some .collInst
  | ["coll_upd", _] => do
    let t ← (← s "take") |> parseOpt String.toNat?
    pure (.collUpd t)
  | _ => none

def configOp (c : Cfg) (ws : List String) : Cfg × String :=
  match parseConfigOp c ws with
  | none => (c, "bad-op")
  | some op =>
    match step c op with
    | .ok c' => (c', (if ws.head? == some "mig" then "done " else "ok ") ++ showCfg c')
    | .err => (c, "err " ++ showCfg c)
    | .panic => (c, "panic " ++ showCfg c)

end Driver.ConfigD
