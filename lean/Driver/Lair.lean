/- Line-protocol driver for the whale_lair model (engine `lair`, property C08). Import-free.

   init lair period=<ns> rate=<atomics> genesis=<ns> dur=<ns> users=a,b,.. owner=<name>
             denoms=<whitelisted,..> extra=<other,..> bal=<initial balance per user and denom>
             watch=<addresses that are only observed: never a sender, no balance>  cur=<crate version x.y.z>
   bond     <height> <time_ns> <sender> <denom|@token> <amount> <-|denom:amt,denom:amt>
   unbond   <height> <time_ns> <sender> <denom|@token> <amount> [+denom:amt,denom:amt]
   withdraw <height> <time_ns> <sender> <denom> [+coins]
   config   <height> <time_ns> <sender> <period|-> <rate|-> [+coins]
   send     <height> <time_ns> <sender> <coins>     (plain bank transfer to the contract)
   migrate  <height> <time_ns> <sender> from=<x.y.z>[L]   (stored cw2 version rewritten beforehand; `L`: the
                                                   `config` item rewritten in the 0.8.x layout as well)
   setguard <height> <time_ns> <sender> <0|1>      (the owner points the contract at the real fee distributor (1)
                                                   or at a stub whose guards fail (0))
   The trailing `+coins` token = `info.funds` of a message that does not ask for any.
-/
import Driver.Util
import WW.Model.Lair
namespace Driver
open WW WW.Lair

structure LairDrv where
  cfg : Cfg
  s : St
  users : List String
  /-- all denoms (whitelisted and extra), sorted; the id of a denom is its index -/
  denoms : List String
  guards : Bool
  /-- addresses that are observed only (ids after the users') -/
  watch : List String
  /-- the crate version the harness read from the freshly instantiated contract's cw2 item -/
  cur : Ver

def insStr (x : String) : List String → List String
  | [] => [x]
  | y :: t => if x < y then x :: y :: t else y :: insStr x t

def sortStr (l : List String) : List String := l.foldr insStr []

def idxOf? (x : String) : List String → Option Nat
  | [] => none
  | y :: t => if x == y then some 0 else (idxOf? x t).map (· + 1)

def csv (s : String) : List String := (s.splitOn ",").filter (fun x => !x.isEmpty)

def dash (xs : List String) : String := if xs.isEmpty then "-" else ",".intercalate xs

def resStr {α : Type} (f : α → String) : Res α → String
  | .ok a => f a
  | .err => "err"
  | .panic => "panic"

/-- `count:total` of one `Unbonding` page -/
def pageStr (p : List UnbRec) : String := s!"{p.length}:{sumAmt p}"

/-- walk of the `Unbonding` query with `limit: None` and `start_after` = the last key seen, until a page
    comes back shorter than the default page: (records, Σ total_amount) -/
def walkDefault (s : St) (a d : Nat) : Nat → Option Nat → Nat × Nat → Nat × Nat
  | 0, _, acc => acc
  | fuel + 1, sa, (n, tot) =>
    let p := qUnbondingPage s a d sa none
    let acc := (n + p.length, tot + sumAmt p)
    if p.length < Gen.LAIR_DEFAULT_PAGE_LIMIT then acc
    else walkDefault s a d fuel ((p.getLast?).map (·.ts)) acc

def verStr (v : Ver) : String := s!"{v.major}.{v.minor}.{v.patch}"

def lairObs (d : LairDrv) (now : Nat) (outcome : String) : String :=
  let s := d.s
  let dn (i : Nat) : String := d.denoms.getD i "?"
  let assets (l : List (Nat × Nat)) : String := dash (l.map fun (e, y) => s!"{dn e}:{y}")
  let fd := if !s.fdSet then "empty" else if d.guards then "real" else "stub"
  let head := [outcome,
    s!"P={s.period}/{s.rate}/{d.users.getD d.cfg.owner "?"}/{dash (d.cfg.whitelist.map dn)}/{fd}",
    s!"T={s.global.bonded}/{assets s.global.assets}",
    s!"G={s.global.ts}/{s.global.weight}/{s.global.bonded}/{assets s.global.assets}"]
  let contract := (List.range d.denoms.length).map fun j => s!"C.{dn j}={s.bal j}"
  let addrs := d.users ++ d.watch
  let perUser := (List.range addrs.length).flatMap fun i =>
    let u := addrs.getD i "?"
    let b := resStr (fun (r : Nat × List (Nat × Nat) × Nat) => s!"{r.1}/{r.2.2}/{assets r.2.1}") (qBonded d.cfg s i)
    let q := resStr (fun (r : Nat × Nat × Nat) => s!"{r.1}/{r.2.1}/{r.2.2}") (qWeight s now i)
    [s!"B.{u}={b}", s!"Q.{u}={q}"] ++
    (List.range d.denoms.length).flatMap fun j =>
      let recs := qUnbonding s i j
      let un := s!"{sumAmt recs}/{dash (recs.map fun r => s!"{r.ts}:{r.amount}")}"
      let w := resStr (fun (x : Nat) => toString x) (qWithdrawable s now i j)
      let pages : List String :=
        if recs.isEmpty then []
        else
          let mid := (recs.getD ((recs.length - 1) / 2) ⟨0, 0, 0, 0⟩).ts
          let pa := qUnbondingPage s i j (some mid) none
          let pb := if mid = 0 then [] else qUnbondingPage s i j (some (mid - 1)) (some 1)
          let first (p : List UnbRec) : Nat := (p.head?.map (·.ts)).getD 0
          let wk := walkDefault s i j (recs.length + 1) none (0, 0)
          [s!"V.{u}.{dn j}={pageStr (qUnbondingPage s i j none none)}/{pageStr (qUnbondingPage s i j none (some 255))}/{pageStr pa}:{first pa}/{pageStr pb}:{first pb}/{wk.1}:{wk.2}"]
      [s!"U.{u}.{dn j}={un}"] ++ pages ++ [s!"W.{u}.{dn j}={w}", s!"b.{u}.{dn j}={s.ubal i j}"]
  " ".intercalate (head ++ contract ++ perUser)

def parseVer (w : String) : Option Ver :=
  match w.splitOn "." with
  | [a, b, c] => do
    let a ← a.toNat?
    let b ← b.toNat?
    let c ← c.toNat?
    pure ⟨a, b, c⟩
  | _ => none

def lairInit (ws : List String) : Option (LairDrv × String) := do
  let m := kvs ws
  let period ← lookupNat m "period"
  let rate ← lookupNat m "rate"
  let genesis ← lookupNat m "genesis"
  let dur ← lookupNat m "dur"
  let bal ← lookupNat m "bal"
  let now ← lookupNat m "start"
  let users := csv (lookupStr m "users")
  let wl := csv (lookupStr m "denoms")
  let denoms := sortStr (wl ++ csv (lookupStr m "extra"))
  let owner ← idxOf? (lookupStr m "owner") users
  let wlIds ← wl.mapM fun x => idxOf? x denoms
  if users.isEmpty || wl.isEmpty then none
  let nU := users.length
  let nD := denoms.length
  let cfg : Cfg := { whitelist := wlIds, owner := owner, genesis := genesis, epochDur := dur }
  let s := Lair.init period rate (fun a d => if a < nU ∧ d < nD then bal else 0)
  -- absent on op files written before the engine sent `migrate` (they contain none): every migration refused
  let cur := (parseVer (lookupStr m "cur")).getD ⟨0, 0, 0⟩
  let d : LairDrv := { cfg := cfg, s := s, users := users, denoms := denoms, guards := true,
                       watch := csv (lookupStr m "watch"), cur := cur }
  pure (d, lairObs d now "ok")

def parseAsset (d : LairDrv) (w : String) : Option AssetRef :=
  if w.startsWith "@" then some .token else (idxOf? w d.denoms).map .native

def parseFunds (d : LairDrv) (w : String) : Option (List (Nat × Nat)) :=
  if w == "-" then some []
  else (csv w).mapM fun c =>
    match c.splitOn ":" with
    | [dn, a] => do
      let i ← idxOf? dn d.denoms
      let x ← a.toNat?
      pure (i, x)
    | _ => none

def optNat (w : String) : Option (Option Nat) :=
  if w == "-" then some none else w.toNat?.map some

/-- the trailing `+coins` token of a message that carries funds it does not ask for -/
def parseAttached (d : LairDrv) : List String → Option (List (Nat × Nat))
  | [] => some []
  | [w] => if w.startsWith "+" then parseFunds d (w.drop 1).toString else none
  | _ => none

def parseOp (d : LairDrv) : List String → Option Op
  | ["bond", a, x, f] => do
    let a ← parseAsset d a
    let x ← x.toNat?
    let f ← parseFunds d f
    pure (.bond a x f)
  | "unbond" :: a :: x :: rest => do
    let a ← parseAsset d a
    let x ← x.toNat?
    let c ← parseAttached d rest
    pure (.unbond a x c)
  | "withdraw" :: dn :: rest => do
    let i ← idxOf? dn d.denoms
    let c ← parseAttached d rest
    pure (.withdraw i c)
  | "config" :: p :: r :: rest => do
    let p ← optNat p
    let r ← optNat r
    let c ← parseAttached d rest
    pure (.config p r c)
  | ["send", c] => do
    let c ← parseFunds d c
    pure (.send c)
  | ["migrate", f] =>
    if !f.startsWith "from=" then none
    else
      let v : String := (f.drop 5).toString
      let legacy := v.endsWith "L"
      let v : String := if legacy then (v.dropEnd 1).toString else v
      match parseVer v with
      | none => none
      -- the 0.8.x layout is only ever arranged for a version whose storage migration reads it
      | some st => if legacy && !st.lt V090 then none else some (.migrate st d.cur legacy)
  | _ => none

def lairOp (d : LairDrv) (ws : List String) : LairDrv × String :=
  match ws with
  | opn :: _h :: t :: sender :: args =>
    match t.toNat?, idxOf? sender d.users with
    | some now, some a =>
      match opn :: args with
      | ["setguard", g] =>
        match g.toNat? with
        | some g =>
          -- the owner's `UpdateConfig { fee_distributor_addr }`, whatever the sender column says
          match step d.cfg d.s { now := now, sender := d.cfg.owner, guardsOk := d.guards } .setFd with
          | .ok s' => let d' := { d with guards := g != 0, s := s' }; (d', lairObs d' now "ok")
          | _ => (d, "bad-op")
        | none => (d, "bad-op")
      | rest =>
        match parseOp d rest with
        | none => (d, "bad-op")
        | some op =>
          let e : Env := { now := now, sender := a, guardsOk := d.guards }
          match step d.cfg d.s e op with
          | .ok s' => let d' := { d with s := s' }; (d', lairObs d' now "ok")
          | .err => (d, lairObs d now "err")
          | .panic => (d, lairObs d now "panic")
    | _, _ => (d, "bad-op")
  | _ => (d, "bad-op")

end Driver
