/- Line-protocol driver for the whale_lair model (engine `lair`, property C08). Import-free.

   init lair period=<ns> rate=<atomics> genesis=<ns> dur=<ns> users=a,b,.. owner=<name>
             denoms=<whitelisted,..> extra=<other,..> bal=<initial balance per user and denom>
   bond     <height> <time_ns> <sender> <denom|@token> <amount> <-|denom:amt,denom:amt>
   unbond   <height> <time_ns> <sender> <denom|@token> <amount>
   withdraw <height> <time_ns> <sender> <denom>
   config   <height> <time_ns> <sender> <period|-> <rate|->
   setguard <height> <time_ns> <sender> <0|1>      (environment: the fee distributor's guards pass / fail)
-/
import Driver.Util
import WW.Model.Lair
namespace Driver
open WW WW.Lair

structure LairDrv where
  cfg : Cfg
  s : St
  users : List String
  /-- all denoms (whitelisted and extra), sorted; the id of a denom is its index -/
  denoms : List String
  guards : Bool

def insStr (x : String) : List String → List String
  | [] => [x]
  | y :: t => if x < y then x :: y :: t else y :: insStr x t

def sortStr (l : List String) : List String := l.foldr insStr []

def idxOf? (x : String) : List String → Option Nat
  | [] => none
  | y :: t => if x == y then some 0 else (idxOf? x t).map (· + 1)

def csv (s : String) : List String := (s.splitOn ",").filter (fun x => !x.isEmpty)

def dash (xs : List String) : String := if xs.isEmpty then "-" else ",".intercalate xs

def resStr {α : Type} (f : α → String) : Res α → String
  | .ok a => f a
  | .err => "err"
  | .panic => "panic"

def lairObs (d : LairDrv) (now : Nat) (outcome : String) : String :=
  let s := d.s
  let dn (i : Nat) : String := d.denoms.getD i "?"
  let assets (l : List (Nat × Nat)) : String := dash (l.map fun (e, y) => s!"{dn e}:{y}")
  let head := [outcome, s!"P={s.period}/{s.rate}",
    s!"T={s.global.bonded}/{assets s.global.assets}", s!"G={s.global.ts}/{s.global.weight}"]
  let contract := (List.range d.denoms.length).map fun j => s!"C.{dn j}={s.bal j}"
  let perUser := (List.range d.users.length).flatMap fun i =>
    let u := d.users.getD i "?"
    let b := resStr (fun (r : Nat × List (Nat × Nat) × Nat) => s!"{r.1}/{r.2.2}/{assets r.2.1}") (qBonded d.cfg s i)
    let q := resStr (fun (r : Nat × Nat × Nat) => s!"{r.1}/{r.2.1}/{r.2.2}") (qWeight s now i)
    [s!"B.{u}={b}", s!"Q.{u}={q}"] ++
    (List.range d.denoms.length).flatMap fun j =>
      let recs := qUnbonding s i j
      let un := s!"{sumAmt recs}/{dash (recs.map fun r => s!"{r.ts}:{r.amount}")}"
      let w := resStr (fun (x : Nat) => toString x) (qWithdrawable s now i j)
      [s!"U.{u}.{dn j}={un}", s!"W.{u}.{dn j}={w}", s!"b.{u}.{dn j}={s.ubal i j}"]
  " ".intercalate (head ++ contract ++ perUser)

def lairInit (ws : List String) : Option (LairDrv × String) := do
  let m := kvs ws
  let period ← lookupNat m "period"
  let rate ← lookupNat m "rate"
  let genesis ← lookupNat m "genesis"
  let dur ← lookupNat m "dur"
  let bal ← lookupNat m "bal"
  let now ← lookupNat m "start"
  let users := csv (lookupStr m "users")
  let wl := csv (lookupStr m "denoms")
  let denoms := sortStr (wl ++ csv (lookupStr m "extra"))
  let owner ← idxOf? (lookupStr m "owner") users
  let wlIds ← wl.mapM fun x => idxOf? x denoms
  if users.isEmpty || wl.isEmpty then none
  let nU := users.length
  let nD := denoms.length
  let cfg : Cfg := { whitelist := wlIds, owner := owner, genesis := genesis, epochDur := dur }
  let s := Lair.init period rate (fun a d => if a < nU ∧ d < nD then bal else 0)
  let d : LairDrv := { cfg := cfg, s := s, users := users, denoms := denoms, guards := true }
  pure (d, lairObs d now "ok")

def parseAsset (d : LairDrv) (w : String) : Option AssetRef :=
  if w.startsWith "@" then some .token else (idxOf? w d.denoms).map .native

def parseFunds (d : LairDrv) (w : String) : Option (List (Nat × Nat)) :=
  if w == "-" then some []
  else (csv w).mapM fun c =>
    match c.splitOn ":" with
    | [dn, a] => do
      let i ← idxOf? dn d.denoms
      let x ← a.toNat?
      pure (i, x)
    | _ => none

def optNat (w : String) : Option (Option Nat) :=
  if w == "-" then some none else w.toNat?.map some

def parseOp (d : LairDrv) : List String → Option Op
  | ["bond", a, x, f] => do
    let a ← parseAsset d a
    let x ← x.toNat?
    let f ← parseFunds d f
    pure (.bond a x f)
  | ["unbond", a, x] => do
    let a ← parseAsset d a
    let x ← x.toNat?
    pure (.unbond a x)
  | ["withdraw", dn] => do
    let i ← idxOf? dn d.denoms
    pure (.withdraw i)
  | ["config", p, r] => do
    let p ← optNat p
    let r ← optNat r
    pure (.config p r)
  | _ => none

def lairOp (d : LairDrv) (ws : List String) : LairDrv × String :=
  match ws with
  | opn :: _h :: t :: sender :: args =>
    match t.toNat?, idxOf? sender d.users with
    | some now, some a =>
      match opn :: args with
      | ["setguard", g] =>
        match g.toNat? with
        | some g => let d' := { d with guards := g != 0 }; (d', lairObs d' now "ok")
        | none => (d, "bad-op")
      | rest =>
        match parseOp d rest with
        | none => (d, "bad-op")
        | some op =>
          let e : Env := { now := now, sender := a, guardsOk := d.guards }
          match step d.cfg d.s e op with
          | .ok s' => let d' := { d with s := s' }; (d', lairObs d' now "ok")
          | .err => (d, lairObs d now "err")
          | .panic => (d, lairObs d now "panic")
    | _, _ => (d, "bad-op")
  | _ => (d, "bad-op")

end Driver
