/- Line-protocol driver for the pause-switch model (engine `toggles`, C17). -/
import Driver.Util
import WW.Model.Toggles
namespace Driver.TogglesD
open Driver
open WW WW.Toggles

structure TogglesSt where
  fam : Family
  st : St

def parsePath : String → Option Path
  | "pairProvide" => some .pairProvide
  | "helperDeposit" => some .helperDeposit
  | "pairWithdrawHook" => some .pairWithdrawHook
  | "pairWithdrawDirect" => some .pairWithdrawDirect
  | "pairSwapNative" => some .pairSwapNative
  | "pairSwapCw20Hook" => some .pairSwapCw20Hook
  | "pairSwapDirectCw20" => some .pairSwapDirectCw20
  | "pairHookMalformed" => some .pairHookMalformed
  | "trioHookMalformed" => some .trioHookMalformed
  | "vaultHookMalformed" => some .vaultHookMalformed
  | "routerHopNative" => some .routerHopNative
  | "routerHopCw20" => some .routerHopCw20
  | "routerTwoHop" => some .routerTwoHop
  | "pairCollectFees" => some .pairCollectFees
  | "trioProvide" => some .trioProvide
  | "trioWithdrawHook" => some .trioWithdrawHook
  | "trioWithdrawDirect" => some .trioWithdrawDirect
  | "trioSwapNative" => some .trioSwapNative
  | "trioSwapCw20Hook" => some .trioSwapCw20Hook
  | "trioSwapDirectCw20" => some .trioSwapDirectCw20
  | "trioCollectFees" => some .trioCollectFees
  | "vaultDeposit" => some .vaultDeposit
  | "vaultWithdrawHook" => some .vaultWithdrawHook
  | "vaultWithdrawDirect" => some .vaultWithdrawDirect
  | "vaultFlashLoan" => some .vaultFlashLoan
  | "vaultRouterLoan" => some .vaultRouterLoan
  | "vaultCollectFees" => some .vaultCollectFees
  | "vaultConfigStranger" => some .vaultConfigStranger
  | "vaultCallbackExternal" => some .vaultCallbackExternal
  | _ => none

/-- who borrows: `d` the borrower contract directly, `r` the vault router with the borrower contract
    acting from the router's payload, `rs` the vault router sending the inner message itself -/
def parseOuter : String → Option Path
  | "d" => some .vaultFlashLoan
  | "r" => some .vaultRouterLoan
  | "rs" => some .vaultRouterLoan
  | _ => none

def parseMode : String → Option Mode
  | "p" => some .propagate
  | "c" => some .catch
  | _ => none

def showSw : Option Switch → String
  | some .a => "a"
  | some .b => "b"
  | some .c => "c"
  | none => "-"

def parseFamily : String → Option Family
  | "cp" => some .pair
  | "stable" => some .pair
  | "trio" => some .trio
  | "vnative" => some .vault
  | "vcw20" => some .vault
  | _ => none

def parseBase : String → Option (Res Unit)
  | "ok" => some (.ok ())
  | "err" => some .err
  | "panic" => some .panic
  | _ => none

/-- twin outcomes that may be unobservable (`na`): the inner record of a twin transaction that did not
    commit (then `base` is not `ok` and either value of `inner` yields `base`), and the caught-failure
    reference of a `p`-mode line (unused) -/
def parseBaseNa (dflt : Res Unit) : String → Option (Res Unit)
  | "na" => some dflt
  | s => parseBase s

def bit (b : Bool) : String := if b then "1" else "0"
def showFlags (f : Flags) : String := s!"a={bit f.a} b={bit f.b} c={bit f.c}"

/-- the switch a path names (specification side), printed so that the harness' table and the theorems'
    `Path.names` are compared on every path line -/
def showNamed (p : Path) : String :=
  match p.names with
  | some .a => "named=a"
  | some .b => "named=b"
  | some .c => "named=c"
  | none => "named=-"

def parseBit : String → Option Bool
  | "0" => some false
  | "1" => some true
  | _ => none

/-- `1.2.4` / `1.2.4L` (the `L` marks a world whose storage was put into the layout of that release; the
    model does not look at layouts) -/
def parseVer (w : String) : Option Ver :=
  let w := (w.splitOn "L").headD w
  match nats? (w.splitOn ".") with
  | some [a, b, c] => some ⟨a, b, c⟩
  | _ => none

/-- who sends the migration: `f` the factory's owner through `MigratePair` / `MigrateTrio` / `MigrateVaults`,
    `d` the wasm admin (the factory's address) directly, `s` a stranger through the factory's message -/
def parseVia : String → Option Bool
  | "f" => some true
  | "d" => some true
  | "s" => some false
  | _ => none

/-- `init toggles kind=K funded=F amt=A` (the pool is created with a cw20 LP: `token_factory_lp = false`) -/
def togglesInit (ws : List String) : Option TogglesSt × String :=
  let m := kvs ws
  match parseFamily (lookupStr m "kind"), lookupNat m "funded", lookupNat m "amt" with
  | some fam, some _, some _ =>
    if ws.length != 3 then (none, "bad-op") else
    match instantiate false with
    | .ok s => (some { fam := fam, st := s }, "ok " ++ showFlags s.flags)
    | .err => (none, "err")
    | .panic => (none, "panic")
  | _, _, _ => (none, "bad-op")

def togglesOp (t : TogglesSt) (ws : List String) : TogglesSt × String :=
  match ws with
  | ["set", a, b, c] =>
    match parseBit a, parseBit b, parseBit c with
    | some a, some b, some c =>
      match step (fun _ => .ok ()) t.st (.setFlags true ⟨a, b, c⟩) with
      | .ok s => ({ t with st := s }, "ok " ++ showFlags s.flags)
      | .err => (t, "err " ++ showFlags t.st.flags)
      | .panic => (t, "panic " ++ showFlags t.st.flags)
    | _, _, _ => (t, "bad-op")
  | ["setw", a, b, c] =>
    -- all three switches together with other fields of the same `UpdateConfig` message
    match parseBit a, parseBit b, parseBit c with
    | some a, some b, some c =>
      match step (fun _ => .ok ()) t.st (.setFlags true ⟨a, b, c⟩) with
      | .ok s => ({ t with st := s }, "ok " ++ showFlags s.flags)
      | .err => (t, "err " ++ showFlags t.st.flags)
      | .panic => (t, "panic " ++ showFlags t.st.flags)
    | _, _, _ => (t, "bad-op")
  | ["setp", a, b, c] =>
    let opt := fun (w : String) => if w == "-" then some none else (parseBit w).map some
    match opt a, opt b, opt c with
    | some a, some b, some c =>
      match step (fun _ => .ok ()) t.st (.setPartial true a b c) with
      | .ok s => ({ t with st := s }, "ok " ++ showFlags s.flags)
      | .err => (t, "err " ++ showFlags t.st.flags)
      | .panic => (t, "panic " ++ showFlags t.st.flags)
    | _, _, _ => (t, "bad-op")
  | ["touch"] =>
    match step (fun _ => .ok ()) t.st (.touch true) with
    | .ok s => ({ t with st := s }, "ok " ++ showFlags s.flags)
    | .err => (t, "err " ++ showFlags t.st.flags)
    | .panic => (t, "panic " ++ showFlags t.st.flags)
  | ["path", p, b] =>
    match parsePath p, (kvs [b]).lookup "base" with
    | some p, some bs =>
      match parseBase bs with
      | some base =>
        if p.family != t.fam then (t, "bad-op") else
        match step (fun _ => base) t.st (.call p) with
        | .ok s => ({ t with st := s }, "ok " ++ showFlags s.flags ++ " " ++ showNamed p)
        | .err => (t, "err unchanged=1 " ++ showFlags t.st.flags ++ " " ++ showNamed p)
        | .panic => (t, "panic unchanged=1 " ++ showFlags t.st.flags ++ " " ++ showNamed p)
      | none => (t, "bad-op")
    | _, _ => (t, "bad-op")
  | ["inloan", o, p, m, rep, b, ib, fb] =>
    -- a flash loan whose borrower sends vault message `p` from inside the callback; `rep` (repayment
    -- exact / generous) only selects the twin outcomes
    if rep != "x" && rep != "g" then (t, "bad-op") else
    let m3 := kvs [b, ib, fb]
    match parseOuter o, parsePath p, parseMode m, m3.lookup "base", m3.lookup "ibase", m3.lookup "fbase" with
    | some outer, some inner, some mode, some bs, some ibs, some fbs =>
      match parseBase bs, parseBaseNa (.ok ()) ibs, parseBaseNa .err fbs with
      | some base, some ibase, some fbase =>
        if t.fam != .vault || inner.family != .vault || (o == "rs" && mode != .propagate) then (t, "bad-op") else
        let lb : LoanBase := { inner := ibase, done := base, caught := fbase }
        let r := stepInLoan t.st outer inner mode lb
        let named := s!"named={showSw outer.names}/{showSw inner.names}"
        match step (fun _ => .ok ()) t.st (.inLoan outer inner mode lb) with
        | .ok s =>
          let i := match r.inner with | some true => "ok" | some false => "err" | none => "-"
          ({ t with st := s }, "ok " ++ showFlags s.flags ++ " " ++ named ++ " inner=" ++ i)
        | .err => (t, "err unchanged=1 " ++ showFlags t.st.flags ++ " " ++ named)
        | .panic => (t, "panic unchanged=1 " ++ showFlags t.st.flags ++ " " ++ named)
      | _, _, _ => (t, "bad-op")
    | _, _, _, _, _, _ => (t, "bad-op")
  | ["migrate", via, fromV, cur, b] =>
    -- the `migrate` entry point on a contract whose stored cw2 version was set to `fromV`; `cur` is the
    -- crate's version (read by the harness from the cw2 item `instantiate` wrote), `base` what the same
    -- migration did on the never-paused twin
    let m2 := kvs [cur, b]
    match parseVia via, parseVer fromV, (m2.lookup "cur").bind parseVer, (m2.lookup "base").bind parseBase with
    | some byAdmin, some stored, some crate, some body =>
      match step (fun _ => .ok ()) t.st (.migrate byAdmin stored crate body) with
      | .ok s => ({ t with st := s }, "ok " ++ showFlags s.flags)
      | .err => (t, "err unchanged=1 " ++ showFlags t.st.flags)
      | .panic => (t, "panic unchanged=1 " ++ showFlags t.st.flags)
    | _, _, _, _ => (t, "bad-op")
  | _ => (t, "bad-op")

end Driver.TogglesD
