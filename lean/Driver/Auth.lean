/- C16 driver: `auth <contract> <Variant> <role> <phase> <payload-seed> [<object>]` -> the model's verdict.
   `ok`  = the authorisation layer of the target admits the sender (the real call may still fail later
           for payload reasons);  `err` = rejected as unauthorised.
   `nested=1` = admitted by the target, but a hub contract the target calls as itself refuses it
   (e.g. the factory forwarding UpdateConfig to a pair whose ownership was transferred away, the vault
   router borrowing from a vault that has a loan in flight).
   Stateless: the phase token selects the state (`before` = genesis, `after` = after the transfer script,
   `inloan` = genesis with a flash loan of the vault in flight). The object token is present exactly for
   the messages that name a stored flow (incentive CloseFlow) and says which one. -/
import Driver.Util
import WW.Model.Auth
namespace Driver
open WW WW.Auth

def authVerdict (m : Msg) (role : Role) (s : St) (sel : FlowSel) : String :=
  if admits s m sel role then
    "ok nested=" ++ (if nestedRefusal s m sel role then "1" else "0")
  else "err nested=0"

def authLine (ws : List String) : String :=
  match ws with
  | [c, v, r, phase, seed] =>
    match Msg.ofNames c v, Role.ofName r, phaseState phase, seed.toNat? with
    | some m, some role, some s, some _ => if m.namesFlow then "bad-op" else authVerdict m role s .none
    | _, _, _, _ => "bad-op"
  | [c, v, r, phase, seed, obj] =>
    match Msg.ofNames c v, Role.ofName r, phaseState phase, seed.toNat?, FlowSel.ofName obj with
    | some m, some role, some s, some _, some sel => if m.namesFlow then authVerdict m role s sel else "bad-op"
    | _, _, _, _, _ => "bad-op"
  | _ => "bad-op"

/-- `authrule <contract> <Variant>` -> the table entry (for audits / the evidence file) -/
def authRuleLine (ws : List String) : String :=
  match ws with
  | [c, v] =>
    match Msg.ofNames c v with
    | some m => match requires m with
      | some rule => "ok rule=" ++ rule.name
      | none => "ok rule=none"
    | none => "bad-op"
  | _ => "bad-op"

end Driver
