/- C16 driver: `auth <contract> <Variant> <role> <phase> <payload-seed>` -> the model's verdict.
   `ok`  = the authorisation layer of the target admits the sender (the real call may still fail later
           for payload reasons);  `err` = rejected as unauthorised.
   `nested=1` = admitted by the target, but a hub contract the target calls as itself refuses it
   (e.g. the factory forwarding UpdateConfig to a pair whose ownership was transferred away).
   Stateless: the phase token selects the state (`before` = genesis, `after` = after the transfer script). -/
import Driver.Util
import WW.Model.Auth
namespace Driver
open WW WW.Auth

def authState (phase : String) : Option St :=
  if phase == "before" then some St.init
  else if phase == "after" then St.afterTransfer.toOption
  else none

def authLine (ws : List String) : String :=
  match ws with
  | [c, v, r, phase, seed] =>
    match Msg.ofNames c v, Role.ofName r, authState phase, seed.toNat? with
    | some m, some role, some s, some _ =>
      if admits s m role then
        "ok nested=" ++ (if nestedRefusal s m role then "1" else "0")
      else "err nested=0"
    | _, _, _, _ => "bad-op"
  | _ => "bad-op"

/-- `authrule <contract> <Variant>` -> the table entry (for audits / the evidence file) -/
def authRuleLine (ws : List String) : String :=
  match ws with
  | [c, v] =>
    match Msg.ofNames c v with
    | some m => match requires m with
      | some rule => "ok rule=" ++ rule.name
      | none => "ok rule=none"
    | none => "bad-op"
  | _ => "bad-op"

end Driver
