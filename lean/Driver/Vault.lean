/- Line-protocol driver for the vault model (engine `vault`). -/
import Driver.Util
import WW.Model.Vault
namespace Driver.VaultDrv
open WW WW.Vault

/-- parse a natural number prefix -/
def takeNat : List Char → Option (Nat × List Char)
  | cs =>
    let ds := cs.takeWhile Char.isDigit
    if ds.isEmpty then none else (String.ofList ds).toNat?.map (·, cs.dropWhile Char.isDigit)

def expect (c : Char) : List Char → Option (List Char)
  | d :: cs => if c = d then some cs else none
  | [] => none

mutual
/-- `[act;act;…]`, fuel-bounded recursive descent -/
def parseList : Nat → List Char → Option (List Act × List Char)
  | 0, _ => none
  | fuel + 1, cs =>
    match cs with
    | '[' :: ']' :: rest => some ([], rest)
    | '[' :: rest => parseItems fuel rest
    | _ => none
def parseItems : Nat → List Char → Option (List Act × List Char)
  | 0, _ => none
  | fuel + 1, cs =>
    match parseAct fuel cs with
    | none => none
    | some (a, rest) =>
      match rest with
      | ';' :: rest' =>
        match parseItems fuel rest' with
        | some (as, r) => some (a :: as, r)
        | none => none
      | ']' :: rest' => some ([a], rest')
      | _ => none
def parseAct : Nat → List Char → Option (Act × List Char)
  | 0, _ => none
  | fuel + 1, cs =>
    let word := cs.takeWhile Char.isAlpha
    let rest := cs.dropWhile Char.isAlpha
    match String.ofList word with
    | "collect" => some (.collect, rest)
    | "fail" => some (.fail, rest)
    -- guarded vault entry points sent by the borrower from inside its callback (`Callback(AfterTrade)`,
    -- `UpdateConfig`, direct `Withdraw {}`): the vault refuses them whatever the loan state, which on the
    -- model is a message that errors (and takes the loan with it)
    | "xcfg" => some (.fail, rest)
    | "xwd" => some (.fail, rest)
    | "xcb" => do
        let r ← expect ':' rest; let (_, r) ← takeNat r
        let r ← expect ':' r; let (_, r) ← takeNat r
        pure (.fail, r)
    -- the router's `NextLoan` sent by the borrower contract naming itself as the source vault: refused
    | "xnx" => do
        let r ← expect ':' rest; let (_, r) ← takeNat r
        let r ← expect ':' r; let (_, r) ← takeNat r
        pure (.fail, r)
    | "pay" => do let r ← expect ':' rest; let (n, r) ← takeNat r; pure (.pay n, r)
    | "dep" => do let r ← expect ':' rest; let (n, r) ← takeNat r; pure (.deposit n, r)
    | "wd" => do let r ← expect ':' rest; let (n, r) ← takeNat r; pure (.withdraw n, r)
    | "out" => do
        let r ← expect ':' rest; let (t, r) ← takeNat r
        let r ← expect ':' r; let (n, r) ← takeNat r
        pure (.transferOut t n, r)
    | "loan" => do
        let r ← expect ':' rest; let (n, r) ← takeNat r
        let r ← expect ':' r
        let (cb, r) ← parseList fuel r
        pure (.loan n cb, r)
    | _ => none
end

def parseActs (s : String) : Option (List Act) :=
  match parseList (4 * s.length + 8) s.toList with
  | some (as, []) => some as
  | _ => none

mutual
/-- router payload `[ract;ract;…]`, fuel-bounded recursive descent -/
def parseRList : Nat → List Char → Option (List RAct × List Char)
  | 0, _ => none
  | fuel + 1, cs =>
    match cs with
    | '[' :: ']' :: rest => some ([], rest)
    | '[' :: rest => parseRItems fuel rest
    | _ => none
def parseRItems : Nat → List Char → Option (List RAct × List Char)
  | 0, _ => none
  | fuel + 1, cs =>
    match parseRAct fuel cs with
    | none => none
    | some (a, rest) =>
      match rest with
      | ';' :: rest' =>
        match parseRItems fuel rest' with
        | some (as, r) => some (a :: as, r)
        | none => none
      | ']' :: rest' => some ([a], rest')
      | _ => none
def parseRAct : Nat → List Char → Option (RAct × List Char)
  | 0, _ => none
  | fuel + 1, cs =>
    let word := cs.takeWhile Char.isAlpha
    let rest := cs.dropWhile Char.isAlpha
    match String.ofList word with
    | "collect" => some (.collect, rest)
    | "fail" => some (.fail, rest)
    | "fund" => do let r ← expect ':' rest; let (n, r) ← takeNat r; pure (.fund n, r)
    | "pay" => do let r ← expect ':' rest; let (n, r) ← takeNat r; pure (.pay n, r)
    | "dep" => do let r ← expect ':' rest; let (n, r) ← takeNat r; pure (.deposit n, r)
    | "out" => do
        let r ← expect ':' rest; let (t, r) ← takeNat r
        let r ← expect ':' r; let (n, r) ← takeNat r
        pure (.out t n, r)
    | "complete" => do
        let r ← expect ':' rest; let (t, r) ← takeNat r
        let r ← expect ':' r; let (n, r) ← takeNat r
        pure (.complete t n, r)
    | "adv" => do
        let r ← expect ':' rest
        let (cb, r) ← parseList fuel r
        pure (.adv cb, r)
    | "rloan" => do
        -- a router FlashLoan sent from inside a payload: the sender (initiator) is the router itself
        let r ← expect ':' rest; let (n, r) ← takeNat r
        let r ← expect ':' r
        let (pl, r) ← parseRList fuel r
        pure (.routerLoan 5 n pl, r)
    | _ => none
end

def parseRActs (s : String) : Option (List RAct) :=
  match parseRList (4 * s.length + 8) s.toList with
  | some (as, []) => some as
  | _ => none

def commaNats (s : String) : Option (List Nat) := (s.splitOn ",").mapM String.toNat?

def showList (l : List Nat) : String := ",".intercalate (l.map toString)

def b2n (b : Bool) : Nat := if b then 1 else 0

def showObs (s : St) : String :=
  let shareAmt := if s.sup ≥ 1000000 then 1000000 else s.sup
  let share := if s.sup = 0 then "na" else toString (shareOf s shareAmt)
  s!"bal={s.bal} pend={s.pend} all={s.allTime} burned={s.burned} sup={s.sup} lpv={s.lpVault} ctr={s.ctr} " ++
  s!"ab={showList s.ab} lb={showList s.lb} asup={s.assetSupply} share={share} pb={payback s 1000000007} " ++
  s!"tog={b2n s.depOn}{b2n s.wdOn}{b2n s.flOn} fees={s.fees.prot},{s.fees.flash},{s.fees.burn} " ++
  s!"junk={showList s.jb}"

def initSt (ws : List String) : Option St := do
  let m := kvs ws
  let kind ← lookupNat m "kind"
  let p ← lookupNat m "p"
  let f ← lookupNat m "f"
  let b ← lookupNat m "b"
  let bals ← commaNats (lookupStr m "bals")
  if bals.length ≠ 6 then none
  else some (Vault.init kind { prot := p, flash := f, burn := b } bals)

def parseBase (ws : List String) : Option Op :=
  match ws with
  | ["deposit", a, b, c] => do pure (.deposit (← a.toNat?) (← b.toNat?) (← c.toNat?))
  | ["withdraw", a, b] => do pure (.withdraw (← a.toNat?) (← b.toNat?))
  | ["collect"] => some .collect
  | ["setfees", a, b, c] => do pure (.setFees { prot := ← a.toNat?, flash := ← b.toNat?, burn := ← c.toNat? })
  | ["toggles", a, b, c] => do pure (.setToggles ((← a.toNat?) != 0) ((← b.toNat?) != 0) ((← c.toNat?) != 0))
  | ["loan", n, cb] => do pure (.loan (← n.toNat?) (← parseActs cb))
  | ["donate", a, b] => do pure (.donate (← a.toNat?) (← b.toNat?))
  | ["rloan", i, n, pl] => do pure (.routerLoan (← i.toNat?) (← n.toNat?) (← parseRActs pl))
  | ["rloan0", w, pl] => do pure (.routerLoanNone (← w.toNat?) (← parseRActs pl))
  | ["rloan2", w, a, b, pl] => do pure (.routerLoanMulti (← w.toNat?) (← a.toNat?) (← b.toNat?) (← parseRActs pl))
  | ["rfund", a, b] => do pure (.fundRouter (← a.toNat?) (← b.toNat?))
  | ["xnext", w, n, pl] => do pure (.nextLoanBy (← w.toNat?) (← n.toNat?) (← parseRActs pl))
  -- … the stranger naming itself as the source vault: refused all the same
  | ["xnext", w, n, pl, "self"] => do pure (.nextLoanBy (← w.toNat?) (← n.toNat?) (← parseRActs pl))
  | ["xcomplete", w, i, n] => do pure (.completeLoanBy (← w.toNat?) (← i.toNat?) (← n.toNat?))
  -- entry points a cw20-LP vault refuses: direct `Withdraw {}` (`sel` = attached coins), `Withdraw`
  -- hook from the asset token, `Callback(AfterTrade)` from an ordinary account
  | ["wdirect", w, sel, n] => do
    let w ← w.toNat?; let sel ← sel.toNat?; let n ← n.toNat?
    if w ≥ 4 ∨ sel > 3 then none else pure (.foreign 0 w sel n)
  | ["wfake", w, n] => do
    let w ← w.toNat?; let n ← n.toNat?
    if w ≥ 4 then none else pure (.foreign 1 w n 0)
  | ["xafter", w, old, n] => do
    let w ← w.toNat?; let old ← old.toNat?; let n ← n.toNat?
    if w ≥ 4 then none else pure (.foreign 2 w old n)
  | _ => none

/-- the sender of a message (who pays coins attached to it): 0..3 the accounts, 6 the vault's owner;
    `none`: not a message that can carry a stray-coin suffix -/
def senderOf : Op → Option Nat
  | .deposit w _ _ => some w
  | .collect => some 1
  | .setFees _ => some 6
  | .setToggles _ _ _ => some 6
  | .loan _ _ => some 3
  | .routerLoan w _ _ => some w
  | .routerLoanNone w _ => some w
  | .routerLoanMulti w _ _ _ => some w
  | .nextLoanBy w _ _ => some w
  | .completeLoanBy w _ _ => some w
  | .foreign 2 w _ _ => some w
  | _ => none

/-- `+<sel>:<amount>`: sel 0 = the vault asset's own native denom, 1 = the unrelated denom -/
def parseStray (t : String) : Option (Nat × Nat) :=
  match t.toList with
  | '+' :: rest =>
    match (String.ofList rest).splitOn ":" with
    | [a, b] => do
      let sel ← a.toNat?; let n ← b.toNat?
      if sel > 1 ∨ n = 0 then none else pure (sel, n)
    | _ => none
  | _ => none

/-- an op line, optionally ending in a stray-coin token `+<sel>:<amount>` (coins attached to the
    message by its sender). Coins of the asset's denom attached to a native vault's `Deposit` are the
    deposit's `sent`. -/
def parseOp (s : St) (ws : List String) : Option Op :=
  match ws.getLast? with
  | none => none
  | some t =>
    if t.startsWith "+" then do
      let (sel, n) ← parseStray t
      let op ← parseBase ws.dropLast
      let who ← senderOf op
      match op with
      | .deposit w a sent =>
        if sel = 0 ∧ s.kind = 0 then pure (.deposit w a (sent + n)) else pure (.attach who sel n op)
      | _ => pure (.attach who sel n op)
    else parseBase ws

def stepLine (s : St) (ws : List String) : St × String :=
  match parseOp s ws with
  | none => (s, "bad-op")
  | some op =>
    match step s op with
    | some s' => (s', "ok " ++ showObs s')
    | none => (s, "err " ++ showObs s)

end Driver.VaultDrv
