/- Line-protocol driver for the incentive model (engine `incentive`): same grammar as
   harness/src/engines/incentive.rs. Import-free apart from the model. -/
import Driver.Util
import WW.Model.HelperReentry
namespace Driver.Incentive
open WW WW.Inc Driver

structure DSt where
  cfg : Cfg
  st : St
  epoch : Nat

def actors : List (String × Nat) := [("alice", 1), ("bob", 2), ("carol", 3), ("dave", 4), ("owner", 5), ("mallory", 6)]
def accts : List (String × Nat) :=
  [("inc", 0), ("alice", 1), ("bob", 2), ("carol", 3), ("dave", 4), ("owner", 5), ("mallory", 6), ("collector", 7),
   ("helper", 8), ("pair", 9)]

def acctName (a : Nat) : String :=
  match accts.find? (fun p => p.2 == a) with
  | some p => p.1
  | none => "?"

def BAL0 : Nat := 2 ^ 125

/-- asset ids of the observation: the five assets and their wrong-kind look-alikes -/
def assetIds : List Nat := [0, 1, 2, 3, 4, 5, 6, 7, 8, 9]

/-- every actor holds 2^125 of the five assets and of the native look-alikes of the cw20 ones -/
def initBal (c : Cfg) : Bal :=
  let one (who : Nat) : Bal :=
    [0, 1, 2, 3, 4].map (fun a => ((who, a), BAL0))
      ++ ([5, 6, 7, 8, 9].filter (fun a => c.native a)).map (fun a => ((who, a), BAL0))
  (one 1) ++ (one 2) ++ (one 3) ++ (one 4) ++ (one 5) ++ (one MALLORY) ++ [((PAIR, 0), BAL0)]

/-- insertion sort on a key -/
def insertBy {α : Type} (lt : α → α → Bool) (x : α) : List α → List α
  | [] => [x]
  | y :: t => if lt x y then x :: y :: t else y :: insertBy lt x t
def sortBy {α : Type} (lt : α → α → Bool) (l : List α) : List α := l.foldr (insertBy lt) []

def lt3 (x y : Nat × Nat × Nat) : Bool :=
  x.1 < y.1 || (x.1 == y.1 && (x.2.1 < y.2.1 || (x.2.1 == y.2.1 && x.2.2 < y.2.2)))

def join (sep : String) (l : List String) : String := sep.intercalate l
def dashIfEmpty (s : String) : String := if s.isEmpty then "-" else s

def showQ {α : Type} (f : α → String) : Res α → String
  | .ok a => f a
  | .err => "ERR"
  | .panic => "PANIC"

def showPos (s : St) (u : Nat) : String :=
  showQ (fun (ow : List (Nat × Nat × Nat)) =>
    let o := (sortBy lt3 ow).map (fun x => s!"o{x.1}:{x.2.1}:{x.2.2}")
    let cl := (closedOf s u).map (fun p => (p.ts, p.amt, 0))
    let c := (sortBy lt3 cl).map (fun x => s!"c{x.2.1}:{x.1}")
    dashIfEmpty (join "," (o ++ c))) (qOpenWeights (openOf s u))

def showShare (s : St) (u epoch : Nat) : String :=
  showQ (fun (x : Nat × Nat × Nat) => s!"{x.1}:{x.2.1}:{x.2.2}") (qShare s u epoch)

def showRewards (s : St) (u epoch : Nat) : String :=
  showQ (fun (l : List (Nat × Nat)) => dashIfEmpty (join "," (l.map (fun p => s!"{p.1}:{p.2}")))) (getRewards s u epoch)

def showFlow (f0 : Flow) : String :=
  let f := f0
  let h := (sortBy (fun (x y : Nat × (Nat × Nat)) => x.1 < y.1) f.hist).map (fun p => s!"{p.1}>{p.2.1}>{p.2.2}")
  let e := (sortBy (fun (x y : Nat × Nat) => x.1 < y.1) f.emitted).map (fun p => s!"{p.1}>{p.2}")
  s!"{f.id}:a{f.asset}:{acctName f.creator}:{f.amount}:{f.claimed}:{f.startE}:{f.endE}:h[{join "|" h}]:e[{join "|" e}]"

def observe (outcome : String) (d : DSt) : String :=
  let s := d.st
  let ep := d.epoch
  let snap := match alook s.snap ep with
    | some g => toString g
    | none => "none"
  let aw := join "," (actors.map (fun p => toString (aget s.addrW p.2)))
  let pos := actors.map (fun p => s!" pos.{p.1}={showPos s p.2}")
  let sh := actors.map (fun p => s!" sh.{p.1}={showShare s p.2 ep}")
  let rw := actors.map (fun p => s!" rw.{p.1}={showRewards s p.2 ep}")
  let fl := dashIfEmpty (join ";" (s.flows.map showFlow))
  let bal := accts.map (fun p =>
    s!" b.{p.1}=" ++ join "," (assetIds.map (fun a => toString (balOf s p.2 a))))
  s!"{outcome} ep={ep} gw={s.global} snap={snap} aw={aw}" ++ String.join pos ++ String.join sh ++ String.join rw
    ++ s!" fl={fl}" ++ String.join bal

def initLine (ws : List String) : Option DSt × String :=
  let m := kvs ws
  let r : Option DSt := do
    let lpNative ← (match lookupStr m "lp" with
      | "native" => some true
      | "cw20" => some false
      | _ => none)
    let fee ← lookupNat m "fee"
    let feeamt ← lookupNat m "feeamt"
    let maxflows ← lookupNat m "maxflows"
    let buffer ← lookupNat m "buffer"
    let mindur ← lookupNat m "mindur"
    let maxdur ← lookupNat m "maxdur"
    let e0 ← lookupNat m "e0"
    let cfg : Cfg := { lpNative := lpNative, feeAsset := fee, feeAmt := feeamt, maxFlows := maxflows,
                       buffer := buffer, minDur := mindur, maxDur := maxdur }
    if fee ≥ 10 || cfg.dead fee || maxflows = 0 || mindur > maxdur then none
    else
      some { cfg := cfg, st := Inc.init e0 (initBal cfg), epoch := e0 }
  match r with
  | some d => (some d, observe "ok" d)
  | none => (none, "bad-op")

def actorId (s : String) : Option Nat := (actors.find? (fun p => p.1 == s)).map (·.2)

def optNat (s : String) : Option (Option Nat) := if s == "-" then some none else s.toNat?.map some
def optActor (s : String) : Option (Option Nat) := if s == "-" then some none else (actorId s).map some

/-- offers: any of the ten asset ids except a token that does not exist (no allowance can be given on it) -/
def parseOffers (c : Cfg) : List String → List (Nat × Nat) → Option (List (Nat × Nat))
  | [], acc => some acc.reverse
  | t :: ts, acc =>
    match t.splitOn ":" with
    | [x, y] =>
      match x.toNat?, y.toNat? with
      | some a, some v =>
        if a ≥ 10 || c.dead a || v = 0 || acc.any (fun o => o.1 == a) then none else parseOffers c ts ((a, v) :: acc)
      | _, _ => none
    | _ => none

def parseOp (name : String) (args : List String) : Option (Op × List String) :=
  match name, args with
  | "open_position", a :: d :: r :: rest => do
    let a ← a.toNat?; let d ← d.toNat?; let r ← optActor r
    pure (.openPos a d r, rest)
  | "expand_position", a :: d :: r :: rest => do
    let a ← a.toNat?; let d ← d.toNat?; let r ← optActor r
    pure (.expandPos a d r, rest)
  | "close_position", d :: rest => do
    let d ← d.toNat?
    pure (.closePos d, rest)
  | "withdraw", rest => some (.withdraw, rest)
  | "claim", rest => some (.claim, rest)
  | "snapshot", rest => some (.snapshot, rest)
  | "open_flow", a :: v :: s :: e :: rest => do
    let a ← a.toNat?; let v ← v.toNat?; let s ← optNat s; let e ← optNat e
    if a ≥ 10 then none else pure (.openFlow a v s e, rest)
  | "expand_flow", i :: a :: v :: e :: rest => do
    let i ← i.toNat?; let a ← a.toNat?; let v ← v.toNat?; let e ← optNat e
    if a ≥ 10 then none else pure (.expandFlow i a v e, rest)
  | "close_flow", i :: rest => do
    let i ← i.toNat?
    pure (.closeFlow i, rest)
  | "helper_deposit", a0 :: a1 :: d :: rest => do
    let a0 ← a0.toNat?; let a1 ← a1.toNat?; let d ← d.toNat?
    pure (.helperDeposit a0 a1 d, rest)
  | "helper_deposit_as", x0 :: x1 :: a0 :: a1 :: d :: rest => do
    let x0 ← x0.toNat?; let x1 ← x1.toNat?; let a0 ← a0.toNat?; let a1 ← a1.toNat?; let d ← d.toNat?
    if !((x0 = 1 || x0 = 6) && (x1 = 3 || x1 = 8)) || (x0 = 1 && x1 = 3) then none
    else pure (.helperDepositAs x0 x1 a0 a1 d, rest)
  | _, _ => none

/-- `<t1|t2|t3|t4> <plain|catch> <inner op> [offers] -- <outer op> [offers]`: hook (sent by mallory), outer op, outer offers -/
def parseReenter (c : Cfg) (args : List String) : Option (Hook × Op × List (Nat × Nat)) :=
  match args with
  | t :: m :: rest => do
    let trig ← (match t with
      | "t1" => some 1
      | "t2" => some 2
      | "t3" => some 3
      | "t4" => some 4
      | _ => none)
    let catch_ ← (match m with
      | "plain" => some false
      | "catch" => some true
      | _ => none)
    let inner := rest.takeWhile (fun x => x != "--")
    let outer := (rest.dropWhile (fun x => x != "--")).drop 1
    match inner, outer with
    | iname :: iargs, oname :: oargs => do
      let (iop, irest) ← parseOp iname iargs
      let ioffers ← parseOffers c irest []
      let (oop, orest) ← parseOp oname oargs
      let offers ← parseOffers c orest []
      pure ({ trig := trig, catch_ := catch_, sender := MALLORY, offers := ioffers, inner := iop }, oop, offers)
    | _, _ => none
  | _ => none

def reenterLine (d : DSt) (ep tm who : String) (args : List String) : DSt × String :=
  let r : Option (Env × Hook × Op) := do
    let ep ← ep.toNat?
    let tm ← tm.toNat?
    let who ← actorId who
    let (hk, op, offers) ← parseReenter d.cfg args
    pure ({ epoch := ep, time := tm, sender := who, offers := offers }, hk, op)
  match r with
  | none => (d, "bad-op")
  | some (e, hk, op) =>
    let d := { d with epoch := e.epoch }
    match stepTx d.cfg d.st e (.reenter hk op) with
    | .ok (s', f) => let d' := { d with st := s' }; (d', observe "ok" d' ++ s!" fired={f}")
    | .err => (d, observe "err" d ++ " fired=-")
    | .panic => (d, observe "panic" d ++ " fired=-")

def opLine (d : DSt) (ws : List String) : DSt × String :=
  match ws with
  | ep :: tm :: who :: "reenter" :: args => reenterLine d ep tm who args
  | ep :: tm :: who :: name :: args =>
    let r : Option (Env × Op) := do
      let ep ← ep.toNat?
      let tm ← tm.toNat?
      let who ← actorId who
      let (op, rest) ← parseOp name args
      let offers ← parseOffers d.cfg rest []
      pure ({ epoch := ep, time := tm, sender := who, offers := offers }, op)
    match r with
    | none => (d, "bad-op")
    | some (e, op) =>
      let d := { d with epoch := e.epoch }
      match step d.cfg d.st e op with
      | .ok s' => let d' := { d with st := s' }; (d', observe "ok" d')
      | .err => (d, observe "err" d)
      | .panic => (d, observe "panic" d)
  | _ => (d, "bad-op")

end Driver.Incentive
