/- Line-protocol driver of the `feeflow` engine (C07, C09, C10): parses the op lines (including the `@k=v`
   answers recorded from the real run and the trailing stray-coin tokens `+<asset>:<amount>` / `+j:<amount>`)
   and prints the joint model's observation. Import-free.  Init tokens it does not know (`dn=<denom shapes>`:
   the model does not look at names; `pliq=` / `vliq=`: reserves are not modelled) are ignored; a trailing `h` on a
   `pools=` / `vaults=` entry (the hostile contract) is dropped.  `@xfail=err|panic` wraps the op into `Op.xfail`.
   `reenter <h> <t> <sender> <p<k>|v<k>|s<k>> <plain|catch> <inner op> [args] -- <outer op> [args] [+coins]` builds
   `Op.reenter` (the nested op is sent by bonder `u5` and reads its recorded answers from the `@i…` tokens, the outer
   op's per-swap accruals from `@hacc`); its observation line ends in `fired=<0|1|2|->` as computed by `stepH`.
   `inloan <h> <t> <sender> v<k> <amount> <exact|over<n>|short> -- <inner op> [args]` builds `Op.inloan` (the inner op is
   sent by the borrower contract, address `BORROWER`, and reads its recorded answers from the plain `@…` tokens; `@vb` =
   the lending vault's balance before, `@vfees=<prot>.<flash>.<burn>` = its fee shares); its observation line ends in
   `lvb=<the lending vault's balance after>` as computed by `inloanRun`. -/
import Driver.Util
import WW.Model.Feeflow
namespace Driver
open WW

structure FeeflowState where
  cfg : Feeflow.Cfg
  st : Feeflow.St

namespace FF

def ADMIN : Nat := 1000
def TRADER : Nat := 1001
def STRANGER : Nat := 1002
def DISTRIBUTOR : Nat := 2000
/-- the flash-loan borrower contract: the sender of the message nested into an `inloan` transaction -/
def BORROWER : Nat := 1003

def addr? (s : String) : Option Nat :=
  if s == "admin" then some ADMIN
  else if s == "trader" then some TRADER
  else if s == "stranger" then some STRANGER
  else if s.startsWith "u" then (s.drop 1).toString.toNat?
  else none

def joinOr (sep : String) (xs : List String) : String :=
  if xs.isEmpty then "-" else sep.intercalate xs

def showOpt : Option Nat → String
  | some x => toString x
  | none => "-"

def bit (b : Bool) : String := if b then "1" else "0"

/-- split "a.b:c" style tokens -/
def splitNats (sep : String) (s : String) : Option (List Nat) := (s.splitOn sep).mapM String.toNat?

def listOf (s : String) : List String := if s == "-" || s.isEmpty then [] else s.splitOn ","

/-- legacy single-asset view of a ledger w.r.t. the INITIAL distribution asset `d0`:
    `-` empty, the amount when it is exactly one entry in `d0`, `X` otherwise -/
def showLegacy (d0 : Nat) : Distributor.Ledger → String
  | [] => "-"
  | [(a, x)] => if a == d0 then toString x else "X"
  | _ => "X"

/-- a ledger per asset, in vector order: `-` | `asset.amount[+asset.amount…]` -/
def showLedger (l : Distributor.Ledger) : String :=
  joinOr "+" (l.map fun (p : Nat × Nat) => s!"{p.1}.{p.2}")

def observe (cfg : Feeflow.Cfg) (s : Feeflow.St) : String :=
  let n := cfg.c.nassets
  let d0 := cfg.c.dist
  let users := List.range cfg.nusers
  let assets := List.range n
  let eps := s.d.epochs.map fun e =>
    s!"{e.id}:{e.start}:{showLegacy d0 e.total}:{showLegacy d0 e.avail}:{showLegacy d0 e.claimed}"
  let epa := s.d.epochs.map fun e =>
    s!"{e.id}:{showLedger e.total}:{showLedger e.avail}:{showLedger e.claimed}"
  let trh := s.c.trh.map fun (p : Nat × Nat) => s!"{p.1}:{p.2}"
  let cl := users.map fun u => joinOr "." ((Distributor.claimable s.d u (s.view u)).map toString)
  let pp := s.c.pools.map fun p => s!"{p.pa}:{p.pb}"
  let vp := s.c.vaults.map fun v => toString v.pend
  "grace=" ++ toString s.d.grace ++
  " dbal=" ++ toString (s.d.bal d0) ++
  " dao=" ++ toString (s.daoBal d0) ++
  " cbal=" ++ joinOr "," ((List.range n).map fun i => toString (s.c.bal i)) ++
  " ep=" ++ joinOr ";" eps ++
  " trh=" ++ joinOr ";" trh ++
  " ub=" ++ joinOr "," (users.map fun u => toString (s.ub u d0)) ++
  " cl=" ++ "|".intercalate cl ++
  " pp=" ++ "|".intercalate pp ++
  " vp=" ++ joinOr "|" vp ++
  " reg=" ++ String.join (s.c.pools.map fun p => bit p.reg) ++
  " on=" ++ String.join (s.c.pools.map fun p => bit p.on) ++
  " rt=" ++ joinOr "," (assets.map fun i => toString (if i == s.d.dist then 0 else (s.rts s.d.dist i).length)) ++
  " rate=" ++ toString s.c.rate ++
  " active=" ++ bit s.c.active ++
  " daoset=" ++ bit s.c.daoSet ++
  " dist=" ++ toString s.d.dist ++
  " epa=" ++ joinOr ";" epa ++
  " dbala=" ++ joinOr "," (assets.map fun a => toString (s.d.bal a)) ++
  " daoa=" ++ joinOr "," (assets.map fun a => toString (s.daoBal a)) ++
  " uba=" ++ joinOr "," (users.map fun u => ".".intercalate (assets.map fun a => toString (s.ub u a))) ++
  -- the unrelated denom (index `n`) on collector / distributor / router / lair; the lair's balance per asset
  " jb=" ++ ",".intercalate [toString (s.c.bal n), toString (s.d.bal n), toString (s.xb 0 n), toString (s.xb 1 n)] ++
  " lb=" ++ joinOr "," (assets.map fun a => toString (s.xb 1 a))

def init (ws : List String) : Option FeeflowState :=
  let m := kvs ws
  match lookupNat m "grace", lookupNat m "genesis", lookupNat m "dur", lookupNat m "dist", lookupNat m "nusers" with
  | some grace, some genesis, some dur, some dist, some nusers =>
    -- a trailing `h` marks a pair / vault whose contract is the hostile one: the model does not care
    let unh := fun (t : String) => if t.endsWith "h" then (t.dropEnd 1).toString else t
    let pools := (listOf (lookupStr m "pools")).mapM fun t => match splitNats "." (unh t) with
      | some [a, b] => some ({ a := a, b := b, reg := true, on := true, pa := 0, pb := 0 } : Collector.Pool)
      | _ => none
    let vaults := (listOf (lookupStr m "vaults")).mapM fun t => (unh t).toNat?.map fun a => ({ asset := a, pend := 0 } : Collector.Vault)
    match pools, vaults with
    | some pools, some vaults =>
      let nassets := (vaults.foldl (fun acc v => max acc v.asset) (pools.foldl (fun acc p => max acc (max p.a p.b)) dist)) + 1
      some {
        cfg := { d := { genesis := genesis, duration := dur, owner := ADMIN },
                 c := { dist := dist, nassets := nassets, distributor := DISTRIBUTOR, owner := ADMIN },
                 nusers := nusers },
        st := { d := Distributor.St.init grace dist,
                c := { bal := fun _ => 0, rate := 0, active := false, daoSet := false, dao := 0, trh := [],
                       pools := pools, vaults := vaults, routes := fun _ => [] },
                view := fun _ => none, ub := fun _ _ => 0, daoBal := fun _ => 0, rts := fun _ _ => [],
                xb := fun _ _ => 0 } }
    | _, _ => none
  | _, _, _, _, _ => none

/-- `id:val` pairs of `@sh=` -/
def parseShares (s : String) : Option (List (Nat × Distributor.LairAns)) :=
  (listOf s).mapM fun t => match t.splitOn ":" with
    | [i, v] => match i.toNat? with
      | some i =>
        if v == "E" then some (i, Distributor.LairAns.err)
        else if v == "P" then some (i, Distributor.LairAns.panic)
        else v.toNat?.map fun x => (i, Distributor.LairAns.share x)
      | none => none
    | _ => none

/-- `a.b:v` triples of `@outs=` / `@acc=` -/
def parseKeyed (s : String) : Option (List ((Nat × Nat) × Nat)) :=
  (listOf s).mapM fun t => match t.splitOn ":" with
    | [k, v] => match splitNats "." k, v.toNat? with
      | some [a, b], some x => some ((a, b), x)
      | _, _ => none
    | _ => none

def lookup2 (l : List ((Nat × Nat) × Nat)) (a b : Nat) : Option Nat :=
  (l.find? fun e => e.1.1 == a && e.1.2 == b).map (·.2)

def resCode (s : String) : Option Nat :=
  if s == "ok" then some 0 else if s == "err" then some 1 else if s == "panic" then some 2 else none

def optBool (s : String) : Option (Option Bool) :=
  if s == "-" then some none else if s == "0" then some (some false) else if s == "1" then some (some true) else none

/-- the hops of a route kind `asset → ask` (the harness's `addroute`): direct, or through the first
    asset that is neither of the two -/
def hopsOf (cfg : Feeflow.Cfg) (asset ask : Nat) (kind : String) : Option (List (Nat × Nat)) :=
  if kind == "direct" then some [(asset, ask)]
  else if kind == "twohop" then
    match (List.range cfg.c.nassets).find? fun j => j != asset && j != ask with
    | some j => some [(asset, j), (j, ask)]
    | none => none
  else none

/-- the ask asset of an `addroute` / `rmroute` line: an optional third argument, default = the initial
    distribution asset -/
def askOf (cfg : Feeflow.Cfg) : List String → Option Nat
  | [] => some cfg.c.dist
  | [x] => x.toNat?.map fun a => a % cfg.c.nassets
  | _ => none

/-- the `limit` argument of a factory page: `-` = `None`, a number = `Some(n)` -/
def limit? (s : String) : Option (Option Nat) := if s == "-" then some none else s.toNat?.map some

/-- the page limit the harness sends when the line names none (`limit: Some(30)`, as `ForwardFees` does) -/
def HARNESS_LIMIT : Option Nat := some 30

/-- the `FeesFor` named by a direct `collect` / `aggregate` line: `vfac [<limit>]` | `pfac [<limit>]` |
    `xfac` | `pool <k>` | `vault <k>` -/
def feesFor? : List String → Option Collector.FeesFor
  | ["vfac"] => some (.vaultFactory HARNESS_LIMIT)
  | ["pfac"] => some (.poolFactory HARNESS_LIMIT)
  | ["vfac", l] => (limit? l).map .vaultFactory
  | ["pfac", l] => (limit? l).map .poolFactory
  | ["xfac"] => some .wrongFactory
  | ["pool", k] => k.toNat?.map .onePool
  | ["vault", k] => k.toNat?.map .oneVault
  | _ => none

/-- parse one op line into a model op (`none` = cannot parse) -/
def parseOp (cfg : Feeflow.Cfg) (now sender : Nat) (op : String) (args : List String) (rcd : List (String × String)) :
    Option Feeflow.Op :=
  match op, args with
  | "newepoch", [] =>
    match parseKeyed (lookupStr rcd "@outs" "?"), parseKeyed (lookupStr rcd "@acc" "?") with
    | some outs, some acc =>
      some (.newEpoch now (fun st a _ => (lookup2 outs st a).getD 0) (fun p sd => (lookup2 acc p sd).getD 0))
    | _, _ => none
  | "claim", [] =>
    match parseShares (lookupStr rcd "@sh" "?") with
    | some sh => some (.claim sender fun id => ((sh.find? fun e => e.1 == id).map (·.2)).getD .err)
    | none => none
  | "bond", [_, _] | "unbond", [_, _] =>
    match resCode (lookupStr rcd "@r" "?"), lookupStr rcd "@v" "?" with
    | some r, v =>
      if v == "-" then some (.bond sender r none)
      else v.toNat?.map fun fb => .bond sender r (some fb)
    | none, _ => none
  | "grace", [g] => g.toNat?.map fun g => .grace sender g
  | "colcfg", kv =>
    let m := kvs kv
    let rate := lookupStr m "rate" "?"
    let rate? : Option (Option Nat) := if rate == "-" then some none else rate.toNat?.map some
    match rate?, lookupNat m "dao", optBool (lookupStr m "active" "?") with
    | some rate, some dao, some active => some (.colcfg sender rate (dao == 1) active)
    | _, _, _ => none
  | "fwd", [] => some (.fwd sender)
  | "swap", [p, sd, _] =>
    match p.toNat?, sd.toNat?, resCode (lookupStr rcd "@r" "?"), lookupNat rcd "@fee" with
    | some p, some sd, some r, some fee => some (.swap r p sd fee)
    | _, _, _, _ => none
  | "loan", [v, _] =>
    match v.toNat?, resCode (lookupStr rcd "@r" "?"), lookupNat rcd "@fee" with
    | some v, some r, some fee => some (.loan r v fee)
    | _, _, _ => none
  | "gift", [tgt, a, x] =>
    match a.toNat?, x.toNat? with
    | some a, some x => if tgt == "col" then some (.gift true a x) else if tgt == "dist" then some (.gift false a x) else none
    | _, _ => none
  | "addroute", a :: kind :: rest =>
    match a.toNat?, askOf cfg rest with
    | some a, some ask => (hopsOf cfg (a % cfg.c.nassets) ask kind).map fun h => .addRoute sender (a % cfg.c.nassets) ask h
    | _, _ => none
  | "rmroute", a :: _ :: rest =>
    match a.toNat?, askOf cfg rest with
    | some a, some ask => some (.rmRoute sender (a % cfg.c.nassets) ask)
    | _, _ => none
  | "distasset", [a] => a.toNat?.map fun a => .setDist sender (a % cfg.c.nassets)
  | "unreg", [p] => p.toNat?.map fun p => .unreg sender p
  | "toggle", [p, o] =>
    match p.toNat?, o.toNat? with
    | some p, some o => some (.toggle sender p (o == 1))
    | _, _ => none
  | "collect", target => (feesFor? target).map fun f => .collect sender f
  | "aggregate", target =>
    match feesFor? target, parseKeyed (lookupStr rcd "@outs" "?"), parseKeyed (lookupStr rcd "@acc" "?") with
    | some f, some outs, some acc =>
      some (.aggregate sender f (fun st a _ => (lookup2 outs st a).getD 0) (fun p sd => (lookup2 acc p sd).getD 0))
    | _, _, _ => none
  | _, _ => none

/-- the recorded answers must cover exactly what the model asks of them -/
def recordedCovers (cfg : Feeflow.Cfg) (s : Feeflow.St) (op : Feeflow.Op) (rcd : List (String × String)) : Bool :=
  match op with
  | .xfail _ _ => true          -- the real transaction failed: there is nothing recorded to cover
  | .reenter trig caught hacc inner outer =>
    -- the outer operation's swaps (as the hooked pipeline executes them) must be the recorded ones
    match Feeflow.stepH cfg { trig := trig, caught := caught, clears := Feeflow.hasNewEpoch inner,
                              run := fun s1 => Feeflow.step cfg s1 inner, hacc := hacc } s outer,
          parseKeyed (lookupStr rcd "@outs" "-") with
    | some (.ok h), some outs =>
      h.sws.length == outs.length && h.sws.all fun sw => (lookup2 outs sw.1 sw.2.1).isSome
    | some (.ok _), none => false
    | none, _ => recordedCovers cfg s outer rcd
    | _, _ => true
  | .inloan k amount mode vb fees inner =>
    -- the callback's message runs on the state the loan was taken in; a transaction that fails as a whole has
    -- recorded nothing
    match Feeflow.step cfg s (.inloan k amount mode vb fees inner) with
    | .ok _ => recordedCovers cfg s inner rcd
    | _ => true
  | .coins payer a x op' =>
    -- the operation runs on the state after the bank's transfer
    match Feeflow.pay cfg s payer a x (Feeflow.target op') with
    | .ok s1 => recordedCovers cfg s1 op' rcd
    | _ => true
  | .claim u _ =>
    match parseShares (lookupStr rcd "@sh" "?") with
    | some sh => (Distributor.claimable s.d u (s.view u)).all fun id => sh.any fun e => e.1 == id
    | none => false
  | .newEpoch now router acc =>
    match Feeflow.newEpoch cfg s now router acc, parseKeyed (lookupStr rcd "@outs" "?") with
    | .ok (_, o), some outs =>
      o.swaps.length == outs.length && o.swaps.all fun sw => (lookup2 outs sw.1 sw.2.1).isSome
    | _, _ => true
  | .aggregate sender f router acc =>
    match Collector.aggregateFees (Feeflow.ccfg cfg s) (Feeflow.cview s) sender f router acc, parseKeyed (lookupStr rcd "@outs" "?") with
    | .ok (_, _, sws), some outs =>
      sws.length == outs.length && sws.all fun sw => (lookup2 outs sw.1 sw.2.1).isSome
    | _, _ => true
  | _ => true

/-- a stray-coin token `+<asset idx>:<amount>` (an asset of the world) | `+j:<amount>` (the unrelated denom =
    index `nassets`); the amount is positive -/
def stray? (cfg : Feeflow.Cfg) (w : String) : Option (Nat × Nat) :=
  match (w.drop 1).toString.splitOn ":" with
  | [a, x] =>
    match (if a == "j" then some cfg.c.nassets else a.toNat?.bind fun i => if i < cfg.c.nassets then some i else none), x.toNat? with
    | some a, some x => if x == 0 then none else some (a, x)
    | _, _ => none
  | _ => none

/-- wrap a parsed op into the coins attached to its message.  Only the messages the engine attaches coins to
    (`target ≠ nobody`); the router only ever gets the unrelated denom (it would spend an asset of the world
    in its next swap of that asset: outside the model); the lair's `Bond` refuses extra coins whatever the
    recorded outcome says (`validate_funds`: exactly one coin) -/
def withCoins (cfg : Feeflow.Cfg) (sender : Nat) (opName : String) (mop : Feeflow.Op) (cs : List (Nat × Nat)) : Option Feeflow.Op :=
  if cs.isEmpty then some mop
  else
    let t := Feeflow.target mop
    if t == Feeflow.Target.nobody then none
    else if t == Feeflow.Target.router && cs.any (fun c => c.1 != cfg.c.nassets) then none
    else
      let mop := match mop with
        | .bond u _ v => if opName == "bond" then Feeflow.Op.bond u 1 v else mop
        | _ => mop
      some (cs.foldr (fun c op => Feeflow.Op.coins sender c.1 c.2 op) mop)

/-- `@xfail=err|panic` → wrap into `Op.xfail` -/
def withXfail (rcd : List (String × String)) (key : String) (mop : Feeflow.Op) : Option Feeflow.Op :=
  let v := lookupStr rcd key "-"
  if v == "-" then some mop
  else if v == "err" then some (.xfail 1 mop)
  else if v == "panic" then some (.xfail 2 mop)
  else none

/-- the plain part of an op line: `<args…> [+coins…]` with the recorded answers `rcd` -/
def parsePlain (cfg : Feeflow.Cfg) (now sender : Nat) (op : String) (args0 : List String) (rcd : List (String × String)) :
    Option Feeflow.Op :=
  let args := args0.filter fun w => !w.startsWith "+"
  let coinToks := args0.filter fun w => w.startsWith "+"
  (parseOp cfg now sender op args rcd).bind fun mop =>
    (withXfail rcd "@xfail" mop).bind fun mop =>
      (coinToks.mapM (stray? cfg)).bind fun cs =>
        -- the coin tokens are trailing tokens
        if args0.drop args.length == coinToks then withCoins cfg sender op mop cs else none

/-- the address the hostile contract's nested message is sent from (its helper contract): bonder `u5` -/
def AGENT : Nat := 5

def trig? (t : String) : Option Feeflow.Trig :=
  let k := (t.drop 1).toString.toNat?
  if t.startsWith "p" then k.map .poolCollect
  else if t.startsWith "v" then k.map .vaultCollect
  else if t.startsWith "s" then k.map .poolSwap
  else none

/-- the recorded answers of the nested op: `@i<k>=v` → `@<k>=v` -/
def innerRcd (rcd : List (String × String)) : List (String × String) :=
  rcd.filterMap fun (kv : String × String) =>
    if kv.1.startsWith "@i" then some ("@" ++ (kv.1.drop 2).toString, kv.2) else none

/-- `@hacc=<stage>.<asset>.<pair>.<side>.<pre>:<amount>,…`: protocol fee accrued per swap of the outer op -/
def parseHacc (s : String) : Option (List ((Nat × Nat × Nat) × (Nat × Nat × Nat))) :=
  (listOf s).mapM fun t => match t.splitOn ":" with
    | [k, v] => match splitNats "." k, v.toNat? with
      | some [st, a, pool, side, pre], some x => some ((pre, st, a), (pool, side, x))
      | _, _ => none
    | _ => none

/-- `reenter <h> <t> <sender> <trig> <plain|catch> <inner op> <args…> -- <outer op> <args…> [+coins]` -/
def parseReenter (cfg : Feeflow.Cfg) (now sender : Nat) (args0 : List String) (rcd : List (String × String)) :
    Option Feeflow.Op :=
  match args0 with
  | t :: mode :: rest =>
    let innerToks := rest.takeWhile (· != "--")
    let outerToks := (rest.dropWhile (· != "--")).drop 1
    match trig? t, (if mode == "plain" then some false else if mode == "catch" then some true else none),
          innerToks, outerToks with
    | some trig, some caught, iop :: iargs, oop :: oargs =>
      -- the nested op carries no coins and is no `reenter` itself
      if iop == "reenter" || oop == "reenter" || iargs.any (·.startsWith "+") then none
      else
        match (parseOp cfg now AGENT iop iargs (innerRcd rcd)).bind (withXfail (innerRcd rcd) "@xfail"),
              parsePlain cfg now sender oop oargs rcd, parseHacc (lookupStr rcd "@hacc" "-") with
        | some inner, some outer, some ha =>
          some (.reenter trig caught
            (fun pre st a => (ha.filter fun e => e.1.1 == pre && e.1.2.1 == st && e.1.2.2 == a).map (·.2)) inner outer)
        | _, _, _ => none
    | _, _, _, _ => none
  | _ => none

/-- the repayment mode of an `inloan` line: `exact` | `short` | `over<n>` -/
def repay? (m : String) : Option Feeflow.Repay :=
  if m == "exact" then some .exact
  else if m == "short" then some .short
  else if m.startsWith "over" then (m.drop 4).toString.toNat?.map .over
  else none

/-- `inloan <h> <t> <sender> v<k> <amount> <mode> -- <inner op> <args…>`; the inner op is one of the messages anybody can
    send to the distributor / collector / router (`newepoch claim fwd collect aggregate grace distasset colcfg addroute
    rmroute`), carries no coins and is
    sent by the borrower contract -/
def parseInloan (cfg : Feeflow.Cfg) (now : Nat) (args0 : List String) (rcd : List (String × String)) : Option Feeflow.Op :=
  match args0 with
  | v :: amt :: mode :: "--" :: iop :: iargs =>
    if !(v.startsWith "v") || iargs.any (·.startsWith "+") ||
       !(["newepoch", "claim", "fwd", "collect", "aggregate", "grace", "distasset", "colcfg", "addroute", "rmroute"].contains iop) then none
    else
      match (v.drop 1).toString.toNat?, amt.toNat?, repay? mode, lookupNat rcd "@vb", splitNats "." (lookupStr rcd "@vfees" "?") with
      | some k, some amount, some mode, some vb, some [fp, ff, fb] =>
        ((parseOp cfg now BORROWER iop iargs rcd).bind (withXfail rcd "@xfail")).map fun inner =>
          .inloan k amount mode vb { prot := fp, flash := ff, burn := fb } inner
      | _, _, _, _, _ => none
  | _ => none

def opLine (fs : FeeflowState) (ws : List String) : FeeflowState × String :=
  match ws with
  | op :: _h :: t :: sender :: rest =>
    let args0 := rest.filter fun w => !w.startsWith "@"
    let rcd := kvs (rest.filter fun w => w.startsWith "@")
    match t.toNat?, addr? sender with
    | some now, some sender =>
      if op == "reenter" then
        match parseReenter fs.cfg now sender args0 rcd with
        | some (.reenter trig caught hacc inner outer) =>
          let mop := Feeflow.Op.reenter trig caught hacc inner outer
          if !recordedCovers fs.cfg fs.st mop rcd then (fs, "bad-op")
          else
            -- the hooked run also says whether the hostile contract was triggered and what became of its message
            let fired : String :=
              match Feeflow.stepH fs.cfg { trig := trig, caught := caught, clears := Feeflow.hasNewEpoch inner,
                                           run := fun s1 => Feeflow.step fs.cfg s1 inner, hacc := hacc } fs.st outer with
              | some (.ok h) => toString h.fired
              | none => "0"
              | _ => "-"
            match Feeflow.step fs.cfg fs.st mop with
            | .ok s' => ({ fs with st := s' }, "ok " ++ observe fs.cfg s' ++ " fired=" ++ fired)
            | .err => (fs, "err " ++ observe fs.cfg fs.st ++ " fired=-")
            | .panic => (fs, "panic " ++ observe fs.cfg fs.st ++ " fired=-")
        | _ => (fs, "bad-op")
      else if op == "inloan" then
        match parseInloan fs.cfg now args0 rcd with
        | some (.inloan k amount mode vb fees inner) =>
          if !recordedCovers fs.cfg fs.st (.inloan k amount mode vb fees inner) rcd then (fs, "bad-op")
          else
            match Feeflow.inloanRun fs.st k amount mode vb fees (fun s0 => Feeflow.step fs.cfg s0 inner) with
            | .ok o => ({ fs with st := o.st }, "ok " ++ observe fs.cfg o.st ++ " lvb=" ++ toString o.endBal)
            | .err => (fs, "err " ++ observe fs.cfg fs.st ++ " lvb=" ++ toString vb)
            | .panic => (fs, "panic " ++ observe fs.cfg fs.st ++ " lvb=" ++ toString vb)
        | _ => (fs, "bad-op")
      else
      match parsePlain fs.cfg now sender op args0 rcd with
      | some mop =>
        if !recordedCovers fs.cfg fs.st mop rcd then (fs, "bad-op")
        else
          match Feeflow.step fs.cfg fs.st mop with
          | .ok s' => ({ fs with st := s' }, "ok " ++ observe fs.cfg s')
          | .err => (fs, "err " ++ observe fs.cfg fs.st)
          | .panic => (fs, "panic " ++ observe fs.cfg fs.st)
      | none => (fs, "bad-op")
    | _, _ => (fs, "bad-op")
  | _ => (fs, "bad-op")

end FF

def feeflowInit (ws : List String) : Option FeeflowState × String :=
  match FF.init ws with
  | some fs => (some fs, "ok " ++ FF.observe fs.cfg fs.st)
  | none => (none, "bad-op")

end Driver
