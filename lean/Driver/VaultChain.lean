/- Line-protocol driver for the chained vault-router model (engine `vaultchain`). -/
import Driver.Util
import Driver.Vault
import WW.Model.VaultChain
namespace Driver.VaultChainDrv
open WW WW.VaultChain
open Driver.VaultDrv (takeNat expect)

/-- `j.n,j.n,…)` after the opening parenthesis -/
def parseLoanItems : Nat → List Char → Option (List (Nat × Nat) × List Char)
  | 0, _ => none
  | fuel + 1, cs => do
    let (j, r) ← takeNat cs
    let r ← expect '.' r
    let (n, r) ← takeNat r
    match r with
    | ',' :: r' =>
      let (es, r'') ← parseLoanItems fuel r'
      pure ((j, n) :: es, r'')
    | ')' :: r' => pure ([(j, n)], r')
    | _ => none

/-- `(j.n,j.n,…)` or `()` -/
def parseLoans (cs : List Char) : Option (List (Nat × Nat) × List Char) :=
  match cs with
  | '(' :: ')' :: rest => some ([], rest)
  | '(' :: rest => parseLoanItems (rest.length + 1) rest
  | _ => none

mutual
/-- payload `[ract;ract;…]`, fuel-bounded recursive descent -/
def parseRList : Nat → List Char → Option (List RAct × List Char)
  | 0, _ => none
  | fuel + 1, cs =>
    match cs with
    | '[' :: ']' :: rest => some ([], rest)
    | '[' :: rest => parseRItems fuel rest
    | _ => none
def parseRItems : Nat → List Char → Option (List RAct × List Char)
  | 0, _ => none
  | fuel + 1, cs =>
    match parseRAct fuel cs with
    | none => none
    | some (a, rest) =>
      match rest with
      | ';' :: rest' =>
        match parseRItems fuel rest' with
        | some (as, r) => some (a :: as, r)
        | none => none
      | ']' :: rest' => some ([a], rest')
      | _ => none
def parseRAct : Nat → List Char → Option (RAct × List Char)
  | 0, _ => none
  | fuel + 1, cs =>
    let word := cs.takeWhile Char.isAlpha
    let rest := cs.dropWhile Char.isAlpha
    match String.ofList word with
    | "fail" => some (.fail, rest)
    | "fund" => do
        let r ← expect ':' rest; let (j, r) ← takeNat r
        let r ← expect ':' r; let (n, r) ← takeNat r
        pure (.fund j n, r)
    | "out" => do
        let r ← expect ':' rest; let (j, r) ← takeNat r
        let r ← expect ':' r; let (d, r) ← takeNat r
        let r ← expect ':' r; let (n, r) ← takeNat r
        pure (.out j d n, r)
    | "complete" => do
        let r ← expect ':' rest; let (i, r) ← takeNat r
        let r ← expect ':' r; let (l, r) ← parseLoans r
        pure (.complete i l, r)
    | "chain" => do
        let r ← expect ':' rest; let (i, r) ← takeNat r
        let r ← expect ':' r; let (l, r) ← parseLoans r
        let r ← expect ':' r
        let (pl, r) ← parseRList fuel r
        -- a chain needs a first vault to send the message to
        if l.isEmpty then none else pure (.chain i l pl, r)
    | _ => none
end

def parseRActs (s : String) : Option (List RAct) :=
  match parseRList (4 * s.length + 8) s.toList with
  | some (as, []) => some as
  | _ => none

def parseLoanList (s : String) : Option (List (Nat × Nat)) :=
  match parseLoans s.toList with
  | some (l, []) => some l
  | _ => none

def sepNats (sep : String) (s : String) : Option (List Nat) := (s.splitOn sep).mapM String.toNat?

def showList (l : List Nat) : String := ",".intercalate (l.map toString)

def showObs (c : Cfg) (s : St) : String :=
  let vs := (List.range c.nv).map fun j =>
    s!"v{j}={s.pend j},{s.allTime j},{s.burned j},{s.ctr j}"
  let bs := (List.range c.nv).map fun j =>
    s!"b{j}={showList ((List.range (6 + c.nv)).map (s.bal j))}"
  let q := showList ((List.range c.nv).map fun j => payback c j 1000000007)
  -- the denom without a vault (asset index nv): accounts 0..5 and every vault
  let junk := showList ((List.range (6 + c.nv)).map (s.bal c.nv))
  " ".intercalate (vs ++ bs ++ [s!"q={q}", s!"junk={junk}"])

/-- `init vaultchain nv=N kinds=k,… fees=p:f:b,… bals=a0:…:a5,… deps=d0:d1:d2,…`
    (`bals` = what accounts 0..5 hold of each asset before the users' deposits `deps` into its vault) -/
def initSt (ws : List String) : Option (Cfg × St) := do
  let m := kvs ws
  let nv ← lookupNat m "nv"
  let kinds ← sepNats "," (lookupStr m "kinds")
  let fees ← ((lookupStr m "fees").splitOn ",").mapM (sepNats ":")
  let bals ← ((lookupStr m "bals").splitOn ",").mapM (sepNats ":")
  let deps ← ((lookupStr m "deps").splitOn ",").mapM (sepNats ":")
  if nv = 0 ∨ kinds.length ≠ nv ∨ fees.length ≠ nv ∨ bals.length ≠ nv ∨ deps.length ≠ nv then none
  else if fees.any (·.length ≠ 3) ∨ bals.any (·.length ≠ 6) ∨ deps.any (·.length ≠ 3) then none
  else if (List.range nv).any (fun j => (List.range 3).any fun a => (bals.getD j []).getD a 0 < (deps.getD j []).getD a 0) then none
  else
    let c : Cfg := {
      nv := nv
      kind := fun j => kinds.getD j 0
      fees := fun j => let f := fees.getD j []; { prot := f.getD 0 0, flash := f.getD 1 0, burn := f.getD 2 0 } }
    let s : St := {
      pend := fun _ => 0, allTime := fun _ => 0, burned := fun _ => 0, ctr := fun _ => 0
      bal := fun j a =>
        -- asset index nv: the denom without a vault; accounts 0..3 hold 2^100 of it
        if j = nv then (if a < 4 then WW.Vault.JUNK0 else 0)
        else if j > nv then 0
        else if a < 3 then (bals.getD j []).getD a 0 - (deps.getD j []).getD a 0
        else if a < 6 then (bals.getD j []).getD a 0
        else if a = 6 + j then (deps.getD j []).foldl (· + ·) 0
        else 0 }
    some (c, s)

def parseBase (ws : List String) : Option Op :=
  match ws with
  | ["rloan", w, l, pl] => do
    let w ← w.toNat?
    if w ≥ 4 then none else pure (.rloan w (← parseLoanList l) (← parseRActs pl))
  | ["rfund", w, j, n] => do
    let w ← w.toNat?
    if w ≥ 4 then none else pure (.rfund w (← j.toNat?) (← n.toNat?))
  | ["collect", j] => do pure (.collect (← j.toNat?))
  | ["xnext", w, i, l, pl] => do
    let w ← w.toNat?; let i ← i.toNat?
    let l ← parseLoanList l
    if l.isEmpty ∨ w ≥ 4 ∨ i ≥ 5 then none else pure (.xnext w i l (← parseRActs pl))
  | ["xcomplete", w, i, l] => do
    let w ← w.toNat?; let i ← i.toNat?
    if w ≥ 4 ∨ i ≥ 5 then none else pure (.xcomplete w i (← parseLoanList l))
  | _ => none

/-- the sender of a message (who pays coins attached to it); `none`: no stray-coin suffix allowed -/
def senderOf : Op → Option Nat
  | .rloan w _ _ => some w
  | .collect _ => some 1
  | .xnext w _ _ _ => some w
  | .xcomplete w _ _ => some w
  | _ => none

/-- `+<sel>:<amount>`: sel = j < nv the native denom of vault j's asset, sel = nv the denom without a vault -/
def parseStray (t : String) : Option (Nat × Nat) :=
  match t.toList with
  | '+' :: rest =>
    match (String.ofList rest).splitOn ":" with
    | [a, b] => do
      let sel ← a.toNat?; let n ← b.toNat?
      if n = 0 then none else pure (sel, n)
    | _ => none
  | _ => none

/-- an op line, optionally ending in a stray-coin token `+<sel>:<amount>` (coins attached to the
    message by its sender) -/
def parseOp (c : Cfg) (ws : List String) : Option Op :=
  match ws.getLast? with
  | none => none
  | some t =>
    if t.startsWith "+" then do
      let (sel, n) ← parseStray t
      let op ← parseBase ws.dropLast
      let who ← senderOf op
      if sel > c.nv then none else pure (.attach who sel n op)
    else parseBase ws

def stepLine (c : Cfg) (s : St) (ws : List String) : St × String :=
  match parseOp c ws with
  | none => (s, "bad-op")
  | some op =>
    match step c s op with
    | some s' => (s', "ok " ++ showObs c s')
    | none => (s, "err " ++ showObs c s)

end Driver.VaultChainDrv
