/- Line-protocol helpers shared by all engine drivers (import-free). -/
import WW.Cw.Arith
namespace Driver
open WW

def words (line : String) : List String :=
  (line.trimAscii.toString.splitOn " ").filter (fun s => !s.isEmpty)

def nats? (ws : List String) : Option (List Nat) := ws.mapM String.toNat?

def showNats (xs : List Nat) : String := " ".intercalate (xs.map toString)

def showRes {α : Type} (f : α → String) : Res α → String
  | .ok a => let s := f a; if s.isEmpty then "ok" else "ok " ++ s
  | .err => "err"
  | .panic => "panic"

/-- parse `k=v` tokens into an association list -/
def kvs (ws : List String) : List (String × String) :=
  ws.filterMap fun w => match w.splitOn "=" with
    | [k, v] => some (k, v)
    | _ => none

def lookupNat (m : List (String × String)) (k : String) : Option Nat :=
  (m.lookup k).bind String.toNat?

def lookupStr (m : List (String × String)) (k : String) (dflt : String := "") : String :=
  (m.lookup k).getD dflt

end Driver
