/- wwdriver: reads operation lines on stdin, prints the model's observation for each. -/
import Driver.Util
import Driver.Pure
import Driver.Vault
import Driver.Epoch
import Driver.Quotes
import Driver.Auth
import Driver.Lair
import Driver.Feeflow
import Driver.Toggles
import Driver.Config
import Driver.Stable2
import Driver.Factory
import Driver.Incentive
import Driver.Pair
import Driver.VaultChain
namespace Driver

/-- the state of whichever engine the last `init <engine> …` line selected
    (one constructor per stateful engine) -/
inductive EngineState where
  | none
  | vault (s : WW.Vault.St)
  | epochs (w : WW.Epoch.World)
  | quotes (q : Driver.Quotes.QSt)
  | lair (d : LairDrv)
  | feeflow (fs : FeeflowState)
  | toggles (t : TogglesD.TogglesSt)
  | config (c : WW.Config.Cfg)
  | stable2 (cfg : WW.SsCfg) (s : WW.SsSt)
  | trio (s : WW.Trio.St)
  | registry (s : FacState)
  | incentive (d : Driver.Incentive.DSt)
  | pair (cv : WW.Pair.Curve) (s : WW.Pair.St)
  | vaultchain (c : WW.VaultChain.Cfg) (s : WW.VaultChain.St)

/-- `init <engine> k=v …` : select the engine and build its initial state; prints the first observation -/
def initLine (ws : List String) : EngineState × String :=
  match ws with
  | "vault" :: args =>
    match VaultDrv.initSt args with
    | some s => (.vault s, "ok " ++ VaultDrv.showObs s)
    | none => (.none, "bad-op")
  | "epochs" :: rest =>
    match epochInit rest with
    | some (w, o) => (.epochs w, o)
    | none => (.none, "bad-op")
  | "quotes" :: rest =>
    match Driver.Quotes.initLine rest with
    | (some q, o) => (.quotes q, o)
    | (none, o) => (.none, o)
  | "lair" :: rest =>
    match lairInit rest with
    | some (d, o) => (.lair d, o)
    | none => (.none, "bad-op")
  | "feeflow" :: rest =>
    match feeflowInit rest with
    | (some fs, o) => (.feeflow fs, o)
    | (none, o) => (.none, o)
  | "toggles" :: rest =>
    match TogglesD.togglesInit rest with
    | (some t, o) => (.toggles t, o)
    | (none, o) => (.none, o)
  | "config" :: rest =>
    match ConfigD.configInit rest with
    | (some c, o) => (.config c, o)
    | (none, o) => (.none, o)
  | "stable2" :: rest =>
    match ssInitLine rest with
    | some (some (cfg, s)) => (.stable2 cfg s, "ok " ++ ssObs s)
    | some none => (.none, "err")
    | none => (.none, "bad-op")
  | "trio" :: kv =>
    match Driver.Trio.init kv with
    | some s => (.trio s, "ok " ++ Driver.Trio.obs s)
    | none => (.none, "bad-op")
  | "registry" :: rest =>
    match facInit rest with
    | some (s, o) => (.registry s, o)
    | none => (.none, "bad-op")
  | "incentive" :: rest =>
    match Driver.Incentive.initLine rest with
    | (some d, o) => (.incentive d, o)
    | (none, o) => (.none, o)
  | "pair" :: rest =>
    match Driver.PairD.initLine rest, Driver.PairD.curveOf rest with
    | some (some s), some (some cv) => (.pair cv s, "ok " ++ Driver.PairD.obs s)
    | none, _ => (.none, "bad-op")
    | _, none => (.none, "bad-op")
    | _, _ => (.none, "err")
  | "vaultchain" :: args =>
    match VaultChainDrv.initSt args with
    | some (c, s) => (.vaultchain c s, "ok " ++ VaultChainDrv.showObs c s)
    | none => (.none, "bad-op")
  | _ => (.none, "bad-op")

/-- an operation line for the currently selected engine -/
def opLine (st : EngineState) (ws : List String) : EngineState × String :=
  match st with
  | .none => (st, "bad-op")
  | .vault s => let (s', o) := VaultDrv.stepLine s ws; (.vault s', o)
  | .epochs w => let (w', o) := epochOp w ws; (.epochs w', o)
  | .quotes q => let (q', o) := Driver.Quotes.opLine q ws; (.quotes q', o)
  | .lair d => let (d', o) := lairOp d ws; (.lair d', o)
  | .feeflow fs => let (fs', o) := FF.opLine fs ws; (.feeflow fs', o)
  | .toggles t => let (t', o) := TogglesD.togglesOp t ws; (.toggles t', o)
  | .config c => let (c', o) := ConfigD.configOp c ws; (.config c', o)
  | .stable2 cfg s => let (s', o) := ssOpLine cfg s ws; (.stable2 cfg s', o)
  | .trio s => let (s', o) := Driver.Trio.opLine s ws; (.trio s', o)
  | .registry s => let (s', o) := facOp s ws; (.registry s', o)
  | .incentive d => let (d', o) := Driver.Incentive.opLine d ws; (.incentive d', o)
  | .pair cv s => let (s', o) := Driver.PairD.opLine cv s ws; (.pair cv s', o)
  | .vaultchain c s => let (s', o) := VaultChainDrv.stepLine c s ws; (.vaultchain c s', o)

def stepLine (st : EngineState) (line : String) : EngineState × Option String :=
  match words line with
  | [] => (st, none)
  | w :: ws =>
    if w.startsWith "#" then (st, none)
    else if w == "call" then (st, some ((stable2Call ws).getD (pureCall ws)))
    else if w == "auth" then (st, some (authLine ws))
    else if w == "authrule" then (st, some (authRuleLine ws))
    else if w == "init" then let (st', o) := initLine ws; (st', some o)
    else let (st', o) := opLine st (w :: ws); (st', some o)

partial def loop (h : IO.FS.Stream) (out : IO.FS.Stream) (st : EngineState) : IO Unit := do
  let line ← h.getLine
  if line.isEmpty then return ()
  let (st', o) := stepLine st line
  match o with
  | some s => out.putStrLn s
  | none => pure ()
  loop h out st'

end Driver

def main : IO Unit := do
  let stdin ← IO.getStdin
  let stdout ← IO.getStdout
  Driver.loop stdin stdout .none
