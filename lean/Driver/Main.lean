/- wwdriver: reads operation lines on stdin, prints the model's observation for each. -/
import Driver.Util
import Driver.Pure
namespace Driver

/-- the state of whichever engine the last `init` line selected -/
inductive EngineState where
  | none

def stepLine (st : EngineState) (line : String) : EngineState × Option String :=
  match words line with
  | [] => (st, none)
  | w :: ws =>
    if w.startsWith "#" then (st, none)
    else if w == "call" then (st, some (pureCall ws))
    else (st, some "bad-op")

partial def loop (h : IO.FS.Stream) (out : IO.FS.Stream) (st : EngineState) : IO Unit := do
  let line ← h.getLine
  if line.isEmpty then return ()
  let (st', o) := stepLine st line
  match o with
  | some s => out.putStrLn s
  | none => pure ()
  loop h out st'

end Driver

def main : IO Unit := do
  let stdin ← IO.getStdin
  let stdout ← IO.getStdout
  Driver.loop stdin stdout .none
