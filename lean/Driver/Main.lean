/- wwdriver: reads operation lines on stdin, prints the model's observation for each. -/
import Driver.Util
import Driver.Pure
import Driver.Vault
namespace Driver

/-- the state of whichever engine the last `init <engine> …` line selected
    (one constructor per stateful engine) -/
inductive EngineState where
  | none
  | vault (s : WW.Vault.St)

/-- `init <engine> k=v …` : select the engine and build its initial state; prints the first observation -/
def initLine (ws : List String) : EngineState × String :=
  match ws with
  | "vault" :: args =>
    match VaultDrv.initSt args with
    | some s => (.vault s, "ok " ++ VaultDrv.showObs s)
    | none => (.none, "bad-op")
  | _ => (.none, "bad-op")

/-- an operation line for the currently selected engine -/
def opLine (st : EngineState) (ws : List String) : EngineState × String :=
  match st with
  | .none => (st, "bad-op")
  | .vault s => let (s', o) := VaultDrv.stepLine s ws; (.vault s', o)

def stepLine (st : EngineState) (line : String) : EngineState × Option String :=
  match words line with
  | [] => (st, none)
  | w :: ws =>
    if w.startsWith "#" then (st, none)
    else if w == "call" then (st, some (pureCall ws))
    else if w == "init" then let (st', o) := initLine ws; (st', some o)
    else let (st', o) := opLine st (w :: ws); (st', some o)

partial def loop (h : IO.FS.Stream) (out : IO.FS.Stream) (st : EngineState) : IO Unit := do
  let line ← h.getLine
  if line.isEmpty then return ()
  let (st', o) := stepLine st line
  match o with
  | some s => out.putStrLn s
  | none => pure ()
  loop h out st'

end Driver

def main : IO Unit := do
  let stdin ← IO.getStdin
  let stdout ← IO.getStdout
  Driver.loop stdin stdout .none
