/- Engine `epochs` (C20): line protocol for the epoch-manager / fee-distributor clock model.

   init epochs t0=<ns> mid0=<n> mstart=<ns> mdur=<ns> mgen=<ns> ddur=<ns> dgen=<ns>
   <height> <time_ns> <sender> m_create | d_create | m_add_hook <k> | m_remove_hook <k>
                               | m_update_config <dur> <gen> | d_update_config <dur> <gen>
   observation: ok|err|panic m=<0|1> mid= mstart= mdur= mgen= hooks=<k,k,…|-> d=<0|1> did= dstart= ddur= dgen=
                h0=<count>:<last id>:<last start> h1=… h2=…                                                   -/
import Driver.Util
import WW.Model.Epoch
namespace Driver
open WW WW.Epoch

def epochSender? : String → Option Nat
  | "owner" => some 0
  | "alice" => some 1
  | "bob" => some 2
  | "mallory" => some 3
  -- the hook contracts themselves as senders
  | "hook0" => some 10
  | "hook1" => some 11
  | "hook2" => some 12
  | _ => none

def showHooks (hs : List Nat) : String :=
  if hs.isEmpty then "-" else ",".intercalate (hs.map toString)

def showRecorders (rs : List Recorder) : String :=
  " ".intercalate (rs.mapIdx fun i r => s!"h{i}={r.count}:{r.last.id}:{r.last.start}")

def showWorld (w : World) : String :=
  let m := match w.mgr with
    | some s =>
      -- `Epoch{id}` of the previous and of the next id
      let q := fun (id : Nat) => match s.queryEpoch id with
        | .ok e => s!"{e.id}:{e.start}"
        | .err => "err"
        | .panic => "panic"
      let prev := if s.cur.id = 0 then "-" else q (s.cur.id - 1)
      let nxt := if s.cur.id ≥ U64MAX then "-" else q (s.cur.id + 1)
      s!"m=1 mid={s.cur.id} mstart={s.cur.start} mdur={s.cfg.duration} mgen={s.cfg.genesis} mq={prev}/{nxt} hooks={showHooks s.hooks}"
    | none => "m=0 mid=0 mstart=0 mdur=0 mgen=0 mq=-/- hooks=-"
  let d := match w.dist with
    | some s => s!"d=1 did={s.cur.id} dstart={s.cur.start} ddur={s.cfg.duration} dgen={s.cfg.genesis}"
    | none => "d=0 did=0 dstart=0 ddur=0 dgen=0"
  m ++ " " ++ d ++ " " ++ showRecorders w.recs

def u64? (s : String) : Option Nat :=
  match s.toNat? with
  | some n => if n ≤ U64MAX then some n else none
  | none => none

/-- `init epochs k=v …` -/
def epochInit (ws : List String) : Option (World × String) :=
  let m := kvs ws
  let g := fun k => (m.lookup k).bind u64?
  match g "t0", g "mid0", g "mstart", g "mdur", g "mgen", g "ddur", g "dgen" with
  | some t0, some mid0, some mstart, some mdur, some mgen, some ddur, some dgen =>
    let w := World.init t0 0 { id := mid0, start := mstart } { duration := mdur, genesis := mgen }
      { duration := ddur, genesis := dgen }
    let o := if w.mgr.isSome && w.dist.isSome then "ok" else "err"
    some (w, o ++ " " ++ showWorld w)
  | _, _, _, _, _, _, _ => none

def epochParseOp (op : String) (args : List String) : Option Op :=
  match op, args.mapM u64? with
  | "m_create", some [] => some (.m .create)
  | "d_create", some [] => some (.d .create)
  | "m_add_hook", some [k] => if k < nRecorders then some (.m (.addHook k)) else none
  | "m_remove_hook", some [k] => if k < nRecorders then some (.m (.removeHook k)) else none
  | "m_update_config", some [dur, gen] => some (.m (.updateConfig { duration := dur, genesis := gen }))
  | "d_update_config", some [dur, gen] => some (.d (.updateConfig { duration := dur, genesis := gen }))
  | _, _ => none

/-- `<height> <time> <sender> <op> <args…>` -/
def epochOp (w : World) (ws : List String) : World × String :=
  match ws with
  | h :: t :: snd :: op :: args =>
    match u64? h, u64? t, epochSender? snd, epochParseOp op args with
    | some _, some now, some sender, some o =>
      match w.step now sender o with
      | .ok w' => (w', "ok " ++ showWorld w')
      | .err => (w, "err " ++ showWorld w)
      | .panic => (w, "panic " ++ showWorld w)
    | _, _, _, _ => (w, "bad-op")
  | _ => (w, "bad-op")

end Driver
