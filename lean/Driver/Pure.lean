/- Pure-function calls: `call <fn> <args…>` -> one observation line. Stateless. -/
import Driver.Util
import WW.Model.CpSwap
namespace Driver
open WW

def showSwap (c : SwapComp) : String :=
  showNats [c.ret, c.spread, c.swapFee, c.protFee, c.burnFee]

def pureCall (ws : List String) : String :=
  match ws with
  | "cp_swap" :: args =>
    match nats? args with
    | some [op, ap, off, p, s, b] => showRes showSwap (cpSwap op ap off { prot := p, swap := s, burn := b })
    | _ => "bad-op"
  | "cp_rt" :: args =>
    match nats? args with
    | some [op, ap, off, p, s, b] =>
      let f : Fees := { prot := p, swap := s, burn := b }
      match cpSwap op ap off f with
      | .ok c =>
        let ap2 := ap - c.ret - c.protFee - c.burnFee
        if op + off > U128MAX then "ok " ++ showSwap c ++ " | skip"
        else "ok " ++ showSwap c ++ " | " ++ showRes showSwap (cpSwap ap2 (op + off) c.ret f)
      | r => showRes showSwap r
    | _ => "bad-op"
  | _ => "bad-op"

end Driver
