/- Pure-function calls: `call <fn> <args…>` -> one observation line. Stateless. -/
import Driver.Util
import WW.Model.CpSwap
import WW.Model.Slippage
import WW.Model.SlippageExec
import WW.Model.Weight
import Driver.Trio
namespace Driver
open WW

/-- `Option` argument: `none` or a number -/
def optNat? (w : String) : Option (Option Nat) :=
  if w == "none" then some none else (w.toNat?).map some

def showUnit (_ : Unit) : String := ""

/-- bounds the `slippage:exec` engine puts on the numbers of a self-contained executed case -/
def xMinPool : Nat := 2000
def xPoolCap : Nat := 2 ^ 100
def xSsCap : Nat := 2 ^ 80
def xPoolOk (cap x : Nat) : Bool := xMinPool ≤ x && x ≤ cap
def xAmtOk (cap x : Nat) : Bool := 1 ≤ x && x ≤ cap

/-- pair up `[a, b, c, d, …]` -/
def pairs? : List Nat → Option (List (Nat × Nat))
  | [] => some []
  | a :: b :: rest => (pairs? rest).map ((a, b) :: ·)
  | _ => none

def xRoute (toW : String) (offer : Nat) (ms minr : Option Nat) (prev : Nat) (f : Fees) (k : Nat)
    (res : List (Nat × Nat)) : String :=
  if !(toW == "self" || toW == "other") then "bad-op"
  else if !(1 ≤ k && k ≤ 3 && res.length == k) then "bad-op"
  else if !(xAmtOk xPoolCap offer && prev ≤ xPoolCap && f.valid
      && res.all (fun r => xPoolOk xPoolCap r.1 && xPoolOk xPoolCap r.2)) then "bad-op"
  else showRes (fun r => s!"recv={r}") (routeChecked f ms minr prev res offer)

def showSwap (c : SwapComp) : String :=
  showNats [c.ret, c.spread, c.swapFee, c.protFee, c.burnFee]

def pureCall (ws : List String) : String :=
  match ws with
  | "cp_swap" :: args =>
    match nats? args with
    | some [op, ap, off, p, s, b] => showRes showSwap (cpSwap op ap off { prot := p, swap := s, burn := b })
    | _ => "bad-op"
  | "cp_rt" :: args =>
    match nats? args with
    | some [op, ap, off, p, s, b] =>
      let f : Fees := { prot := p, swap := s, burn := b }
      match cpSwap op ap off f with
      | .ok c =>
        let ap2 := ap - c.ret - c.protFee - c.burnFee
        if op + off > U128MAX then "ok " ++ showSwap c ++ " | skip"
        else "ok " ++ showSwap c ++ " | " ++ showRes showSwap (cpSwap ap2 (op + off) c.ret f)
      | r => showRes showSwap r
    | _ => "bad-op"
  | ["max_spread", b, m, off, ret, sp] =>
    match optNat? b, optNat? m, nats? [off, ret, sp] with
    | some b, some m, some [off, ret, sp] => showRes showUnit (assertMaxSpread b m off ret sp)
    | _, _, _ => "bad-op"
  | "pair_slippage" :: kind :: tol :: args =>
    let k : Option PoolKind :=
      if kind == "cp" then some .constantProduct else if kind == "ss" then some .stableSwap else none
    match k, optNat? tol, nats? args with
    | some k, some t, some [d0, d1, p0, p1, amount, supply] =>
      showRes showUnit (pairAssertSlippage t d0 d1 p0 p1 k amount supply)
    | _, _, _ => "bad-op"
  | "trio_slippage" :: tol :: args =>
    match optNat? tol, nats? args with
    | some t, some [d0, d1, d2, p0, p1, p2, amount, supply] =>
      showRes showUnit (trioAssertSlippage t d0 d1 d2 p0 p1 p2 amount supply)
    | _, _ => "bad-op"
  | "min_receive" :: args =>
    match nats? args with
    | some [prev, m, cur] => showRes showUnit (assertMinimumReceive prev m cur)
    | _ => "bad-op"
  | ["x_swap", op, ap, off, pr, sw, bu, b, m] =>
    match nats? [op, ap, off, pr, sw, bu], optNat? b, optNat? m with
    | some [op, ap, off, pr, sw, bu], some b, some m =>
      let f : Fees := { prot := pr, swap := sw, burn := bu }
      if xPoolOk xPoolCap op && xPoolOk xPoolCap ap && xAmtOk xPoolCap off && f.valid then
        showRes (fun r => s!"recv={r}") (pairSwapChecked op ap off f b m)
      else "bad-op"
    | _, _, _ => "bad-op"
  | ["x_cp_deposit", p0, p1, d0, d1, tol] =>
    match nats? [p0, p1, d0, d1], optNat? tol with
    | some [p0, p1, d0, d1], some t =>
      if xPoolOk xPoolCap p0 && xPoolOk xPoolCap p1 && xAmtOk xPoolCap d0 && xAmtOk xPoolCap d1 then
        showRes (fun r => s!"lp={r}") (cpDepositChecked p0 p1 d0 d1 t)
      else "bad-op"
    | _, _ => "bad-op"
  | ["x_ss_deposit", p0, p1, d0, d1, amp, tol, amount, supply] =>
    match nats? [p0, p1, d0, d1, amp, amount, supply], optNat? tol with
    | some [p0, p1, d0, d1, amp, amount, supply], some t =>
      if xPoolOk xSsCap p0 && xPoolOk xSsCap p1 && xAmtOk xSsCap d0 && xAmtOk xSsCap d1
          && 1 ≤ amp && amp ≤ 1000000 then
        showRes (fun r => s!"lp={r}") (ssDepositChecked p0 p1 d0 d1 t amount supply)
      else "bad-op"
    | _, _ => "bad-op"
  | ["x_trio_deposit", p0, p1, p2, d0, d1, d2, amp, tol, amount, supply] =>
    match nats? [p0, p1, p2, d0, d1, d2, amp, amount, supply], optNat? tol with
    | some [p0, p1, p2, d0, d1, d2, amp, amount, supply], some t =>
      if xPoolOk xSsCap p0 && xPoolOk xSsCap p1 && xPoolOk xSsCap p2 && xAmtOk xSsCap d0
          && xAmtOk xSsCap d1 && xAmtOk xSsCap d2 && 1 ≤ amp && amp ≤ 1000000 then
        showRes (fun r => s!"lp={r}") (trioDepositChecked p0 p1 p2 d0 d1 d2 t amount supply)
      else "bad-op"
    | _, _ => "bad-op"
  | "x_route" :: k :: toW :: off :: m :: minr :: rest =>
    match nats? [k, off], optNat? m, optNat? minr, nats? rest with
    | some [k, off], some m, some minr, some (prev :: pr :: sw :: bu :: res) =>
      match pairs? res with
      | some res => xRoute toW off m minr prev { prot := pr, swap := sw, burn := bu } k res
      | none => "bad-op"
    | _, _, _, _ => "bad-op"
  | "weight" :: args =>
    match nats? args with
    | some [d, a] => showRes toString (calcWeight d a)
    | _ => "bad-op"
  | "weight2" :: args =>
    match nats? args with
    | some [d1, a1, d2, a2] =>
      showRes toString (calcWeight d1 a1) ++ " | " ++ showRes toString (calcWeight d2 a2)
    | _ => "bad-op"
  | fn :: args => if fn.startsWith "trio_" then Driver.Trio.pureCall fn args else "bad-op"
  | _ => "bad-op"

end Driver
