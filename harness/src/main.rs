//! wwharness: drives the real white-whale-core contracts / pure functions on generated or
//! replayed operation lines and prints canonical observation lines (see DESIGN.md appendix A).
mod common;
mod engines;

use common::{Engine, Monitor, Rng};
use std::collections::BTreeMap;
use std::io::{BufRead, Write};

fn arg(args: &[String], k: &str) -> Option<String> {
    args.iter().position(|a| a == k).and_then(|i| args.get(i + 1).cloned())
}

fn main() {
    if std::env::var("WWH_PANIC").is_ok() {
        std::panic::set_hook(Box::new(|i| eprintln!("panic: {i}")));
    } else {
        std::panic::set_hook(Box::new(|_| {}));
    }
    let args: Vec<String> = std::env::args().collect();
    if args.len() < 2 {
        eprintln!("usage: wwharness <engine> [--seed N] [--cases N] [--replay ops] --ops F --obs F --report F");
        std::process::exit(2);
    }
    let engine_name = args[1].clone();
    let seed: u64 = arg(&args, "--seed").and_then(|s| s.parse().ok()).unwrap_or(1);
    let cases: u64 = arg(&args, "--cases").and_then(|s| s.parse().ok()).unwrap_or(100);
    let ops_path = arg(&args, "--ops").expect("--ops");
    let obs_path = arg(&args, "--obs").expect("--obs");
    let report_path = arg(&args, "--report");
    let replay = arg(&args, "--replay");
    let variant = arg(&args, "--variant").unwrap_or_default();

    let mut eng: Box<dyn Engine> = match engines::make(&engine_name, &variant) {
        Some(e) => e,
        None => {
            eprintln!("unknown engine {engine_name}");
            std::process::exit(2);
        }
    };
    let mut mon = Monitor::default();
    let mut obs_out = std::io::BufWriter::new(std::fs::File::create(&obs_path).unwrap());
    let mut n_ops = 0u64;
    let mut outcome_mix: BTreeMap<String, u64> = BTreeMap::new();
    let mut op_mix: BTreeMap<String, u64> = BTreeMap::new();
    let mut tally = |line: &str, obs: &str, outcome_mix: &mut BTreeMap<String, u64>, op_mix: &mut BTreeMap<String, u64>| {
        let o = obs.split(' ').next().unwrap_or("").to_string();
        *outcome_mix.entry(o).or_insert(0) += 1;
        let toks: Vec<&str> = line.split_whitespace().collect();
        let opname = if toks.first() == Some(&"call") || toks.first() == Some(&"init") {
            toks.iter().take(2).cloned().collect::<Vec<_>>().join(" ")
        } else {
            toks.iter().find(|t| !t.chars().all(|c| c.is_ascii_digit())).cloned().unwrap_or("").to_string()
        };
        *op_mix.entry(opname).or_insert(0) += 1;
    };
    if let Some(rp) = replay {
        let f = std::io::BufReader::new(std::fs::File::open(&rp).unwrap());
        // the replayed lines with the answers recorded afresh from this run (`Engine::recorded`)
        let mut ops_out = std::io::BufWriter::new(std::fs::File::create(&ops_path).unwrap());
        for line in f.lines() {
            let line = line.unwrap();
            let t = line.trim();
            if t.is_empty() || t.starts_with('#') {
                continue;
            }
            if t.starts_with("init") {
                mon.case += 1;
                mon.step = 0;
            }
            let obs = eng.exec(t, &mut mon);
            tally(t, &obs, &mut outcome_mix, &mut op_mix);
            writeln!(ops_out, "{}", eng.recorded(t)).unwrap();
            writeln!(obs_out, "{obs}").unwrap();
            mon.step += 1;
            n_ops += 1;
        }
        ops_out.flush().unwrap();
    } else {
        let mut ops_out = std::io::BufWriter::new(std::fs::File::create(&ops_path).unwrap());
        let mut rng = Rng::new(seed);
        for case in 0..cases {
            mon.case = case;
            let mut step = 0u64;
            while let Some(line) = eng.next_op(&mut rng, step) {
                mon.step = step;
                let obs = eng.exec(&line, &mut mon);
                tally(&line, &obs, &mut outcome_mix, &mut op_mix);
                writeln!(ops_out, "{}", eng.recorded(&line)).unwrap();
                writeln!(obs_out, "{obs}").unwrap();
                step += 1;
                n_ops += 1;
            }
        }
        ops_out.flush().unwrap();
    }
    obs_out.flush().unwrap();
    if let Some(rp) = report_path {
        let failures: Vec<serde_json::Value> = mon
            .failures
            .iter()
            .map(|f| {
                serde_json::json!({"property": f.property, "monitor": f.monitor, "case": f.case, "step": f.step, "what": f.what, "tag": f.tag})
            })
            .collect();
        let rep = serde_json::json!({
            "engine": engine_name, "variant": variant, "seed": seed, "cases": mon.case + 1, "ops": n_ops,
            "outcome_mix": outcome_mix, "op_mix": op_mix,
            "monitor_checks": mon.checks, "monitor_failures": failures, "stats": mon.stats,
        });
        std::fs::write(rp, serde_json::to_string_pretty(&rep).unwrap()).unwrap();
    }
}
