//! Shared plumbing: PRNG, amount generators, monitor bookkeeping, panic capture.
use std::collections::BTreeMap;
use std::panic::{catch_unwind, AssertUnwindSafe};

#[derive(Clone)]
pub struct Rng(pub u64);
impl Rng {
    pub fn new(seed: u64) -> Self {
        // scramble the seed so that nearby seeds do not give shifted copies of one stream
        let mut z = seed ^ 0x1234_5678_9ABC_DEF1;
        for _ in 0..2 {
            z = (z ^ (z >> 30)).wrapping_mul(0xBF58476D1CE4E5B9);
            z = (z ^ (z >> 27)).wrapping_mul(0x94D049BB133111EB);
            z ^= z >> 31;
            z = z.wrapping_add(0x9E3779B97F4A7C15);
        }
        Rng(z)
    }
    pub fn next(&mut self) -> u64 {
        // splitmix64
        self.0 = self.0.wrapping_add(0x9E3779B97F4A7C15);
        let mut z = self.0;
        z = (z ^ (z >> 30)).wrapping_mul(0xBF58476D1CE4E5B9);
        z = (z ^ (z >> 27)).wrapping_mul(0x94D049BB133111EB);
        z ^ (z >> 31)
    }
    pub fn below(&mut self, n: u64) -> u64 {
        if n == 0 {
            0
        } else {
            self.next() % n
        }
    }
    pub fn range(&mut self, lo: u64, hi: u64) -> u64 {
        lo + self.below(hi - lo + 1)
    }
    pub fn chance(&mut self, num: u64, den: u64) -> bool {
        self.below(den) < num
    }
    pub fn u128(&mut self) -> u128 {
        ((self.next() as u128) << 64) | self.next() as u128
    }
    /// log-uniform in [1, 2^bits)
    pub fn log_uniform(&mut self, bits: u32) -> u128 {
        let b = self.range(1, bits as u64) as u32;
        let v = self.u128();
        let v = if b >= 128 { v } else { v & ((1u128 << b) - 1) };
        let top = 1u128 << (b - 1);
        (v | top).max(1)
    }
    pub fn pick<'a, T>(&mut self, xs: &'a [T]) -> &'a T {
        &xs[self.below(xs.len() as u64) as usize]
    }
    /// an amount: mostly log-uniform below 2^bits, sometimes a boundary value
    pub fn amount(&mut self, bits: u32) -> u128 {
        if self.chance(1, 8) {
            let b: [u128; 14] = [
                0,
                1,
                2,
                999,
                1000,
                1001,
                (1u128 << 64) - 1,
                1u128 << 64,
                (1u128 << 64) + 1,
                1_000_000,
                1_000_000_000_000_000_000,
                u128::MAX,
                u128::MAX - 1,
                1u128 << 127,
            ];
            let v = *self.pick(&b);
            if bits >= 128 {
                v
            } else {
                v.min((1u128 << bits) - 1)
            }
        } else {
            self.log_uniform(bits)
        }
    }
    /// fee share atomics (18 decimals): boundary-heavy
    pub fn fee_share(&mut self) -> u128 {
        const E18: u128 = 1_000_000_000_000_000_000;
        match self.below(10) {
            0 => 0,
            1 => 1,
            2 => E18 / 1000,
            3 => 3 * E18 / 1000,
            4 => E18 / 100,
            5 => E18 / 3,
            6 => self.u128() % (E18 / 10),
            7 => self.u128() % E18,
            8 => E18 / 10,
            _ => self.u128() % (E18 / 100),
        }
    }
    /// a valid fee triple (each < 1, sum < 1)
    pub fn valid_fees(&mut self) -> (u128, u128, u128) {
        const E18: u128 = 1_000_000_000_000_000_000;
        loop {
            let (a, b, c) = (self.fee_share(), self.fee_share(), self.fee_share());
            if a < E18 && b < E18 && c < E18 && a + b + c < E18 {
                return (a, b, c);
            }
        }
    }
}

/// Monitor bookkeeping: property monitors evaluated on the real implementation's observations.
#[derive(Default)]
pub struct Monitor {
    pub checks: BTreeMap<String, u64>,
    pub failures: Vec<MonFailure>,
    pub stats: BTreeMap<String, u64>,
    pub case: u64,
    pub step: u64,
}
#[derive(Clone, Debug)]
pub struct MonFailure {
    pub property: String,
    pub monitor: String,
    pub case: u64,
    pub step: u64,
    pub what: String,
    /// classification of the failing case (matched against known_findings.json signatures)
    pub tag: String,
}
impl Monitor {
    pub fn check(&mut self, property: &str, monitor: &str, ok: bool, what: impl FnOnce() -> String) {
        self.check_tag(property, monitor, "", ok, what)
    }
    pub fn check_tag(&mut self, property: &str, monitor: &str, tag: &str, ok: bool, what: impl FnOnce() -> String) {
        *self.checks.entry(format!("{property}:{monitor}")).or_insert(0) += 1;
        if !ok && self.failures.len() < 200 {
            self.failures.push(MonFailure {
                property: property.into(),
                monitor: monitor.into(),
                case: self.case,
                step: self.step,
                what: what(),
                tag: tag.into(),
            });
        }
    }
    pub fn stat(&mut self, k: &str) {
        *self.stats.entry(k.into()).or_insert(0) += 1;
    }
    pub fn stat_add(&mut self, k: &str, n: u64) {
        *self.stats.entry(k.into()).or_insert(0) += n;
    }
}

/// Outcome of running a piece of real code
pub enum Outcome<T> {
    Ok(T),
    Err(String),
    Panic,
}

impl<T> Outcome<T> {
    pub fn as_ok(&self) -> Option<&T> {
        match self {
            Outcome::Ok(x) => Some(x),
            _ => None,
        }
    }
}
pub fn guarded<T, E: std::fmt::Debug>(f: impl FnOnce() -> Result<T, E>) -> Outcome<T> {
    match catch_unwind(AssertUnwindSafe(f)) {
        Ok(Ok(v)) => Outcome::Ok(v),
        Ok(Err(e)) => Outcome::Err(format!("{e:?}")),
        Err(_) => Outcome::Panic,
    }
}

/// a constant of the contracts as regenerated by `tools/extract_constants.py` into
/// `lean/WW/Gen/Constants.lean` (the same file the Lean model imports; compiled in, so a changed
/// constant rebuilds the harness)
pub fn gen_const(name: &str) -> u64 {
    const SRC: &str = include_str!("../../lean/WW/Gen/Constants.lean");
    let pat = format!("def {name} : Nat := ");
    SRC.lines()
        .find_map(|l| l.trim().strip_prefix(pat.as_str()).and_then(|v| v.trim().parse::<u64>().ok()))
        .unwrap_or_else(|| panic!("constant {name} not found in lean/WW/Gen/Constants.lean"))
}

pub fn parse_u128s(ws: &[&str]) -> Option<Vec<u128>> {
    ws.iter().map(|w| w.parse::<u128>().ok()).collect()
}

pub fn mag_bucket(v: u128) -> String {
    if v == 0 {
        "0".into()
    } else {
        format!("2^{}", (127 - v.leading_zeros()) / 16 * 16)
    }
}

pub trait Engine {
    /// execute one op line on the real code; returns the canonical observation line
    fn exec(&mut self, line: &str, mon: &mut Monitor) -> String;
    /// next op line of the current generated case; None ends the case
    fn next_op(&mut self, rng: &mut Rng, step: u64) -> Option<String>;
    /// the op line as written to the ops file after `exec`: engines whose model takes answers of
    /// un-modelled contracts as parameters append them here (`@k=v` tokens recorded from the real run)
    fn recorded(&mut self, line: &str) -> String {
        line.to_string()
    }
}
