//! Engine `feeflow` (C07, C09, C10): the real fee pipeline on cw-multi-test —
//! fee collector + fee distributor + whale lair + pool factory with three constant-product pairs
//! (uatom/uwhale, uusdc/uwhale, uatom/uusdc) + router + vault factory with three vaults
//! (uwhale, uusdc, uatom) + a flash-loan borrower contract.
//!
//! Op lines: `<op> <height> <time_ns> <sender> <args…> [@k=v …]`.  The `@k=v` tokens are answers of
//! contracts that the Lean model does not contain (lair weights / bonded view, protocol fee accrued by a
//! swap or loan, router outputs); they are *recorded from the real run* by `exec` and written to the
//! ops file through `Engine::recorded`, so the driver sees them; `exec` ignores any it finds on a
//! replayed line and records them afresh.
//!
//! Besides `NewEpoch` (which makes the collector call itself) the engine sends the collector's own entry
//! points directly, in mid-history: `collect <h> <t> <sender> <target>` = `CollectFees` and
//! `aggregate <h> <t> <sender> <target> @outs=… @acc=…` = `AggregateFees`, with `<target>` one of
//! `vfac` | `pfac` (`Factory`, first page of 30) | `xfac` (the pool factory asked for vaults) |
//! `pool <k>` | `vault <k>` (`Contracts` naming one pair / vault; `k` out of range = no contract).
//! The code checks no sender on either: owner, traders, bonders and the stranger all send them.
//!
//! `--variant many` (C10): the same stack with 9 / 10 / 12 extra native "filler" assets `uxaa …`, each with
//! its own vault and its own pair against the distribution asset, created in shuffled order: MORE than
//! 10 registered pairs and MORE than 10 vaults, so that the factories' page sizes (default 10, maximum
//! 30; `ForwardFees` asks for 30) matter.  The factories list in STORAGE-KEY order (a vault's key is its
//! denom, a pair's key the two denoms sorted and concatenated), not in creation order; the generator
//! aims swaps / loans at the pairs / vaults beyond position 10 of that order, and the direct
//! `collect` / `aggregate` ops take an optional page limit (`vfac <n>` | `vfac -` = `limit: None`).
//! The init line names every pair (`pools=a.b,…`) and vault (`vaults=a,…`) in creation order; the
//! observation tokens `cbal pp vp reg on rt` simply have one entry per asset / pair / vault.
//!
//! DISTRIBUTION-ASSET SWITCHES.  `distasset <h> <t> <sender> <asset index>` = the distributor's
//! `UpdateConfig { distribution_asset }` (owner `admin`; a `stranger` must be rejected).  The collector asks
//! the distributor for the asset on every run, so the next NewEpoch aggregates into / forwards the new
//! asset while epochs funded in the old one are still inside the grace window; when such an epoch expires
//! its unclaimed fees are rolled into an epoch funded in another asset (an epoch then holds several).
//! `addroute` / `rmroute <asset> <kind> [<ask asset>]` take the ask asset of the route (default: the initial
//! distribution asset).  Observation: the tokens up to `daoset` keep their format (`dbal dao ub ep` = the
//! view in the INITIAL distribution asset, `ep` ledgers `-` | amount | `X` = anything else; `rt` = routes
//! towards the CURRENT distribution asset); appended: `dist=<current asset index>`,
//! `epa=<id>:<total>:<available>:<claimed>;…` with every ledger PER ASSET in vector order
//! (`-` | `asset.amount[+asset.amount…]`), `dbala` / `daoa` = distributor / DAO balance per asset,
//! `uba` = bonder balances per asset (`a.b.c` per bonder).
//!
//! STRAY COINS.  Any execute message can carry native coins.  The user-level ops `collect aggregate newepoch
//! claim fwd colcfg grace distasset addroute rmroute bond unbond` take optional TRAILING tokens
//! `+<asset idx>:<amount>` (coins of an asset of the world) and / or `+j:<amount>` (the unrelated denom
//! `zjunk`, minted to every sender at init), attached to the message by its sender (about 5 % of these
//! ops; route ops only ever get `+j`: the router would spend an asset of the world in its next swap).  No
//! entry point of the collector / distributor / router and not the lair's `Unbond` looks at `info.funds`:
//! the coins stay on the contract that received the message (a gift, then the op, atomically); the lair's
//! `Bond` refuses them (`validate_funds`: exactly one coin).  Observation tokens `jb=<zjunk on collector>,
//! <distributor>,<router>,<lair>` and `lb=<lair balance per asset>`.  The monitors judge an op with coins
//! attached as the op after the gift (`pre` + gift), so every exactness monitor below also says that the
//! coins are on the receiving contract and nowhere else.
//!
//! DENOM SHAPES.  `init … dn=<k>` (ignored by the driver: the model does not look at names) builds the world
//! with nasty denoms for the three base assets: 1 = the distribution asset is an IBC voucher with UPPER-CASE
//! hex; 2 = it is a token-factory denom `factory/<addr>/uusdc` whose last segment equals asset 1's denom (no
//! vault for it: the cw20 LP symbol `uLP-factory/` is refused); 3 = `uwhale` / `uWhaleX` / `uWhale` (case
//! variant, the distribution asset a prefix of asset 1); 4 = the lower-cased twin of the distribution
//! asset's IBC denom / a prefix of it / the IBC voucher; 5 = three IBC vouchers in ascending order (also in
//! `--variant many`).  A switch of the distribution asset makes the other shapes the distribution asset.
//!
//! MAGNITUDES.  Every funded sender holds 2^124 of every asset (total supply < 2^127: the mock bank's u128 balances
//! never overflow).  `init … pliq=<a,b,…> vliq=<a,b,…>` = liquidity of every pair (each side) / vault, 10^12 in one
//! world in three, else 2^24 … 2^118 (within a few bits of each other, all huge, or a mix).  Swap / loan / gift /
//! stray-coin amounts come from the whole range: log-uniform up to 2^120, scripted values around 2^64, 3.4e20
//! (= u128::MAX / 10^18, where an 18-decimals `Decimal` stops holding integers), 1e21, 1e27, 2^96, 2^100, 2^119, and
//! amounts relative to the liquidity they meet; 2 rounds in 5 the collector is handed such an amount of the current
//! distribution asset right before NewEpoch (take rate, transfer and epoch total at scale).  A `NewEpoch` / direct
//! `AggregateFees` that fails INSIDE THE ROUTER'S SWAP EXECUTION (spread above the collector's 50 % cap, swaps
//! disabled, overflow in a pair — reserves are not modelled) records `@xfail=err|panic`: the model then fails iff it
//! sends a swap message at all.
//!
//! HOSTILE REGISTERED CONTRACTS AND RE-ENTRANCY.  `pools=…,0.1h` / `vaults=…,0h` (trailing `h`) = that pair / vault is
//! the hostile contract of `mod hostile`, instantiated BY THE REAL FACTORY (`pair_code_id` / `vault_id` pointed at its
//! code for the one `CreatePair` / `CreateVault`): listed by `Pairs` / `Vaults`, found by the router, called by the
//! collector and the router like any pair / vault.  `nusers=6` adds bonder `u5`, the hostile contract's helper (a
//! contract that sends what it is told to from its own address; the engine also bonds / claims as `u5` through it).
//! `reenter <h> <t> <sender> <trig> <plain|catch> <inner op> [args] -- <outer op> [args]`: the hostile contract is
//! armed, then `<outer op>` (`newepoch` | `collect …` | `aggregate …`) is sent by `<sender>`; when the collector /
//! router calls the armed entry point (`p<k>` / `v<k>` = CollectProtocolFees of hostile pair / vault k, `s<k>` = Swap
//! of hostile pair k) the hostile contract sends `<inner op>` (`newepoch claim fwd collect aggregate bond unbond grace
//! distasset`, from `u5`) ONCE, plainly or as a sub-message it catches.  Recorded: the outer op's `@outs @acc`, the
//! nested op's `@ish @ir @iv @iouts @iacc @ixfail`, and `@hacc=<stage>.<asset>.<pair>.<side>.<pre>:<fee>` (the outer
//! op's accruals per swap; pre = 1: by a hop before the hostile pair fired).  The observation line of a `reenter` op
//! ends in `fired=0|1|2|-` (not triggered / nested message went through / refused and caught / transaction failed).
//! A transaction whose nested message went through is judged as the sequence of plain ops it amounts to (see `run`);
//! `conservation_across_transaction` (C10) is evaluated on the real bank balances of every collecting transaction.
//!
//! THE PIPELINE FROM INSIDE A FLASH-LOAN CALLBACK.  `inloan <h> <t> <sender> v<k> <amount> <exact|over<n>|short> -- <inner op>
//! [args]`: `<sender>` makes the borrower contract (`AdvMsg::Borrow`) take a flash loan of `<amount>` on the REAL registered
//! vault k; in its callback the borrower sends `<inner op>` (`newepoch claim fwd collect aggregate grace distasset colcfg
//! addroute rmroute`: every message of the pipeline's contracts that needs no funds; its sender is the borrower, so the
//! owner-only ones must be refused and revert the loan), then tops the vault up to the balance `after_trade` requires
//! (`exact`), to `<n>` more (`over<n>`) or to one unit less (`short`: the whole transaction must revert) — it thereby
//! makes up for the pending fees the vault paid out to the collector in mid-loan.  Recorded: `@vb=<the vault's bank
//! balance before>`, `@vfees=<prot>.<flash>.<burn>` (fee shares from its `Config` query), and the inner op's own answers
//! (`@outs @acc @xfail @sh`).  The observation line ends in `lvb=<the lending vault's bank balance after>`.  Judging: the
//! loan's own effects are checked on the real bank balances and ledgers (`inloan_ledger_eq`: pending = pending before +
//! charged (all-time ledger) - paid out of the bank balance in mid-loan; `inloan_vault_ends_with_fees`;
//! `inloan_fee_charged_as_quoted`; `inloan_short_repayment_reverts`; `inloan_failed_leaves_no_trace`;
//! `inloan_counter_restored`, all tagged C07 and C10), then the transaction is judged AS THE INNER OP by every monitor
//! below (collection exactness, pipeline stages, take rate, epoch ledgers, conservation across the transaction) on the
//! observation with the loan's own effects removed (the lender's pending ledger without the fee charged for this loan,
//! its bank balance without what the borrower paid net of the loan).  Generator: 1 round in 3 the round's NewEpoch is
//! sent from inside a loan (the lender mostly with fees pending: an ordinary loan on it comes first when it has none),
//! about 1 in-round op in 12 is a direct collection / aggregation / refused message sent from inside a loan; amounts up
//! to balance - pending, exactly that, one more (the vault then cannot pay its fees out and everything reverts), the
//! whole balance.  Stats `inloan_*` (inner op x repay mode x outcome, pending on the lender, paid out in mid-loan).
//!
//! C07 monitors (`collect_*`): a direct or pipeline collection moves exactly the pending fees above the
//! thresholds from each pair / vault to the collector, pair reserves and vault share backing unchanged
//! (reserves move only by what the aggregation swaps of the same transaction traded), and nothing of what
//! the caller attached is on a pair / vault / factory / the DAO.
//!
//! The monitors evaluate C09 / C10 as stated on the real observations, PER ASSET (balance deltas against ledger
//! deltas), using only their own bookkeeping (who bonded when, who was paid for which epoch, which epoch
//! has left the grace window) — never the model.
use crate::common::*;
use cosmwasm_std::{
    coin, coins, to_json_binary, Addr, BankMsg, Binary, CosmosMsg, Decimal, Empty, Response, StdError, Timestamp,
    Uint64, WasmMsg,
};
use cw_multi_test::{App, AppBuilder, AppResponse, BankKeeper, ContractWrapper, Executor};
use serde::{Deserialize, Serialize};
use std::collections::{BTreeMap, BTreeSet};
use white_whale_std::epoch_manager::epoch_manager::EpochConfig;
use white_whale_std::fee::{Fee, VaultFee};
use white_whale_std::fee_collector as fc;
use white_whale_std::fee_distributor as fd;
use white_whale_std::pool_network::asset::{Asset, AssetInfo, PairType};
use white_whale_std::pool_network::pair::{FeatureToggle, PoolFee};
use white_whale_std::pool_network::{factory as f, pair as p, router as r};
use white_whale_std::vault_network::{vault as v, vault_factory as vf};
use white_whale_std::whale_lair as wl;

const ASSETS: [&str; 3] = ["uatom", "uusdc", "uwhale"]; // ascending label order = aggregation order
const DIST: usize = 2;
const POOLS: [(usize, usize); 3] = [(0, 2), (1, 2), (0, 1)];
const VAULTS: [usize; 3] = [2, 1, 0];
const BOND_DENOMS: [&str; 2] = ["ampwhale", "bwhale"];
const NUSERS: usize = 5;
const DAY: u64 = 86_400_000_000_000;
const T0: u64 = 1_600_000_000_000_000_000;
const E18: u128 = 1_000_000_000_000_000_000;
const THRESH: u128 = 1000;
/// what each funded sender holds of every asset
const BIG: u128 = 1u128 << 124;
/// the largest integer `Decimal::from_atomics(x, 0)` accepts: u128::MAX / 10^18 = 340282366920938463463 (3.4e20)
const DEC_INT_MAX: u128 = u128::MAX / E18;

/// an amount from the WHOLE range the contracts' u128 arithmetic has to cope with: log-uniform up to 2^120, or a
/// scripted value around 2^64, 3.4e20 (where an 18-decimals `Decimal` stops holding integers), 1e21, 1e27,
/// 2^96, 2^100, 2^119
fn wide_amount(rng: &mut Rng) -> u128 {
    if rng.chance(2, 5) {
        let base = *rng.pick(&[
            1u128 << 64,
            DEC_INT_MAX,
            DEC_INT_MAX,
            340_000_000_000_000_000_000,
            10u128.pow(21),
            10u128.pow(27),
            1u128 << 96,
            1u128 << 100,
            1u128 << 119,
        ]);
        match rng.below(6) {
            0 => base - 1,
            1 => base,
            2 => base + 1,
            3 => base + 1 + rng.below(1_000_000) as u128,
            4 => base - 1 - rng.below(1_000_000) as u128,
            _ => base / 10 * (10 + rng.below(10) as u128),
        }
    } else {
        rng.log_uniform(120)
    }
}

#[derive(Debug, Deserialize, Clone, Serialize)]
#[serde(rename_all = "snake_case")]
pub enum AdvMsg {
    Run { msgs: Vec<CosmosMsg> },
    /// dry run: executes the messages, then FAILS with `probe:ok` / `probe:err` in the error text (nothing persists)
    Probe { msgs: Vec<CosmosMsg> },
    /// dry run that keeps the error chain: executes the messages plainly, then fails (`dryrun:end`); if one of the
    /// messages fails, the transaction's error is that message's whole chain
    DryRun { msgs: Vec<CosmosMsg> },
    Fail {},
    /// THE FLASH-LOAN BORROWER: take a loan of `amount` on `vault`; in the callback send `msgs`, then top the vault up
    /// to the balance its `after_trade` requires (`short`: to one unit less; otherwise to `extra` more)
    Borrow { vault: String, denom: String, amount: cosmwasm_std::Uint128, msgs: Vec<CosmosMsg>, extra: cosmwasm_std::Uint128, short: bool },
    /// the vault's callback (the loan is attached): the balance the vault has to reach = its balance now (down by the
    /// loan) + `GetPaybackAmount`; then the nested messages; then `Repay`
    LoanCallback { vault: String, denom: String, amount: cosmwasm_std::Uint128, msgs: Vec<CosmosMsg>, extra: cosmwasm_std::Uint128, short: bool },
    /// after the nested messages: send whatever the vault's balance is short of `target` (+ `extra` / - 1)
    Repay { vault: String, denom: String, target: cosmwasm_std::Uint128, extra: cosmwasm_std::Uint128, short: bool },
}

fn adv_contract() -> Box<dyn cw_multi_test::Contract<Empty>> {
    Box::new(
        ContractWrapper::new(
            |d: cosmwasm_std::DepsMut, env: cosmwasm_std::Env, _i, msg: AdvMsg| -> Result<Response, StdError> {
                match msg {
                    AdvMsg::Borrow { vault, denom, amount, msgs, extra, short } => Ok(Response::new().add_message(WasmMsg::Execute {
                        contract_addr: vault.clone(),
                        msg: to_json_binary(&v::ExecuteMsg::FlashLoan {
                            amount,
                            msg: to_json_binary(&AdvMsg::LoanCallback { vault, denom, amount, msgs, extra, short })?,
                        })?,
                        funds: vec![],
                    })),
                    AdvMsg::LoanCallback { vault, denom, amount, msgs, extra, short } => {
                        let now = d.querier.query_balance(&vault, &denom)?.amount;
                        let pay: v::PaybackAmountResponse = d.querier.query_wasm_smart(&vault, &v::QueryMsg::GetPaybackAmount { amount })?;
                        let target = now.checked_add(pay.payback_amount).map_err(StdError::overflow)?;
                        Ok(Response::new().add_messages(msgs).add_message(WasmMsg::Execute {
                            contract_addr: env.contract.address.to_string(),
                            msg: to_json_binary(&AdvMsg::Repay { vault, denom, target, extra, short })?,
                            funds: vec![],
                        }))
                    }
                    AdvMsg::Repay { vault, denom, target, extra, short } => {
                        let now = d.querier.query_balance(&vault, &denom)?.amount;
                        let need = target.saturating_sub(now);
                        let pay = if short { need.saturating_sub(cosmwasm_std::Uint128::one()) } else { need.checked_add(extra).map_err(StdError::overflow)? };
                        let mut r = Response::new().add_attribute("borrower_repaid", pay.to_string());
                        if !pay.is_zero() {
                            r = r.add_message(BankMsg::Send { to_address: vault, amount: coins(pay.u128(), denom) });
                        }
                        Ok(r)
                    }
                    AdvMsg::Run { msgs } => Ok(Response::new().add_messages(msgs)),
                    AdvMsg::DryRun { msgs } => Ok(Response::new().add_messages(msgs).add_message(WasmMsg::Execute {
                        contract_addr: env.contract.address.to_string(),
                        msg: to_json_binary(&AdvMsg::Fail {})?,
                        funds: vec![],
                    })),
                    AdvMsg::Fail {} => Err(StdError::generic_err("dryrun:end")),
                    AdvMsg::Probe { msgs } => {
                        let n = msgs.len();
                        let mut subs: Vec<cosmwasm_std::SubMsg> = msgs.into_iter().map(|m| cosmwasm_std::SubMsg::reply_on_error(m, 7)).collect();
                        if let Some(last) = subs.pop() {
                            subs.push(cosmwasm_std::SubMsg::reply_always(last.msg, 7));
                        }
                        let _ = n;
                        Ok(Response::new().add_submessages(subs))
                    }
                }
            },
            |_d, _e, _i, _m: Empty| -> Result<Response, StdError> { Ok(Response::new()) },
            |_d, _e, _m: Empty| -> Result<Binary, StdError> { Err(StdError::generic_err("no")) },
        )
        .with_reply(|_d, _e, r: cosmwasm_std::Reply| -> Result<Response, StdError> {
            Err(StdError::generic_err(match r.result {
                cosmwasm_std::SubMsgResult::Ok(_) => "probe:ok",
                cosmwasm_std::SubMsgResult::Err(_) => "probe:err",
            }))
        }),
    )
}

/// THE HOSTILE REGISTERED CONTRACT.  A contract that can be instantiated by the REAL pool factory (`CreatePair` after
/// the factory's owner pointed `pair_code_id` at its code: it accepts the pair `InstantiateMsg` and answers the
/// `Pair {}` query the factory's reply makes) and by the REAL vault factory (`CreateVault` after `vault_id` was
/// pointed at it: it accepts the vault `InstantiateMsg`; the factory's reply only reads the new address), so it is
/// listed by `Pairs` / `Vaults`, found by the router's `Pair { asset_infos }` lookup, and called by the fee
/// collector (`CollectProtocolFees`) and by the router (`Swap`, `Simulation`) like any pair / vault.  It holds no
/// fees (`ProtocolFees` = 0), pays swaps 1:1 out of its own pocket, obeys `UpdateConfig { feature_toggle }` — and,
/// when ARMED, sends one message of its own (through its helper contract, the `agent`) the next time the armed
/// entry point (`collect` = `CollectProtocolFees`, `swap` = `Swap`) is called: plainly (a failure of the nested
/// message fails the caller's transaction) or as a sub-message with `reply_on: Always` (it swallows the failure).
/// Whether it fired and what became of the nested message is kept in its storage (`Report {}`) and marked in the
/// transaction's events (`hostile_fire` … `hostile_inner_done`).
mod hostile {
    use super::AdvMsg;
    use cosmwasm_std::{
        to_json_binary, Addr, BankMsg, Binary, Coin, CosmosMsg, Decimal, Deps, DepsMut, Empty, Env, MessageInfo, Reply,
        Response, StdError, StdResult, SubMsg, Uint128, WasmMsg,
    };
    use cw_multi_test::{Contract, ContractWrapper};
    use cw_storage_plus::Item;
    use serde::{Deserialize, Serialize};
    use white_whale_std::fee::{Fee, VaultFee};
    use white_whale_std::pool_network::asset::{Asset, AssetInfo, PairInfo, PairType};
    use white_whale_std::pool_network::pair as p;
    use white_whale_std::vault_network::vault as v;

    #[derive(Serialize, Deserialize, Clone, Debug, PartialEq)]
    pub enum Role {
        Pair([AssetInfo; 2]),
        Vault(AssetInfo),
    }
    #[derive(Serialize, Deserialize, Clone, Debug)]
    pub struct Arm {
        /// `collect` | `swap`
        pub trigger: String,
        pub agent: String,
        pub msgs: Vec<CosmosMsg>,
        pub catch: bool,
    }
    #[derive(Serialize, Deserialize, Clone, Debug, Default)]
    pub struct Report {
        pub fired: bool,
        pub inner_ok: Option<bool>,
        pub inner_err: String,
    }
    const ROLE: Item<Role> = Item::new("role");
    const OWNER: Item<Addr> = Item::new("owner");
    const ARM: Item<Arm> = Item::new("arm");
    const REPORT: Item<Report> = Item::new("report");
    const SWAPS_ON: Item<bool> = Item::new("swaps_on");

    /// the pair's and the vault's `InstantiateMsg` both parse as this (unknown fields are ignored)
    #[derive(Serialize, Deserialize, Clone, Debug)]
    pub struct InstantiateMsg {
        #[serde(default)]
        pub asset_infos: Option<[AssetInfo; 2]>,
        #[serde(default)]
        pub asset_info: Option<AssetInfo>,
    }

    #[derive(Serialize, Deserialize, Clone, Debug)]
    #[serde(rename_all = "snake_case")]
    pub enum ExecuteMsg {
        CollectProtocolFees {},
        Swap {
            offer_asset: Asset,
            #[serde(default)]
            belief_price: Option<Decimal>,
            #[serde(default)]
            max_spread: Option<Decimal>,
            #[serde(default)]
            to: Option<String>,
        },
        UpdateConfig {
            #[serde(default)]
            feature_toggle: Option<p::FeatureToggle>,
        },
        Arm(Arm),
        Disarm {},
    }

    #[derive(Serialize, Deserialize, Clone, Debug)]
    #[serde(rename_all = "snake_case")]
    pub enum QueryMsg {
        Pair {},
        Pool {},
        Config {},
        ProtocolFees {
            #[serde(default)]
            asset_id: Option<String>,
            #[serde(default)]
            all_time: Option<bool>,
        },
        Simulation { offer_asset: Asset },
        Report {},
    }

    fn instantiate(deps: DepsMut, _env: Env, info: MessageInfo, msg: InstantiateMsg) -> StdResult<Response> {
        let role = match (msg.asset_infos, msg.asset_info) {
            (Some(a), _) => Role::Pair(a),
            (None, Some(a)) => Role::Vault(a),
            _ => return Err(StdError::generic_err("hostile: neither a pair nor a vault instantiate message")),
        };
        ROLE.save(deps.storage, &role)?;
        OWNER.save(deps.storage, &info.sender)?;
        SWAPS_ON.save(deps.storage, &true)?;
        REPORT.save(deps.storage, &Report::default())?;
        Ok(Response::new().add_attribute("action", "instantiate"))
    }

    /// the armed entry point is being called: send the nested message(s) once, through the agent
    fn fire(deps: DepsMut, trigger: &str) -> StdResult<(Vec<SubMsg>, Vec<(String, String)>)> {
        let Some(arm) = ARM.may_load(deps.storage)? else { return Ok((vec![], vec![])) };
        if arm.trigger != trigger {
            return Ok((vec![], vec![]));
        }
        ARM.remove(deps.storage);
        REPORT.save(deps.storage, &Report { fired: true, inner_ok: None, inner_err: String::new() })?;
        let inner = WasmMsg::Execute {
            contract_addr: arm.agent,
            msg: to_json_binary(&AdvMsg::Run { msgs: arm.msgs })?,
            funds: vec![],
        };
        let sub = if arm.catch { SubMsg::reply_always(inner, 1) } else { SubMsg::reply_on_success(inner, 1) };
        Ok((vec![sub], vec![("hostile".to_string(), "fire".to_string())]))
    }

    fn execute(deps: DepsMut, env: Env, info: MessageInfo, msg: ExecuteMsg) -> StdResult<Response> {
        match msg {
            ExecuteMsg::CollectProtocolFees {} => {
                let (subs, attrs) = fire(deps, "collect")?;
                Ok(Response::new().add_attribute("action", "collect_protocol_fees").add_attributes(attrs).add_submessages(subs))
            }
            ExecuteMsg::Swap { offer_asset, to, .. } => {
                let Role::Pair(infos) = ROLE.load(deps.storage)? else { return Err(StdError::generic_err("hostile: no pair")) };
                if !SWAPS_ON.load(deps.storage)? {
                    return Err(StdError::generic_err("Operation disabled, swap"));
                }
                let ask = if offer_asset.info == infos[0] {
                    infos[1].clone()
                } else if offer_asset.info == infos[1] {
                    infos[0].clone()
                } else {
                    return Err(StdError::generic_err("hostile: asset mismatch"));
                };
                let (AssetInfo::NativeToken { denom: offer_denom }, AssetInfo::NativeToken { denom: ask_denom }) = (offer_asset.info.clone(), ask) else {
                    return Err(StdError::generic_err("hostile: native assets only"));
                };
                // the offer must be attached
                if !info.funds.iter().any(|c| c.denom == offer_denom && c.amount == offer_asset.amount) {
                    return Err(StdError::generic_err("hostile: funds mismatch"));
                }
                let receiver = to.unwrap_or_else(|| info.sender.to_string());
                let (subs, attrs) = fire(deps, "swap")?;
                // 1 : 1, no fees; first the nested message, then the payout
                Ok(Response::new()
                    .add_attributes(vec![
                        ("action", "swap".to_string()),
                        ("sender", info.sender.to_string()),
                        ("receiver", receiver.clone()),
                        ("offer_asset", offer_denom),
                        ("ask_asset", ask_denom.clone()),
                        ("offer_amount", offer_asset.amount.to_string()),
                        ("return_amount", offer_asset.amount.to_string()),
                        ("spread_amount", "0".to_string()),
                        ("swap_fee_amount", "0".to_string()),
                        ("protocol_fee_amount", "0".to_string()),
                        ("burn_fee_amount", "0".to_string()),
                    ])
                    .add_attributes(attrs)
                    .add_submessages(subs)
                    .add_message(BankMsg::Send { to_address: receiver, amount: vec![Coin { denom: ask_denom, amount: offer_asset.amount }] }))
            }
            ExecuteMsg::UpdateConfig { feature_toggle } => {
                if info.sender != OWNER.load(deps.storage)? {
                    return Err(StdError::generic_err("Unauthorized"));
                }
                if let Some(t) = feature_toggle {
                    SWAPS_ON.save(deps.storage, &t.swaps_enabled)?;
                }
                Ok(Response::new().add_attribute("action", "update_config"))
            }
            ExecuteMsg::Arm(arm) => {
                ARM.save(deps.storage, &arm)?;
                REPORT.save(deps.storage, &Report::default())?;
                Ok(Response::new())
            }
            ExecuteMsg::Disarm {} => {
                ARM.remove(deps.storage);
                let _ = env;
                Ok(Response::new())
            }
        }
    }

    fn reply(deps: DepsMut, _env: Env, msg: Reply) -> StdResult<Response> {
        let mut r = REPORT.may_load(deps.storage)?.unwrap_or_default();
        match msg.result {
            cosmwasm_std::SubMsgResult::Ok(_) => r.inner_ok = Some(true),
            cosmwasm_std::SubMsgResult::Err(e) => {
                r.inner_ok = Some(false);
                r.inner_err = e;
            }
        }
        REPORT.save(deps.storage, &r)?;
        Ok(Response::new().add_attribute("hostile", "inner_done"))
    }

    fn query(deps: Deps, env: Env, msg: QueryMsg) -> StdResult<Binary> {
        let role = ROLE.load(deps.storage)?;
        let zero_fee = || Fee { share: Decimal::zero() };
        match (msg, role) {
            (QueryMsg::Report {}, _) => to_json_binary(&REPORT.may_load(deps.storage)?.unwrap_or_default()),
            (QueryMsg::Pair {}, Role::Pair(infos)) => to_json_binary(&PairInfo {
                asset_infos: infos,
                contract_addr: env.contract.address.to_string(),
                liquidity_token: AssetInfo::NativeToken { denom: "hostilelp".to_string() },
                asset_decimals: [6, 6],
                pair_type: PairType::ConstantProduct,
            }),
            (QueryMsg::Pool {}, Role::Pair(infos)) => {
                let mut assets = vec![];
                for i in infos.iter() {
                    let AssetInfo::NativeToken { denom } = i else { return Err(StdError::generic_err("hostile: native only")) };
                    let b = deps.querier.query_balance(&env.contract.address, denom)?;
                    assets.push(Asset { info: i.clone(), amount: b.amount });
                }
                to_json_binary(&p::PoolResponse { assets, total_share: Uint128::zero() })
            }
            (QueryMsg::Config {}, Role::Pair(_)) => to_json_binary(&p::Config {
                owner: OWNER.load(deps.storage)?,
                fee_collector_addr: env.contract.address.clone(),
                pool_fees: p::PoolFee { protocol_fee: zero_fee(), swap_fee: zero_fee(), burn_fee: zero_fee() },
                feature_toggle: p::FeatureToggle {
                    withdrawals_enabled: true,
                    deposits_enabled: true,
                    swaps_enabled: SWAPS_ON.load(deps.storage)?,
                },
            }),
            (QueryMsg::ProtocolFees { .. }, Role::Pair(infos)) => to_json_binary(&p::ProtocolFeesResponse {
                fees: infos.iter().map(|i| Asset { info: i.clone(), amount: Uint128::zero() }).collect(),
            }),
            (QueryMsg::Simulation { offer_asset }, Role::Pair(_)) => to_json_binary(&p::SimulationResponse {
                return_amount: offer_asset.amount,
                spread_amount: Uint128::zero(),
                swap_fee_amount: Uint128::zero(),
                protocol_fee_amount: Uint128::zero(),
                burn_fee_amount: Uint128::zero(),
            }),
            (QueryMsg::Config {}, Role::Vault(info)) => to_json_binary(&v::Config {
                owner: OWNER.load(deps.storage)?,
                asset_info: info,
                flash_loan_enabled: false,
                deposit_enabled: false,
                withdraw_enabled: false,
                lp_asset: AssetInfo::NativeToken { denom: "hostilelp".to_string() },
                fee_collector_addr: env.contract.address.clone(),
                fees: VaultFee { protocol_fee: zero_fee(), flash_loan_fee: zero_fee(), burn_fee: zero_fee() },
            }),
            (QueryMsg::ProtocolFees { .. }, Role::Vault(info)) => {
                to_json_binary(&v::ProtocolFeesResponse { fees: Asset { info, amount: Uint128::zero() } })
            }
            _ => Err(StdError::generic_err("hostile: query not answered in this role")),
        }
    }

    pub fn contract() -> Box<dyn Contract<Empty>> {
        Box::new(ContractWrapper::new(execute, instantiate, query).with_reply(reply))
    }
}

fn nat(d: &str) -> AssetInfo {
    AssetInfo::NativeToken { denom: d.into() }
}

/// the unrelated denom every sender holds (stray coins `+j:<amount>`)
const JUNK: &str = "zjunk";
/// an IBC voucher: UPPER-CASE hex (what `ibc/<sha256 of the trace>` looks like on a real chain)
const IBC_A: &str = "ibc/27394FB092D2ECCD56123C74F36E4C1F926001CEADA9CA97EA622B25F41E5EB2";
const IBC_0: &str = "ibc/0471F1C4E7AFD3F07702BEF6DC365268D64570F7C1FDC98EA6098DD6DE59817B";
const IBC_1: &str = "ibc/13B2C536BB057AC79D5616B8EA1B9540EC1F2170718CAFF6F0083C966FFFED0B";

/// denoms of the three base assets for the denom shape `dn` (see the module doc).  NOT instantiable, noted:
/// a vault for a `factory/…` denom (cw20 LP symbol `uLP-factory/` has a `/`), denoms with digits as vault
/// assets unless they start with `ibc` (symbol letters only), and two IBC vouchers whose hashes share the
/// first and the last four characters (the collector's TMP_ASSET_INFOS is keyed by the LABEL `ibc/abcd...wxyz`).
fn base_denoms(dn: u64) -> [String; 3] {
    let v: [&str; 3] = match dn {
        1 => ["uatom", "uusdc", IBC_A],
        2 => ["uatom", "uusdc", "factory/migaloo1contractaddressofthecreator0xyz/uusdc"],
        3 => ["uwhale", "uWhaleX", "uWhale"],
        4 => ["", "ibc/27394FB0", IBC_A],
        5 => [IBC_0, IBC_1, IBC_A],
        _ => ASSETS,
    };
    let mut out = v.map(|x| x.to_string());
    if dn == 4 {
        out[0] = IBC_A.to_lowercase(); // "ibc/27394fb0…": differs from the distribution asset only in case
    }
    out
}

/// denom of asset `i`: the three base assets (by denom shape), then the fillers `uxaa, uxab, …` (all above
/// `uwhale` and above `ibc/…`, fixed width: ascending in index order and prefix-free)
fn asset_denom(dn: u64, i: usize) -> String {
    if i < ASSETS.len() {
        base_denoms(dn)[i].clone()
    } else {
        // letters only: the vault's LP token symbol `uLP-<denom>` must match [a-zA-Z\-]{3,12}
        let k = i - ASSETS.len();
        assert!(k < 26 * 26, "too many filler assets");
        format!("ux{}{}", (b'a' + (k / 26) as u8) as char, (b'a' + (k % 26) as u8) as char)
    }
}

#[derive(Clone, Debug, PartialEq, Eq)]
enum Amt {
    Empty,
    One(u128),
    /// more than one asset / not the distribution asset: outside the model's assumption
    Other,
}
impl Amt {
    fn of(d0: &str, v: &[Asset]) -> Amt {
        match v {
            [] => Amt::Empty,
            [a] if a.info == nat(d0) => Amt::One(a.amount.u128()),
            _ => Amt::Other,
        }
    }
    /// the same view of a ledger given per asset index
    fn of_led(l: &Led) -> Amt {
        match l.as_slice() {
            [] => Amt::Empty,
            [(k, x)] if *k == DIST => Amt::One(*x),
            _ => Amt::Other,
        }
    }
    fn show(&self) -> String {
        match self {
            Amt::Empty => "-".into(),
            Amt::One(x) => x.to_string(),
            Amt::Other => "X".into(),
        }
    }
}

/// a `Vec<Asset>` per asset: (asset index, amount) in vector order; an asset the world does not know = 999
type Led = Vec<(usize, u128)>;

fn led_of(assets: &[String], v: &[Asset]) -> Led {
    v.iter()
        .map(|a| {
            let idx = match &a.info {
                AssetInfo::NativeToken { denom } => assets.iter().position(|d| d == denom).unwrap_or(999),
                _ => 999,
            };
            (idx, a.amount.u128())
        })
        .collect()
}

/// amount of asset `a` on a ledger
fn amt_of(l: &Led, a: usize) -> u128 {
    l.iter().filter(|(k, _)| *k == a).map(|(_, x)| *x).sum()
}

fn show_led(l: &Led) -> String {
    if l.is_empty() {
        "-".into()
    } else {
        l.iter().map(|(a, x)| format!("{a}.{x}")).collect::<Vec<_>>().join("+")
    }
}

#[derive(Clone, Debug, PartialEq, Eq)]
struct Ep {
    id: u64,
    start: u64,
    // legacy single-asset view w.r.t. the initial distribution asset (token `ep`)
    total: Amt,
    avail: Amt,
    claimed: Amt,
    // the ledgers per asset (token `epa`)
    total_l: Led,
    avail_l: Led,
    claimed_l: Led,
}

/// real-world quantities the C07 collection monitors compare before / after a collection (not part of the
/// observation line: the model has no reserves)
#[derive(Clone, Debug, Default)]
struct Extra {
    /// bank balance of every pair in its two assets
    pool_bal: Vec<(u128, u128)>,
    /// reserves as reported by the pair's `Pool {}` query, and its LP supply
    pool_res: Vec<(u128, u128, u128)>,
    /// bank balance of every vault in its asset, and its LP supply
    vault_bal: Vec<u128>,
    vault_sup: Vec<u128>,
    /// the unrelated denom on pairs, vaults, factories, the DAO, the borrower
    junk_elsewhere: u128,
    /// assets of the world on a pair that does not trade them / on a vault of another asset
    foreign_on_pools: u128,
    foreign_on_vaults: u128,
}

#[derive(Clone, Debug, PartialEq, Eq, Default)]
struct Obs {
    grace: u64,
    dbal: u128,
    dao: u128,
    cbal: Vec<u128>,
    eps: Vec<Ep>, // newest first
    trh: Vec<(u64, u128)>,
    /// asset (index into the world's denoms, 999 = a denom that is none of them) of each take-rate record;
    /// not printed: the model does not look at names
    trha: Vec<(u64, usize)>,
    ub: Vec<u128>,
    cl: Vec<Vec<u64>>,
    pp: Vec<(u128, u128)>,
    vp: Vec<u128>,
    reg: Vec<bool>,
    on: Vec<bool>,
    rt: Vec<u8>,
    rate: u128,
    active: bool,
    dao_set: bool,
    /// index of the distributor's CURRENT distribution asset
    dist: usize,
    /// distributor / DAO / bonder balances per asset
    dbala: Vec<u128>,
    daoa: Vec<u128>,
    uba: Vec<Vec<u128>>,
    /// the unrelated denom on collector / distributor / router / lair
    jb: [u128; 4],
    /// the lair's balance per asset of the world
    lb: Vec<u128>,
}

fn join<T: ToString>(xs: &[T], sep: &str) -> String {
    if xs.is_empty() {
        "-".into()
    } else {
        xs.iter().map(|x| x.to_string()).collect::<Vec<_>>().join(sep)
    }
}

impl Obs {
    fn line(&self) -> String {
        let eps: Vec<String> = self
            .eps
            .iter()
            .map(|e| format!("{}:{}:{}:{}:{}", e.id, e.start, e.total.show(), e.avail.show(), e.claimed.show()))
            .collect();
        let epa: Vec<String> = self
            .eps
            .iter()
            .map(|e| format!("{}:{}:{}:{}", e.id, show_led(&e.total_l), show_led(&e.avail_l), show_led(&e.claimed_l)))
            .collect();
        let uba: Vec<String> = self.uba.iter().map(|u| join(u, ".")).collect();
        let trh: Vec<String> = self.trh.iter().map(|(i, a)| format!("{i}:{a}")).collect();
        let cl: Vec<String> = self.cl.iter().map(|l| join(l, ".")).collect();
        let pp: Vec<String> = self.pp.iter().map(|(a, b)| format!("{a}:{b}")).collect();
        let b = |xs: &[bool]| xs.iter().map(|x| if *x { "1" } else { "0" }).collect::<String>();
        format!(
            "grace={} dbal={} dao={} cbal={} ep={} trh={} ub={} cl={} pp={} vp={} reg={} on={} rt={} rate={} active={} daoset={} dist={} epa={} dbala={} daoa={} uba={} jb={} lb={}",
            self.grace,
            self.dbal,
            self.dao,
            join(&self.cbal, ","),
            join(&eps, ";"),
            join(&trh, ";"),
            join(&self.ub, ","),
            cl.join("|"),
            pp.join("|"),
            join(&self.vp, "|"),
            b(&self.reg),
            b(&self.on),
            join(&self.rt, ","),
            self.rate,
            self.active as u8,
            self.dao_set as u8,
            self.dist,
            join(&epa, ";"),
            join(&self.dbala, ","),
            join(&self.daoa, ","),
            join(&uba, ","),
            join(&self.jb, ","),
            join(&self.lb, ","),
        )
    }
    /// sum over all epochs of `available` in asset `a`
    fn sum_avail(&self, a: usize) -> u128 {
        self.eps.iter().map(|e| amt_of(&e.avail_l, a)).sum()
    }
    fn ep(&self, id: u64) -> Option<&Ep> {
        self.eps.iter().find(|e| e.id == id)
    }
}

struct World {
    app: App,
    admin: Addr,
    trader: Addr,
    stranger: Addr,
    users: Vec<Addr>,
    dao: Addr,
    col: Addr,
    dist: Addr,
    lair: Addr,
    fac: Addr,
    vfac: Addr,
    router: Addr,
    adv: Addr,
    pools: Vec<Addr>,
    vaults: Vec<Addr>,
    /// denoms in ascending (byte) order = the order the collector aggregates in; `assets[DIST]` = uwhale
    assets: Vec<String>,
    /// asset indices of every pair / vault, in creation order (= the order of the init line)
    pool_assets: Vec<(usize, usize)>,
    vault_assets: Vec<usize>,
    /// pair / vault indices in the factories' listing order (ascending storage key), for the generator
    /// and the coverage counters only
    pool_order: Vec<usize>,
    vault_order: Vec<usize>,
    /// initial liquidity of every pair (each side) / vault, for the generator only
    pool_liq: Vec<u128>,
    vault_liq: Vec<u128>,
    /// which pairs / vaults are the hostile contract; its helper (bonder `u5`)
    pool_hostile: Vec<bool>,
    vault_hostile: Vec<bool>,
    agent: Option<Addr>,
    // monitor bookkeeping (independent of the model)
    expired: BTreeSet<u64>,
    rolled: BTreeSet<(u64, usize)>,
    paid: BTreeSet<(usize, u64)>,
    bond_start: Vec<Option<u64>>,
    /// per asset: everything the collector ever transferred to the distributor at epoch creation /
    /// everything ever paid out to claimers (the two sides of the conservation identity of C09)
    inflows: Vec<u128>,
    paid_out: Vec<u128>,
    last: Obs,
}

fn bal(app: &App, a: &Addr, d: &str) -> u128 {
    app.wrap().query_balance(a, d).unwrap().amount.u128()
}

fn permille_fee(n: u64) -> Fee {
    Fee { share: Decimal::permille(n) }
}

impl World {
    fn build(kv: &BTreeMap<String, String>) -> World {
        let getn = |k: &str, d: u64| kv.get(k).and_then(|s| s.parse::<u64>().ok()).unwrap_or(d);
        let getl = |k: &str, d: &[u64]| -> Vec<u64> {
            kv.get(k).map(|s| s.split(',').filter_map(|x| x.parse().ok()).collect()).unwrap_or(d.to_vec())
        };
        let grace = getn("grace", 2);
        let genesis = getn("genesis", T0 + 3_600_000_000_000);
        let dur = getn("dur", DAY);
        let pf = getl("pf", &[10, 10, 10]);
        let vfee = getl("vf", &[10, 10, 10]);
        // pairs `a.b` and vault assets in creation order; asset indices >= 3 are the filler denoms
        // (a trailing `h` = the pair / vault is the HOSTILE contract, instantiated by the real factory)
        let pool_toks: Vec<String> = kv.get("pools").map(|v| v.split(',').map(|t| t.to_string()).collect()).unwrap_or_default();
        let pool_assets: Vec<(usize, usize)> = if pool_toks.is_empty() {
            POOLS.to_vec()
        } else {
            pool_toks
                .iter()
                .filter_map(|t| t.trim_end_matches('h').split_once('.'))
                .filter_map(|(a, b)| Some((a.parse::<usize>().ok()?, b.parse::<usize>().ok()?)))
                .collect()
        };
        let pool_hostile: Vec<bool> = (0..pool_assets.len()).map(|i| pool_toks.get(i).map(|t| t.ends_with('h')).unwrap_or(false)).collect();
        let vault_toks: Vec<String> = kv.get("vaults").map(|v| v.split(',').map(|t| t.to_string()).collect()).unwrap_or_default();
        let vault_assets: Vec<usize> = if vault_toks.is_empty() {
            VAULTS.to_vec()
        } else {
            vault_toks.iter().filter_map(|x| x.trim_end_matches('h').parse::<usize>().ok()).collect()
        };
        let vault_hostile: Vec<bool> = (0..vault_assets.len()).map(|i| vault_toks.get(i).map(|t| t.ends_with('h')).unwrap_or(false)).collect();
        // `nusers=6`: the sixth "bonder" `u5` is the hostile contract's helper (the agent): a contract that sends
        // whatever it is told to, from its own address and balance
        let nusers = getn("nusers", NUSERS as u64) as usize;
        let nassets = pool_assets
            .iter()
            .flat_map(|(a, b)| [*a, *b])
            .chain(vault_assets.iter().copied())
            .fold(ASSETS.len() - 1, usize::max)
            + 1;
        let dn = getn("dn", 0);
        let assets: Vec<String> = (0..nassets).map(|i| asset_denom(dn, i)).collect();
        // what the model assumes about labels WHEN PAGES MATTER (more entries than a factory page lists by
        // default; the limits the engine sends to a three-pair world are 30): ascending in index order and
        // prefix-free.  The nasty denom shapes 1 - 4 are for the base worlds only.
        if pool_assets.len() > 10 || vault_assets.len() > 10 {
            assert!(assets.windows(2).all(|w| w[0] < w[1]), "asset denoms must ascend");
            assert!(
                assets.iter().all(|a| assets.iter().all(|b| a == b || !b.starts_with(a.as_str()))),
                "asset denoms must be prefix-free"
            );
        }
        assert!(assets.iter().collect::<BTreeSet<_>>().len() == assets.len(), "asset denoms must be distinct");
        let growth = kv.get("growth").and_then(|s| s.parse::<u128>().ok()).unwrap_or(0);
        let liq = kv.get("liq").and_then(|s| s.parse::<u128>().ok()).unwrap_or(1_000_000_000_000);
        // liquidity per pair / vault (`pliq=` / `vliq=`, in creation order; default `liq`): 2^20 … 2^118
        let getl128 = |k: &str| -> Vec<u128> {
            kv.get(k).map(|s| s.split(',').filter_map(|x| x.parse::<u128>().ok()).collect()).unwrap_or_default()
        };
        let pliq_in = getl128("pliq");
        let vliq_in = getl128("vliq");
        let pool_liq: Vec<u128> = (0..pool_assets.len()).map(|i| pliq_in.get(i).copied().unwrap_or(liq)).collect();
        let vault_liq: Vec<u128> = (0..vault_assets.len()).map(|i| vliq_in.get(i).copied().unwrap_or(liq)).collect();

        let admin = Addr::unchecked("admin");
        let trader = Addr::unchecked("trader");
        let stranger = Addr::unchecked("stranger");
        let dao = Addr::unchecked("dao");
        let users: Vec<Addr> = (0..NUSERS).map(|i| Addr::unchecked(format!("user{i}"))).collect();
        // 2^124 of every asset for each of the three funded senders (+ 2^122 for the borrower): the total supply
        // of an asset stays below 2^127, so the mock bank (u128 balances) never overflows whatever moves where
        let big = BIG;
        // every sender holds the unrelated denom (stray coins); the stranger also holds the assets of the world
        // (its balances are no observable). The bonders start without any asset of the world.
        let rich = |_: &Addr| assets.iter().map(|d| coin(big, d.as_str())).chain([coin(BIG / 8, JUNK)]).collect::<Vec<_>>();
        let mut bals = vec![(admin.clone(), rich(&admin)), (trader.clone(), rich(&trader)), (stranger.clone(), rich(&stranger))];
        bals[2].1.extend(BOND_DENOMS.iter().map(|d| coin(10u128.pow(15), *d)));
        for u in &users {
            bals.push((u.clone(), BOND_DENOMS.iter().map(|d| coin(10u128.pow(15), *d)).chain([coin(BIG / 16, JUNK)]).collect()));
        }
        let mut app = AppBuilder::new().with_bank(BankKeeper::new()).build(|router, _api, storage| {
            for (a, c) in bals {
                router.bank.init_balance(storage, &a, c).unwrap();
            }
        });
        app.update_block(|b| {
            b.time = Timestamp::from_nanos(T0);
            b.height = 1;
        });
        let pair_id = app.store_code(Box::new(
            ContractWrapper::new(
                terraswap_pair::contract::execute,
                terraswap_pair::contract::instantiate,
                terraswap_pair::contract::query,
            )
            .with_reply(terraswap_pair::contract::reply),
        ));
        let token_id = app.store_code(Box::new(ContractWrapper::new(
            terraswap_token::contract::execute,
            terraswap_token::contract::instantiate,
            terraswap_token::contract::query,
        )));
        let fac_id = app.store_code(Box::new(
            ContractWrapper::new(
                terraswap_factory::contract::execute,
                terraswap_factory::contract::instantiate,
                terraswap_factory::contract::query,
            )
            .with_reply(terraswap_factory::contract::reply),
        ));
        let router_id = app.store_code(Box::new(ContractWrapper::new(
            terraswap_router::contract::execute,
            terraswap_router::contract::instantiate,
            terraswap_router::contract::query,
        )));
        let vfac_id = app.store_code(Box::new(
            ContractWrapper::new(
                vault_factory::contract::execute,
                vault_factory::contract::instantiate,
                vault_factory::contract::query,
            )
            .with_reply(vault_factory::reply::reply),
        ));
        let vault_id = app.store_code(Box::new(
            ContractWrapper::new(vault::contract::execute, vault::contract::instantiate, vault::contract::query)
                .with_reply(vault::reply::reply),
        ));
        let col_id = app.store_code(Box::new(
            ContractWrapper::new(
                fee_collector::contract::execute,
                fee_collector::contract::instantiate,
                fee_collector::contract::query,
            )
            .with_reply(fee_collector::contract::reply),
        ));
        let dist_id = app.store_code(Box::new(
            ContractWrapper::new(
                fee_distributor::contract::execute,
                fee_distributor::contract::instantiate,
                fee_distributor::contract::query,
            )
            .with_reply(fee_distributor::contract::reply),
        ));
        let lair_id = app.store_code(Box::new(ContractWrapper::new(
            whale_lair::contract::execute,
            whale_lair::contract::instantiate,
            whale_lair::contract::query,
        )));
        let adv_id = app.store_code(adv_contract());
        let hostile_id = app.store_code(hostile::contract());

        let col = app.instantiate_contract(col_id, admin.clone(), &fc::InstantiateMsg {}, &[], "col", None).unwrap();
        let lair = app
            .instantiate_contract(
                lair_id,
                admin.clone(),
                &wl::InstantiateMsg {
                    unbonding_period: 1_000_000_000u64.into(),
                    growth_rate: Decimal::raw(growth),
                    bonding_assets: BOND_DENOMS.iter().map(|d| nat(d)).collect(),
                },
                &[],
                "lair",
                None,
            )
            .unwrap();
        let dist = app
            .instantiate_contract(
                dist_id,
                admin.clone(),
                &fd::InstantiateMsg {
                    bonding_contract_addr: lair.to_string(),
                    fee_collector_addr: col.to_string(),
                    grace_period: grace.into(),
                    epoch_config: EpochConfig { duration: dur.into(), genesis_epoch: genesis.into() },
                    distribution_asset: nat(&assets[DIST]),
                },
                &[],
                "dist",
                None,
            )
            .unwrap();
        app.execute_contract(
            admin.clone(),
            lair.clone(),
            &wl::ExecuteMsg::UpdateConfig {
                owner: None,
                unbonding_period: None,
                growth_rate: None,
                fee_distributor_addr: Some(dist.to_string()),
            },
            &[],
        )
        .unwrap();
        let fac = app
            .instantiate_contract(
                fac_id,
                admin.clone(),
                &f::InstantiateMsg {
                    pair_code_id: pair_id,
                    trio_code_id: pair_id,
                    token_code_id: token_id,
                    fee_collector_addr: col.to_string(),
                },
                &[],
                "fac",
                None,
            )
            .unwrap();
        for d in &assets {
            app.execute_contract(
                admin.clone(),
                fac.clone(),
                &f::ExecuteMsg::AddNativeTokenDecimals { denom: d.clone(), decimals: 6 },
                &[coin(1, d.as_str())],
            )
            .unwrap();
        }
        let mut pools = vec![];
        let fac_code = |app: &mut App, id: u64| {
            app.execute_contract(
                admin.clone(),
                fac.clone(),
                &f::ExecuteMsg::UpdateConfig { owner: None, fee_collector_addr: None, token_code_id: None, pair_code_id: Some(id), trio_code_id: None },
                &[],
            )
            .unwrap();
        };
        for (i, (a, b)) in pool_assets.iter().enumerate() {
            let infos = [nat(&assets[*a]), nat(&assets[*b])];
            if pool_hostile[i] {
                // the factory's owner points `pair_code_id` at the hostile code, creates the pair through the REAL
                // factory (instantiate + `Pair {}` query in the reply), and restores the code id
                fac_code(&mut app, hostile_id);
            }
            app.execute_contract(
                admin.clone(),
                fac.clone(),
                &f::ExecuteMsg::CreatePair {
                    asset_infos: infos.clone(),
                    pool_fees: PoolFee {
                        protocol_fee: permille_fee(pf.get(i).copied().unwrap_or(10)),
                        swap_fee: permille_fee(2),
                        burn_fee: permille_fee(0),
                    },
                    pair_type: PairType::ConstantProduct,
                    token_factory_lp: false,
                },
                &[],
            )
            .unwrap();
            let pi: white_whale_std::pool_network::asset::PairInfo =
                app.wrap().query_wasm_smart(&fac, &f::QueryMsg::Pair { asset_infos: infos.clone() }).unwrap();
            let pair = Addr::unchecked(pi.contract_addr);
            if pool_hostile[i] {
                fac_code(&mut app, pair_id);
                // it pays swaps out of its own pocket
                let mut f = vec![coin(BIG / 16, assets[*a].as_str()), coin(BIG / 16, assets[*b].as_str())];
                f.sort_by(|x, y| x.denom.cmp(&y.denom));
                app.send_tokens(stranger.clone(), pair.clone(), &f).unwrap();
                pools.push(pair);
                continue;
            }
            app.execute_contract(
                admin.clone(),
                pair.clone(),
                &p::ExecuteMsg::ProvideLiquidity {
                    assets: [
                        Asset { info: infos[0].clone(), amount: pool_liq[i].into() },
                        Asset { info: infos[1].clone(), amount: pool_liq[i].into() },
                    ],
                    slippage_tolerance: None,
                    receiver: None,
                },
                &{
                    let mut f = vec![coin(pool_liq[i], assets[*a].as_str()), coin(pool_liq[i], assets[*b].as_str())];
                    f.sort_by(|x, y| x.denom.cmp(&y.denom));
                    f
                },
            )
            .unwrap();
            pools.push(pair);
        }
        let router = app
            .instantiate_contract(
                router_id,
                admin.clone(),
                &r::InstantiateMsg { terraswap_factory: fac.to_string() },
                &[],
                "router",
                Some(admin.to_string()),
            )
            .unwrap();
        let vfac = app
            .instantiate_contract(
                vfac_id,
                admin.clone(),
                &vf::InstantiateMsg {
                    owner: admin.to_string(),
                    vault_id,
                    token_id,
                    fee_collector_addr: col.to_string(),
                },
                &[],
                "vfac",
                None,
            )
            .unwrap();
        let mut vaults = vec![];
        let vfac_code = |app: &mut App, id: u64| {
            app.execute_contract(
                admin.clone(),
                vfac.clone(),
                &vf::ExecuteMsg::UpdateConfig { owner: None, fee_collector_addr: None, vault_id: Some(id), token_id: None },
                &[],
            )
            .unwrap();
        };
        for (i, a) in vault_assets.iter().enumerate() {
            if vault_hostile[i] {
                vfac_code(&mut app, hostile_id);
            }
            app.execute_contract(
                admin.clone(),
                vfac.clone(),
                &vf::ExecuteMsg::CreateVault {
                    asset_info: nat(&assets[*a]),
                    fees: VaultFee {
                        protocol_fee: permille_fee(vfee.get(i).copied().unwrap_or(10)),
                        flash_loan_fee: permille_fee(1),
                        burn_fee: permille_fee(0),
                    },
                    token_factory_lp: false,
                },
                &[],
            )
            .unwrap();
            let va: Option<String> =
                app.wrap().query_wasm_smart(&vfac, &vf::QueryMsg::Vault { asset_info: nat(&assets[*a]) }).unwrap();
            let va = Addr::unchecked(va.unwrap());
            if vault_hostile[i] {
                vfac_code(&mut app, vault_id);
                vaults.push(va);
                continue;
            }
            app.execute_contract(
                admin.clone(),
                va.clone(),
                &v::ExecuteMsg::Deposit { amount: vault_liq[i].into() },
                &coins(vault_liq[i], assets[*a].as_str()),
            )
            .unwrap();
            vaults.push(va);
        }
        app.execute_contract(
            admin.clone(),
            col.clone(),
            &fc::ExecuteMsg::UpdateConfig {
                owner: None,
                pool_router: Some(router.to_string()),
                fee_distributor: Some(dist.to_string()),
                pool_factory: Some(fac.to_string()),
                vault_factory: Some(vfac.to_string()),
                take_rate: None,
                take_rate_dao_address: None,
                is_take_rate_active: None,
            },
            &[],
        )
        .unwrap();
        let adv = app.instantiate_contract(adv_id, admin.clone(), &Empty {}, &[], "adv", None).unwrap();
        // the hostile contract's helper: bonder `u5`, funded like a bonder (bond denoms + the unrelated denom)
        let mut users = users;
        let mut agent = None;
        if nusers > NUSERS {
            let ag = app.instantiate_contract(adv_id, admin.clone(), &Empty {}, &[], "agent", None).unwrap();
            let mut f: Vec<cosmwasm_std::Coin> = BOND_DENOMS.iter().map(|d| coin(10u128.pow(15), *d)).collect();
            f.push(coin(BIG / 16, JUNK));
            f.sort_by(|x, y| x.denom.cmp(&y.denom));
            app.send_tokens(stranger.clone(), ag.clone(), &f).unwrap();
            users.push(ag.clone());
            agent = Some(ag);
        }
        // the borrower pays the flash-loan fees out of its own pocket: also for loans of 2^118
        app.send_tokens(trader.clone(), adv.clone(), &assets.iter().map(|d| coin(BIG / 4, d.as_str())).collect::<Vec<_>>())
            .unwrap();
        // the factories' listing order: ascending storage key (pair: the two denoms sorted and
        // concatenated; vault: the denom)
        let pair_key = |(a, b): &(usize, usize)| {
            let (x, y) = (assets[*a].as_str().min(assets[*b].as_str()), assets[*a].as_str().max(assets[*b].as_str()));
            format!("{x}{y}").into_bytes()
        };
        let mut pool_order: Vec<usize> = (0..pool_assets.len()).collect();
        pool_order.sort_by_key(|i| pair_key(&pool_assets[*i]));
        let mut vault_order: Vec<usize> = (0..vault_assets.len()).collect();
        vault_order.sort_by_key(|i| assets[vault_assets[*i]].clone().into_bytes());
        let mut w = World {
            app,
            admin,
            trader,
            stranger,
            users,
            dao,
            col,
            dist,
            lair,
            fac,
            vfac,
            router,
            adv,
            pools,
            vaults,
            assets,
            pool_assets,
            vault_assets,
            pool_order,
            vault_order,
            pool_liq,
            vault_liq,
            pool_hostile,
            vault_hostile,
            agent,
            expired: BTreeSet::new(),
            rolled: BTreeSet::new(),
            paid: BTreeSet::new(),
            bond_start: vec![None; nusers.max(NUSERS)],
            inflows: vec![0; nassets],
            paid_out: vec![0; nassets],
            last: Obs::default(),
        };
        w.last = w.observe();
        w
    }

    fn addr_of(&self, who: &str) -> Option<Addr> {
        match who {
            "admin" => Some(self.admin.clone()),
            "trader" => Some(self.trader.clone()),
            "stranger" => Some(self.stranger.clone()),
            _ => who.strip_prefix('u').and_then(|i| i.parse::<usize>().ok()).and_then(|i| self.users.get(i).cloned()),
        }
    }

    /// the page limit of a `vfac` / `pfac` target: none given = `Some(30)` (as ForwardFees asks),
    /// `-` = `None` (the factory's default), `<n>` = `Some(n)`
    fn page_limit(args: &[&str]) -> Option<Option<u32>> {
        match args.get(1).copied() {
            None => Some(Some(30)),
            Some("-") => Some(None),
            Some(x) => x.parse::<u32>().ok().map(Some),
        }
    }

    /// the `FeesFor` named by the arguments of a direct `collect` / `aggregate` op:
    /// `vfac [<limit>]` | `pfac [<limit>]` (the factory's first page) | `xfac` (the pool factory asked
    /// for vaults) | `pool <k>` | `vault <k>` (`Contracts` naming one pair / vault; `k` out of range
    /// names an address that is no contract)
    fn fees_for(&self, args: &[&str]) -> Option<fc::FeesFor> {
        let idx = |s: Option<&&str>| s.and_then(|x| x.parse::<usize>().ok());
        let ghost = "nobody".to_string();
        match (args.first().copied(), args.len()) {
            (Some("vfac"), 1 | 2) => Some(fc::FeesFor::Factory {
                factory_addr: self.vfac.to_string(),
                factory_type: fc::FactoryType::Vault { start_after: None, limit: Self::page_limit(args)? },
            }),
            (Some("pfac"), 1 | 2) => Some(fc::FeesFor::Factory {
                factory_addr: self.fac.to_string(),
                factory_type: fc::FactoryType::Pool { start_after: None, limit: Self::page_limit(args)? },
            }),
            (Some("xfac"), 1) => Some(fc::FeesFor::Factory {
                factory_addr: self.fac.to_string(),
                factory_type: fc::FactoryType::Vault { start_after: None, limit: Some(30) },
            }),
            (Some("pool"), 2) => idx(args.get(1)).map(|k| fc::FeesFor::Contracts {
                contracts: vec![fc::Contract {
                    address: self.pools.get(k).map(|a| a.to_string()).unwrap_or(ghost),
                    contract_type: fc::ContractType::Pool {},
                }],
            }),
            (Some("vault"), 2) => idx(args.get(1)).map(|k| fc::FeesFor::Contracts {
                contracts: vec![fc::Contract {
                    address: self.vaults.get(k).map(|a| a.to_string()).unwrap_or(ghost),
                    contract_type: fc::ContractType::Vault {},
                }],
            }),
            _ => None,
        }
    }

    fn pool_pending(&self, i: usize) -> (u128, u128) {
        let res: p::ProtocolFeesResponse = self
            .app
            .wrap()
            .query_wasm_smart(&self.pools[i], &p::QueryMsg::ProtocolFees { asset_id: None, all_time: None })
            .unwrap();
        let get = |d: &str| res.fees.iter().filter(|a| a.info == nat(d)).map(|a| a.amount.u128()).sum::<u128>();
        (get(&self.assets[self.pool_assets[i].0]), get(&self.assets[self.pool_assets[i].1]))
    }

    /// which pairs / vaults the factory lists on the page `Pairs { limit }` / `Vaults { limit }`:
    /// the contracts a `Factory` target NAMES (asked of the real factory, before the op)
    fn page_of(&self, kind: &str, limit: Option<u32>) -> (Vec<bool>, Vec<bool>) {
        let q = self.app.wrap();
        let mut pp = vec![false; self.pools.len()];
        let mut vp = vec![false; self.vaults.len()];
        if kind == "pfac" {
            let r: Result<f::PairsResponse, _> = q.query_wasm_smart(&self.fac, &f::QueryMsg::Pairs { start_after: None, limit });
            if let Ok(r) = r {
                for (i, pa) in self.pools.iter().enumerate() {
                    pp[i] = r.pairs.iter().any(|pi| pi.contract_addr == pa.as_str());
                }
            }
        } else if kind == "vfac" {
            let r: Result<vf::VaultsResponse, _> = q.query_wasm_smart(&self.vfac, &vf::QueryMsg::Vaults { start_after: None, limit });
            if let Ok(r) = r {
                for (i, va) in self.vaults.iter().enumerate() {
                    vp[i] = r.vaults.iter().any(|vi| vi.vault == va.as_str());
                }
            }
        }
        (pp, vp)
    }
    /// `ProtocolFees { all_time: true }` of vault `i` (everything ever charged)
    fn vault_all_time(&self, i: usize) -> u128 {
        let res: Result<v::ProtocolFeesResponse, _> = self.app.wrap().query_wasm_smart(&self.vaults[i], &v::QueryMsg::ProtocolFees { all_time: true });
        res.map(|r| r.fees.amount.u128()).unwrap_or(0)
    }
    /// the fee shares of vault `i` as its `Config` query reports them (atomics): protocol, flash-loan, burn
    fn vault_fee_shares(&self, i: usize) -> Option<(u128, u128, u128)> {
        let c: v::Config = self.app.wrap().query_wasm_smart(&self.vaults[i], &v::QueryMsg::Config {}).ok()?;
        Some((c.fees.protocol_fee.share.atomics().u128(), c.fees.flash_loan_fee.share.atomics().u128(), c.fees.burn_fee.share.atomics().u128()))
    }
    /// raw storage item `LOAN_COUNTER` of vault `i`
    fn vault_loan_counter(&self, i: usize) -> Option<u64> {
        let raw = self.app.wrap().query_wasm_raw(self.vaults[i].to_string(), b"loan_counter".to_vec()).ok()??;
        String::from_utf8(raw).ok()?.trim().parse::<u64>().ok()
    }
    fn vault_pending(&self, i: usize) -> u128 {
        let res: v::ProtocolFeesResponse =
            self.app.wrap().query_wasm_smart(&self.vaults[i], &v::QueryMsg::ProtocolFees { all_time: false }).unwrap();
        res.fees.amount.u128()
    }

    fn observe(&self) -> Obs {
        let q = self.app.wrap();
        let cfg: fd::Config = q.query_wasm_smart(&self.dist, &fd::QueryMsg::Config {}).unwrap();
        let cur: fd::EpochResponse = q.query_wasm_smart(&self.dist, &fd::QueryMsg::CurrentEpoch {}).unwrap();
        let mut eps = vec![];
        let mut trh = vec![];
        let mut trha = vec![];
        let n = cur.epoch.id.u64();
        for id in (1..=n).rev() {
            let e: fd::EpochResponse = q.query_wasm_smart(&self.dist, &fd::QueryMsg::Epoch { id: id.into() }).unwrap();
            let e = e.epoch;
            eps.push(Ep {
                id: e.id.u64(),
                start: e.start_time.nanos(),
                total: Amt::of(&self.assets[DIST], &e.total),
                avail: Amt::of(&self.assets[DIST], &e.available),
                claimed: Amt::of(&self.assets[DIST], &e.claimed),
                total_l: led_of(&self.assets, &e.total),
                avail_l: led_of(&self.assets, &e.available),
                claimed_l: led_of(&self.assets, &e.claimed),
            });
        }
        for id in 1..=n {
            let t: Result<cosmwasm_std::Coin, _> =
                q.query_wasm_smart(&self.col, &fc::QueryMsg::TakeRateHistory { epoch_id: Uint64::new(id) });
            if let Ok(c) = t {
                trh.push((id, c.amount.u128()));
                trha.push((id, self.assets.iter().position(|d| *d == c.denom).unwrap_or(999)));
            }
        }
        let ccfg: fc::Config = q.query_wasm_smart(&self.col, &fc::QueryMsg::Config {}).unwrap();
        let cl = self
            .users
            .iter()
            .map(|u| {
                let c: fd::ClaimableEpochsResponse =
                    q.query_wasm_smart(&self.dist, &fd::QueryMsg::Claimable { address: u.to_string() }).unwrap();
                c.epochs.iter().map(|e| e.id.u64()).collect::<Vec<_>>()
            })
            .collect();
        // registered = the factory has an entry for the pair's assets (asked per pair: independent of any page size)
        let reg = self
            .pools
            .iter()
            .zip(&self.pool_assets)
            .map(|(pa, (a, b))| {
                let pi: Result<white_whale_std::pool_network::asset::PairInfo, _> = q.query_wasm_smart(
                    &self.fac,
                    &f::QueryMsg::Pair { asset_infos: [nat(&self.assets[*a]), nat(&self.assets[*b])] },
                );
                pi.map(|pi| pi.contract_addr == pa.as_str()).unwrap_or(false)
            })
            .collect();
        let on = self
            .pools
            .iter()
            .map(|pa| {
                let c: p::ConfigResponse = q.query_wasm_smart(pa, &p::QueryMsg::Config {}).unwrap();
                c.feature_toggle.swaps_enabled
            })
            .collect();
        // the distributor's current distribution asset; routes are those TOWARDS it (what the collector asks for)
        let dist = match &cfg.distribution_asset {
            AssetInfo::NativeToken { denom } => self.assets.iter().position(|d| d == denom).unwrap_or(999),
            _ => 999,
        };
        let rt = (0..self.assets.len())
            .map(|i| {
                if i == dist {
                    return 0u8;
                }
                let ops: Result<Vec<r::SwapOperation>, _> = q.query_wasm_smart(
                    &self.router,
                    &r::QueryMsg::SwapRoute { offer_asset_info: nat(&self.assets[i]), ask_asset_info: cfg.distribution_asset.clone() },
                );
                ops.map(|o| o.len() as u8).unwrap_or(0)
            })
            .collect();
        Obs {
            grace: cfg.grace_period.u64(),
            dbal: bal(&self.app, &self.dist, &self.assets[DIST]),
            dao: bal(&self.app, &self.dao, &self.assets[DIST]),
            cbal: self.assets.iter().map(|d| bal(&self.app, &self.col, d)).collect(),
            eps,
            trh,
            trha,
            ub: self.users.iter().map(|u| bal(&self.app, u, &self.assets[DIST])).collect(),
            cl,
            pp: (0..self.pools.len()).map(|i| self.pool_pending(i)).collect(),
            vp: (0..self.vaults.len()).map(|i| self.vault_pending(i)).collect(),
            reg,
            on,
            rt,
            rate: ccfg.take_rate.atomics().u128(),
            active: ccfg.is_take_rate_active,
            dao_set: !ccfg.take_rate_dao_address.to_string().is_empty(),
            dist,
            dbala: self.assets.iter().map(|d| bal(&self.app, &self.dist, d)).collect(),
            daoa: self.assets.iter().map(|d| bal(&self.app, &self.dao, d)).collect(),
            uba: self.users.iter().map(|u| self.assets.iter().map(|d| bal(&self.app, u, d)).collect()).collect(),
            jb: [&self.col, &self.dist, &self.router, &self.lair].map(|c| bal(&self.app, c, JUNK)),
            lb: self.assets.iter().map(|d| bal(&self.app, &self.lair, d)).collect(),
        }
    }

    /// what the C07 collection monitors look at besides the observation: bank balances and reported reserves
    /// of every pair, bank balance and LP supply of every vault, and the unrelated denom / stray holders
    fn extra(&self) -> Extra {
        let q = self.app.wrap();
        let mut x = Extra::default();
        for (i, pa) in self.pools.iter().enumerate() {
            let (a, b) = self.pool_assets[i];
            x.pool_bal.push((bal(&self.app, pa, &self.assets[a]), bal(&self.app, pa, &self.assets[b])));
            let pr: Result<white_whale_std::pool_network::pair::PoolResponse, _> = q.query_wasm_smart(pa, &p::QueryMsg::Pool {});
            x.pool_res.push(match pr {
                Ok(pr) => {
                    let get = |d: &str| pr.assets.iter().filter(|y| y.info == nat(d)).map(|y| y.amount.u128()).sum::<u128>();
                    (get(&self.assets[a]), get(&self.assets[b]), pr.total_share.u128())
                }
                Err(_) => (u128::MAX, u128::MAX, u128::MAX),
            });
            x.junk_elsewhere += bal(&self.app, pa, JUNK);
            // every OTHER asset of the world on a pair (it trades two of them; anything else is stray)
            for (k, d) in self.assets.iter().enumerate() {
                if k != a && k != b {
                    x.foreign_on_pools += bal(&self.app, pa, d);
                }
            }
        }
        for (i, va) in self.vaults.iter().enumerate() {
            x.vault_bal.push(bal(&self.app, va, &self.assets[self.vault_assets[i]]));
            let cfg: Result<v::Config, _> = q.query_wasm_smart(va, &v::QueryMsg::Config {});
            let sup = match cfg.map(|c| c.lp_asset) {
                Ok(AssetInfo::Token { contract_addr }) => q
                    .query_wasm_smart::<cw20::TokenInfoResponse>(contract_addr, &cw20::Cw20QueryMsg::TokenInfo {})
                    .map(|t| t.total_supply.u128())
                    .unwrap_or(u128::MAX),
                _ => u128::MAX,
            };
            x.vault_sup.push(sup);
            x.junk_elsewhere += bal(&self.app, va, JUNK);
            for (k, d) in self.assets.iter().enumerate() {
                if k != self.vault_assets[i] {
                    x.foreign_on_vaults += bal(&self.app, va, d);
                }
            }
        }
        for c in [&self.dao, &self.fac, &self.vfac, &self.adv] {
            x.junk_elsewhere += bal(&self.app, c, JUNK);
        }
        x
    }

    /// the lair's answers (`id:share atomics | E | P`, comma separated) to the `Weight` queries a `Claim` by `who`
    /// is going to make: one per epoch the distributor lists as claimable for the address
    fn shares_for(&self, who: &Addr) -> String {
        let mut sh = vec![];
        let cl: Result<fd::ClaimableEpochsResponse, _> =
            self.app.wrap().query_wasm_smart(&self.dist, &fd::QueryMsg::Claimable { address: who.to_string() });
        if let Ok(cl) = cl {
            for e in cl.epochs {
                let (app, lair) = (&self.app, &self.lair);
                let a = guarded(|| {
                    app.wrap().query_wasm_smart::<wl::BondingWeightResponse>(
                        lair,
                        &wl::QueryMsg::Weight {
                            address: who.to_string(),
                            timestamp: Some(e.start_time),
                            global_index: Some(e.global_index.clone()),
                        },
                    )
                });
                sh.push(match a {
                    Outcome::Ok(r) => format!("{}:{}", e.id, r.share.atomics()),
                    Outcome::Err(_) => format!("{}:E", e.id),
                    Outcome::Panic => format!("{}:P", e.id),
                });
            }
        }
        join(&sh, ",")
    }

    /// the message of a NESTED op (what the hostile contract's helper sends): contract, message, funds.  Every
    /// entry point of the distributor / collector / lair that the engine sends as a user-level op.
    fn msg_of(&self, op: &str, args: &[&str], now: u64, next_id: u64) -> Option<(Addr, Binary, Vec<cosmwasm_std::Coin>)> {
        let pn = |s: Option<&&str>| s.and_then(|x| x.parse::<u128>().ok());
        let dcfg = |grace: Option<u64>, asset: Option<AssetInfo>| fd::ExecuteMsg::UpdateConfig {
            owner: None,
            bonding_contract_addr: None,
            fee_collector_addr: None,
            grace_period: grace.map(Uint64::new),
            distribution_asset: asset,
            epoch_config: None,
        };
        Some(match op {
            "newepoch" if args.is_empty() => (self.dist.clone(), to_json_binary(&fd::ExecuteMsg::NewEpoch {}).ok()?, vec![]),
            "claim" if args.is_empty() => (self.dist.clone(), to_json_binary(&fd::ExecuteMsg::Claim {}).ok()?, vec![]),
            "fwd" if args.is_empty() => {
                let epoch = fd::Epoch { id: next_id.into(), start_time: Timestamp::from_nanos(now), ..Default::default() };
                (
                    self.col.clone(),
                    to_json_binary(&fc::ExecuteMsg::ForwardFees { epoch, forward_fees_as: nat(&self.assets[DIST]) }).ok()?,
                    vec![],
                )
            }
            "collect" => (self.col.clone(), to_json_binary(&fc::ExecuteMsg::CollectFees { collect_fees_for: self.fees_for(args)? }).ok()?, vec![]),
            "aggregate" => {
                (self.col.clone(), to_json_binary(&fc::ExecuteMsg::AggregateFees { aggregate_fees_for: self.fees_for(args)? }).ok()?, vec![])
            }
            "bond" | "unbond" if args.len() == 2 => {
                let (d, a) = (pn(args.first())?, pn(args.get(1))?);
                let denom = BOND_DENOMS[(d as usize) % 2];
                let asset = Asset { info: nat(denom), amount: a.into() };
                if op == "bond" {
                    (self.lair.clone(), to_json_binary(&wl::ExecuteMsg::Bond { asset }).ok()?, coins(a, denom))
                } else {
                    (self.lair.clone(), to_json_binary(&wl::ExecuteMsg::Unbond { asset }).ok()?, vec![])
                }
            }
            "grace" if args.len() == 1 => (self.dist.clone(), to_json_binary(&dcfg(Some(pn(args.first())? as u64), None)).ok()?, vec![]),
            "distasset" if args.len() == 1 => {
                let ai = pn(args.first())? as usize % self.assets.len();
                (self.dist.clone(), to_json_binary(&dcfg(None, Some(nat(&self.assets[ai])))).ok()?, vec![])
            }
            _ => return None,
        })
    }

    /// lair `Bonded` view of a user: None = no bonded assets, Some(first_bonded_epoch_id)
    fn lair_view(&self, u: &Addr) -> Outcome<Option<u64>> {
        let app = &self.app;
        let lair = &self.lair;
        guarded(|| {
            let b: wl::BondedResponse = app.wrap().query_wasm_smart(lair, &wl::QueryMsg::Bonded { address: u.to_string() })?;
            Ok::<_, StdError>(if b.bonded_assets.is_empty() { None } else { Some(b.first_bonded_epoch_id.u64()) })
        })
    }
}

/// the contract a message (and therefore the coins attached to it) is addressed to
#[derive(Clone, Copy, Debug, PartialEq, Eq)]
enum Receiver {
    Collector,
    Distributor,
    Router,
    Lair,
}

/// coins attached to a message beyond what it expects: per asset of the world, and of the unrelated denom
struct Stray {
    att: Vec<u128>,
    att_j: u128,
    target: Receiver,
    /// the sender is bonder `i` (its balances are observables)
    by_user: Option<usize>,
}

impl Stray {
    fn is_empty(&self) -> bool {
        self.att_j == 0 && self.att.iter().all(|x| *x == 0)
    }
    /// the observation after the bank moved the coins from the sender to the receiving contract (and before the
    /// contract ran): what a message that ignores `info.funds` starts from
    fn gifted(&self, pre: &Obs) -> Obs {
        let mut o = pre.clone();
        if self.is_empty() {
            return o;
        }
        for (a, x) in self.att.iter().enumerate() {
            if let Some(ui) = self.by_user {
                o.uba[ui][a] = o.uba[ui][a].wrapping_sub(*x);
                if a == DIST {
                    o.ub[ui] = o.ub[ui].wrapping_sub(*x);
                }
            }
            match self.target {
                Receiver::Collector => o.cbal[a] += x,
                Receiver::Distributor => {
                    o.dbala[a] += x;
                    if a == DIST {
                        o.dbal += x;
                    }
                }
                Receiver::Lair => o.lb[a] += x,
                Receiver::Router => {}
            }
        }
        let k = match self.target {
            Receiver::Collector => 0,
            Receiver::Distributor => 1,
            Receiver::Router => 2,
            Receiver::Lair => 3,
        };
        o.jb[k] += self.att_j;
        o
    }
}

/// caller classes of the direct collector ops (the collector's code distinguishes none of them)
fn sender_class(sender: &str) -> &'static str {
    match sender {
        "admin" => "owner",
        "stranger" => "stranger",
        _ => "user",
    }
}

/// a transaction that ran the collector's aggregation FAILED INSIDE THE ROUTER'S SWAP EXECUTION (the error chain
/// names the router's `execute_swap_operations`: a pair refused the swap — spread above the collector's 50 % cap,
/// swaps disabled, arithmetic overflow) or panicked: reserves and pair arithmetic are not part of the model, so
/// this is recorded (`@xfail=err|panic`) like the router's outputs; the model then fails iff it sends a swap
fn xfail_of<T>(o: &Outcome<T>, router: &str) -> Option<&'static str> {
    match o {
        Outcome::Ok(_) => None,
        Outcome::Err(e) => {
            let marker = format!("contract_addr: \"{router}\", msg: {{\"execute_swap_operations\"");
            if e.contains(&marker) {
                Some("err")
            } else {
                None
            }
        }
        Outcome::Panic => Some("panic"),
    }
}

fn out3<T>(o: &Outcome<T>) -> &'static str {
    match o {
        Outcome::Ok(_) => "ok",
        Outcome::Err(_) => "err",
        Outcome::Panic => "panic",
    }
}

/// the error chain of a failed transaction says that it failed INSIDE THE ROUTER'S SWAP EXECUTION OF THE NESTED MESSAGE:
/// the hostile contract's call of its helper comes before the router's `execute_swap_operations`
fn failed_in_inner_swap(e: &str, hostile: &str, agent: &str, router: &str) -> bool {
    let hm = format!("sender: {hostile}");
    let am = format!("Execute {{ contract_addr: \"{agent}\"");
    let rm = format!("contract_addr: \"{router}\", msg: {{\"execute_swap_operations\"");
    let mut from = 0;
    while let Some(p) = e[from..].find(&hm) {
        let at = from + p + hm.len();
        if e[at..].trim_start().starts_with(&am) {
            return e[at..].contains(&rm);
        }
        from = at;
    }
    false
}

/// the observation BETWEEN a nested Claim by bonder `ai` and the rest of its transaction, reconstructed from the
/// claim's own traces in `post`: every epoch's `claimed` as recorded there, `available` lower by what `claimed` rose,
/// the distributor's balance lower and the claimer's higher by what the claimer received
fn synth_claim(pre: &Obs, post: &Obs, ai: usize) -> Obs {
    let mut mid = pre.clone();
    for e in mid.eps.iter_mut() {
        if let Some(e2) = post.ep(e.id) {
            for (k, c2) in &e2.claimed_l {
                let dc = c2.saturating_sub(amt_of(&e.claimed_l, *k));
                for (ka, av) in e.avail_l.iter_mut() {
                    if ka == k {
                        *av = av.saturating_sub(dc);
                    }
                }
            }
            e.claimed_l = e2.claimed_l.clone();
            e.avail = Amt::of_led(&e.avail_l);
            e.claimed = Amt::of_led(&e.claimed_l);
        }
    }
    for a in 0..pre.dbala.len() {
        let g = post.uba[ai][a].saturating_sub(pre.uba[ai][a]);
        mid.uba[ai][a] = mid.uba[ai][a].saturating_add(g);
        mid.dbala[a] = mid.dbala[a].saturating_sub(g);
    }
    mid.ub[ai] = mid.uba[ai][DIST];
    mid.dbal = mid.dbala[DIST];
    mid.cl[ai] = vec![];
    mid
}

/// an `inloan` op in flight: the lending vault, the loan, and what the REAL vault / bank said before the transaction
struct LoanCtx {
    k: usize,
    vault: Addr,
    denom: String,
    amount: u128,
    mode: String,
    extra: u128,
    short: bool,
    /// the lending vault's bank balance, pending and all-time protocol fees, the borrower's bank balance
    vb0: u128,
    p0: u128,
    all0: u128,
    adv0: u128,
    /// the fees the vault quotes for the loan (`GetPaybackAmount`): protocol, flash-loan, burn
    quote: Option<(u128, u128, u128)>,
}

/// a `reenter` op in flight: the armed hostile contract and the nested op
struct ReCtx {
    hostile: Addr,
    inner_op: String,
    inner_args: Vec<String>,
    /// after the transaction: did the hostile contract send its message, and did it go through
    fired: bool,
    inner_ok: Option<bool>,
    /// (caught nested NewEpoch / AggregateFees) a dry run of the same transaction with the nested message sent
    /// PLAINLY failed inside the nested message's swap execution: the hostile contract only sees the outermost
    /// error text of what it catches, the dry run shows the whole chain
    dry_inner_swap_fail: bool,
}

/// after a transaction that may have run the collector's aggregation: the recorded router outputs / fee accruals of
/// the outer op (`@outs`, `@acc`) and, in a `reenter` op, of the nested one (`@iouts`, `@iacc`), or why it failed
/// (`@xfail` / `@ixfail`: inside the router's swap execution, of the outer / the nested op)
fn record_swaps(w: &World, o: &Outcome<AppResponse>, direct: bool, re: Option<&ReCtx>, rec: &mut Vec<String>, swaps: &mut Vec<SwapEv>, stages: &mut Vec<usize>) {
    let inner_direct = re.map(|r| r.inner_op != "newepoch").unwrap_or(true);
    match o {
        Outcome::Ok(resp) => {
            let (sw, st) = scan_swaps(w, resp, direct, inner_direct);
            let pick = |inner: bool| -> (Vec<&SwapEv>, Vec<usize>) {
                let idx: Vec<usize> = (0..sw.len()).filter(|k| sw[*k].inner == inner).collect();
                (idx.iter().map(|k| &sw[*k]).collect(), idx.iter().map(|k| st[*k]).collect())
            };
            let (osw, ost) = pick(false);
            let (outs, acc) = outs_and_acc(&osw, &ost);
            rec.push(format!("@outs={outs}"));
            rec.push(format!("@acc={acc}"));
            if re.is_some() {
                let (isw, ist) = pick(true);
                let (outs, acc) = outs_and_acc(&isw, &ist);
                rec.push(format!("@iouts={outs}"));
                rec.push(format!("@iacc={acc}"));
                // the outer op's accruals PER SWAP CHAIN (`stage.asset.pair.side.pre:amount`; pre = 1: accrued by a hop
                // before the hostile pair fired, in the chain in which it fired): inside such a transaction it matters
                // when a fee accrues
                let mut hacc: Vec<String> = vec![];
                let mut k = 0;
                while k < osw.len() {
                    let mut end = k;
                    while end < osw.len() && !osw[end].to_collector {
                        end += 1;
                    }
                    let end = end.min(osw.len() - 1);
                    let fire_at = (k..=end).find(|j| osw[*j].fires);
                    for j in k..=end {
                        if osw[j].pfee > 0 {
                            let pre = matches!(fire_at, Some(f) if j < f) as u8;
                            hacc.push(format!("{}.{}.{}.{}.{pre}:{}", ost[k], osw[k].offer, osw[j].pool, osw[j].ask_side, osw[j].pfee));
                        }
                    }
                    k = end + 1;
                }
                rec.push(format!("@hacc={}", join(&hacc, ",")));
            }
            *swaps = sw;
            *stages = st;
        }
        _ => {
            rec.push("@outs=-".into());
            rec.push("@acc=-".into());
            if re.is_some() {
                rec.push("@iouts=-".into());
                rec.push("@iacc=-".into());
                rec.push("@hacc=-".into());
            }
            if let Some(x) = xfail_of(o, w.router.as_str()) {
                // inside the nested message (the chain names the helper contract before the router)?
                let in_inner = match (o, w.agent.as_ref(), re) {
                    (Outcome::Err(e), Some(ag), Some(r)) => failed_in_inner_swap(e, r.hostile.as_str(), ag.as_str(), w.router.as_str()),
                    _ => false,
                };
                if in_inner {
                    rec.push(format!("@ixfail={x}"));
                } else {
                    rec.push(format!("@xfail={x}"));
                    if re.is_some() && x == "panic" {
                        rec.push("@ixfail=panic".into());
                    }
                }
            }
        }
    }
}

/// swaps in the events of a transaction that ran the collector's aggregation. `direct` = a directly
/// sent AggregateFees (one pass, stage 0); otherwise a NewEpoch, where the collector executes
/// 1 ForwardFees, 2-3 CollectFees, 4 AggregateFees(vaults), 5 AggregateFees(pools).
fn scan_swaps(w: &World, resp: &AppResponse, direct: bool, inner_direct: bool) -> (Vec<SwapEv>, Vec<usize>) {
    let mut swaps = vec![];
    let mut stages = vec![];
    // the events between a hostile contract's `hostile=fire` and `hostile=inner_done` belong to its nested message
    let mut inner = false;
    let mut col_exec_of = [0usize; 2];
    for ev in &resp.events {
        let get = |k: &str| ev.attributes.iter().find(|a| a.key == k).map(|a| a.value.clone());
        let ca = get("_contract_addr").unwrap_or_default();
        if get("hostile").as_deref() == Some("inner_done") {
            inner = false;
        }
        let (direct, col_exec) = if inner { (inner_direct, &mut col_exec_of[1]) } else { (direct, &mut col_exec_of[0]) };
        if ev.ty == "execute" && ca == w.col.as_str() {
            *col_exec += 1;
        }
        let col_exec = *col_exec;
        if ev.ty == "wasm" && get("action").as_deref() == Some("swap") {
            if let Some(pi) = w.pools.iter().position(|pa| pa.as_str() == ca) {
                let ask = get("ask_asset").unwrap_or_default();
                let offer = get("offer_asset").unwrap_or_default();
                let ask_side = if ask == w.assets[w.pool_assets[pi].0] { 0 } else { 1 };
                swaps.push(SwapEv {
                    pool: pi,
                    ask_side,
                    offer: w.assets.iter().position(|d| *d == offer).unwrap_or(usize::MAX),
                    to_collector: get("receiver").as_deref() == Some(w.col.as_str()),
                    offer_amt: get("offer_amount").and_then(|x| x.parse().ok()).unwrap_or(0),
                    ret: get("return_amount").and_then(|x| x.parse().ok()).unwrap_or(0),
                    pfee: get("protocol_fee_amount").and_then(|x| x.parse().ok()).unwrap_or(0),
                    inner,
                    fires: get("hostile").as_deref() == Some("fire"),
                });
                stages.push(if direct || col_exec <= 4 { 0 } else { 1 });
            }
        }
        if get("hostile").as_deref() == Some("fire") {
            inner = true;
        }
    }
    (swaps, stages)
}

/// the `@outs` (`stage.asset:router output`, one per swap chain that paid the collector) and `@acc`
/// (`pool.side:protocol fee accrued by the aggregation swaps`) values of a transaction's swaps
fn outs_and_acc(swaps: &[&SwapEv], stages: &[usize]) -> (String, String) {
    let mut outs = vec![];
    let mut acc: BTreeMap<(usize, usize), u128> = BTreeMap::new();
    let mut chain_start: Option<usize> = None;
    for (k, s) in swaps.iter().enumerate() {
        *acc.entry((s.pool, s.ask_side)).or_insert(0) += s.pfee;
        if chain_start.is_none() {
            chain_start = Some(s.offer);
        }
        if s.to_collector {
            outs.push(format!("{}.{}:{}", stages[k], chain_start.unwrap(), s.ret));
            chain_start = None;
        }
    }
    let acc: Vec<String> = acc.iter().filter(|(_, v)| **v > 0).map(|((pi, sd), v)| format!("{pi}.{sd}:{v}")).collect();
    (join(&outs, ","), join(&acc, ","))
}

/// swaps seen in the events of a NewEpoch transaction: (pool, ask side, offer asset, receiver, return, protocol fee)
struct SwapEv {
    pool: usize,
    ask_side: usize,
    offer: usize,
    to_collector: bool,
    offer_amt: u128,
    ret: u128,
    pfee: u128,
    /// part of the nested message of a hostile contract
    inner: bool,
    /// the swap of the hostile pair during which it sent its nested message
    fires: bool,
}

#[derive(Default)]
pub struct Feeflow {
    w: Option<World>,
    rec: Option<String>,
    /// `--variant many`: generate worlds with more than 10 pairs and more than 10 vaults
    many: bool,
    // generator state
    g: Gen,
}

#[derive(Default, Clone)]
struct Gen {
    t: u64,
    h: u64,
    genesis: u64,
    round: u64,
    rounds: u64,
    left: u64,
    /// marathon history (1 case in 80): ~260 rounds with 0–1 operations in between, so that the epoch ids pass 255 —
    /// seed C09-M (epoch keys stored little-endian: the 256th epoch sorts below every earlier one)
    marathon: bool,
    phase: u8, // 0 = in-round ops, 1 = newepoch due
    setup: Vec<String>,
    scen_round: u64, // last round in which the failing-aggregation scenario was injected
    bond_edge_round: u64, // last round in which the boundary-bond scenario was injected
    /// rounds (= number of epochs created so far) in which the owner switches the distribution asset:
    /// the first one early enough that an epoch funded in the old asset is still inside the grace
    /// window when later epochs are created and claimed, and leaves it before the history ends
    switch_rounds: Vec<u64>,
    /// the scripted direct collection with coins attached (two pairs with collectable fees) has been generated
    stray_scen_done: bool,
    /// last round in which the collector was handed a WIDE amount of the distribution asset right before NewEpoch
    pre_gift_round: u64,
    /// last round in which NewEpoch was sent with the hostile contract armed
    reenter_round: u64,
    /// last round in which NewEpoch was sent from inside a flash-loan callback, and the number of epochs then
    inloan_round: u64,
    inloan_n: u64,
}

impl Feeflow {
    pub fn new(variant: &str) -> Self {
        if std::env::var("FEEFLOW_DEBUG").is_ok() {
            std::panic::set_hook(Box::new(|i| eprintln!("PANIC {i}")));
        }
        Feeflow { many: variant == "many", ..Feeflow::default() }
    }

    fn run(&mut self, sender: &str, op: &str, args_all: &[&str], mon: &mut Monitor) -> (String, Vec<String>) {
        let w = self.w.as_mut().unwrap();
        let Some(sa) = w.addr_of(sender) else { return ("bad-op".into(), vec![]) };
        let uidx = w.users.iter().position(|u| *u == sa);
        // ---- `reenter <trig> <plain|catch> <inner op> <args…> -- <outer op> <args…> [+coins]`: the hostile pair /
        // vault named by `trig` (`p<k>` / `v<k>` = its CollectProtocolFees, `s<k>` = its Swap) is ARMED with the inner
        // message (sent by its helper, bonder u5), then the outer op runs as usual and is judged below
        let mut re: Option<ReCtx> = None;
        let mut lo: Option<LoanCtx> = None;
        let mut rec: Vec<String> = vec![];
        let (op, args_owned): (&str, Vec<&str>) = if op == "reenter" {
            let Some(sep) = args_all.iter().position(|a| *a == "--") else { return ("bad-op".into(), vec![]) };
            if sep < 3 || sep + 1 >= args_all.len() {
                return ("bad-op".into(), vec![]);
            }
            let (trig, mode, iop, iargs) = (args_all[0], args_all[1], args_all[2], &args_all[3..sep]);
            let (oop, oargs) = (args_all[sep + 1], args_all[sep + 2..].to_vec());
            let k = trig[1..].parse::<usize>().ok();
            let hostile = match (trig.chars().next(), k) {
                (Some('p'), Some(k)) | (Some('s'), Some(k)) if w.pool_hostile.get(k) == Some(&true) => w.pools[k].clone(),
                (Some('v'), Some(k)) if w.vault_hostile.get(k) == Some(&true) => w.vaults[k].clone(),
                _ => return ("bad-op".into(), vec![]),
            };
            let (Some(agent), true) = (w.agent.clone(), matches!(mode, "plain" | "catch")) else { return ("bad-op".into(), vec![]) };
            if iop == "reenter" || oop == "reenter" || iargs.iter().any(|a| a.starts_with('+')) {
                return ("bad-op".into(), vec![]);
            }
            let now = w.app.block_info().time.nanos();
            let next_id = w.last.eps.first().map(|e| e.id).unwrap_or(0) + 1;
            let Some((c, bin, funds)) = w.msg_of(iop, iargs, now, next_id) else { return ("bad-op".into(), vec![]) };
            let inner: CosmosMsg = WasmMsg::Execute { contract_addr: c.to_string(), msg: bin, funds }.into();
            // answers of contracts outside the model to the nested message, recorded before the transaction (the
            // lair and the distributor's claimable list do not change before the collector's reply)
            match iop {
                "claim" => rec.push(format!("@ish={}", w.shares_for(&agent))),
                "bond" | "unbond" => {
                    let pr = AdvMsg::Probe { msgs: vec![inner.clone()] };
                    let (app, ad, ag) = (&mut w.app, w.admin.clone(), agent.clone());
                    let r = guarded(|| app.execute_contract(ad, ag, &pr, &[]));
                    rec.push(format!(
                        "@ir={}",
                        match r {
                            Outcome::Err(e) if e.contains("probe:ok") => "ok",
                            Outcome::Panic => "panic",
                            _ => "err",
                        }
                    ));
                }
                _ => {}
            }
            let arm_msg = |catch: bool| {
                hostile::ExecuteMsg::Arm(hostile::Arm {
                    trigger: if trig.starts_with('s') { "swap".into() } else { "collect".into() },
                    agent: agent.to_string(),
                    msgs: vec![inner.clone()],
                    catch,
                })
            };
            let mut dry_inner_swap_fail = false;
            if mode == "catch" && matches!(iop, "newepoch" | "aggregate") {
                let plain_args: Vec<&str> = oargs.iter().copied().filter(|a| !a.starts_with('+')).collect();
                if let Some((c, bin, funds)) = w.msg_of(oop, &plain_args, now, next_id) {
                    w.app.execute_contract(w.admin.clone(), hostile.clone(), &arm_msg(false), &[]).unwrap();
                    let outer: CosmosMsg = WasmMsg::Execute { contract_addr: c.to_string(), msg: bin, funds }.into();
                    let pr = AdvMsg::DryRun { msgs: vec![outer] };
                    let (app, ad, ag) = (&mut w.app, w.admin.clone(), agent.clone());
                    if let Outcome::Err(e) = guarded(|| app.execute_contract(ad, ag, &pr, &[])) {
                        if std::env::var("FEEFLOW_DEBUG").is_ok() {
                            eprintln!("DRY RUN: {e}");
                        }
                        dry_inner_swap_fail = failed_in_inner_swap(&e, hostile.as_str(), agent.as_str(), w.router.as_str());
                    }
                }
            }
            w.app.execute_contract(w.admin.clone(), hostile.clone(), &arm_msg(mode == "catch"), &[]).unwrap();
            re = Some(ReCtx {
                hostile,
                inner_op: iop.to_string(),
                inner_args: iargs.iter().map(|x| x.to_string()).collect(),
                fired: false,
                inner_ok: None,
                dry_inner_swap_fail,
            });
            (oop, oargs)
        } else if op == "inloan" {
            // ---- `inloan <sender> v<k> <amount> <exact|over<n>|short> -- <inner op> <args…>`: the borrower contract takes a
            // flash loan of <amount> on vault k and sends <inner op> FROM ITS CALLBACK, then repays; the inner op runs as
            // usual (its sender is the borrower) and the transaction is judged below
            if args_all.len() < 5 || args_all[3] != "--" || !args_all[0].starts_with('v') {
                return ("bad-op".into(), vec![]);
            }
            let (Ok(k), Ok(amount)) = (args_all[0][1..].parse::<usize>(), args_all[1].parse::<u128>()) else { return ("bad-op".into(), vec![]) };
            let mode = args_all[2];
            let (extra, short) = match mode {
                "exact" => (0u128, false),
                "short" => (0, true),
                m if m.starts_with("over") => match m[4..].parse::<u128>() {
                    Ok(x) => (x, false),
                    Err(_) => return ("bad-op".into(), vec![]),
                },
                _ => return ("bad-op".into(), vec![]),
            };
            let (iop, iargs) = (args_all[4], args_all[5..].to_vec());
            if !matches!(iop, "newepoch" | "claim" | "fwd" | "collect" | "aggregate" | "grace" | "distasset" | "colcfg" | "addroute" | "rmroute")
                || iargs.iter().any(|a| a.starts_with('+'))
            {
                return ("bad-op".into(), vec![]);
            }
            if k >= w.vaults.len() {
                return ("bad-op".into(), vec![]);
            }
            let denom = w.assets[w.vault_assets[k]].clone();
            let quote: Result<v::PaybackAmountResponse, _> = w.app.wrap().query_wasm_smart(&w.vaults[k], &v::QueryMsg::GetPaybackAmount { amount: amount.into() });
            let l = LoanCtx {
                k,
                vault: w.vaults[k].clone(),
                amount,
                mode: if mode.starts_with("over") { "over".into() } else { mode.to_string() },
                extra,
                short,
                vb0: bal(&w.app, &w.vaults[k], &denom),
                p0: w.vault_pending(k),
                all0: w.vault_all_time(k),
                adv0: bal(&w.app, &w.adv, &denom),
                quote: quote.ok().map(|q| (q.protocol_fee.u128(), q.flash_loan_fee.u128(), q.burn_fee.u128())),
                denom,
            };
            // what the model does not contain: the vault's balance and its fee shares, as the real vault reports them
            rec.push(format!("@vb={}", l.vb0));
            let fs = w.vault_fee_shares(k).unwrap_or((0, 0, 0));
            rec.push(format!("@vfees={}.{}.{}", fs.0, fs.1, fs.2));
            lo = Some(l);
            (iop, iargs)
        } else {
            (op, args_all.to_vec())
        };
        // the sender of the message nested into a flash loan is the borrower contract; `signer` sends the transaction
        let signer = sa.clone();
        let (sa, uidx, sender) = if lo.is_some() { (w.adv.clone(), None, "borrower") } else { (sa, uidx, sender) };
        let args_all: &[&str] = &args_owned;
        // ---- trailing stray-coin tokens `+<asset idx>:<amount>` | `+j:<amount>`: coins attached to the message
        let ncoin = args_all.iter().rev().take_while(|a| a.starts_with('+')).count();
        let (args, coin_toks) = args_all.split_at(args_all.len() - ncoin);
        if args.iter().any(|a| a.starts_with('+')) {
            return ("bad-op".into(), vec![]);
        }
        let target = match op {
            "collect" | "aggregate" | "fwd" | "colcfg" => Some(Receiver::Collector),
            "newepoch" | "claim" | "grace" | "distasset" => Some(Receiver::Distributor),
            "bond" | "unbond" => Some(Receiver::Lair),
            "addroute" | "rmroute" => Some(Receiver::Router),
            _ => None,
        };
        let mut stray = Stray { att: vec![0; w.assets.len()], att_j: 0, target: target.unwrap_or(Receiver::Collector), by_user: uidx };
        for t in coin_toks {
            let Some((a, x)) = t[1..].split_once(':') else { return ("bad-op".into(), vec![]) };
            let Ok(x) = x.parse::<u128>() else { return ("bad-op".into(), vec![]) };
            if x == 0 {
                return ("bad-op".into(), vec![]);
            }
            if a == "j" {
                stray.att_j += x;
            } else {
                match a.parse::<usize>() {
                    Ok(a) if a < w.assets.len() => stray.att[a] += x,
                    _ => return ("bad-op".into(), vec![]),
                }
            }
        }
        if !stray.is_empty() && (target.is_none() || (target == Some(Receiver::Router) && stray.att.iter().any(|x| *x > 0))) {
            return ("bad-op".into(), vec![]);
        }
        let mut extra_funds: Vec<cosmwasm_std::Coin> =
            stray.att.iter().enumerate().filter(|(_, x)| **x > 0).map(|(a, x)| coin(*x, w.assets[a].as_str())).collect();
        if stray.att_j > 0 {
            extra_funds.push(coin(stray.att_j, JUNK));
        }
        extra_funds.sort_by(|a, b| a.denom.cmp(&b.denom));
        let xf: &[cosmwasm_std::Coin] = &extra_funds;
        // the C07 collection monitors compare real balances / reserves / supplies around a collection
        let xpre = if matches!(op, "collect" | "aggregate" | "newepoch") || lo.is_some() { Some(w.extra()) } else { None };
        let now = w.app.block_info().time.nanos();
        let pre = w.last.clone();
        let mut swaps: Vec<SwapEv> = vec![];
        let mut stage_of_swap: Vec<usize> = vec![];
        // the pairs / vaults a direct `vfac` / `pfac` target names: the factory's page, asked before the op
        let mut page: (Vec<bool>, Vec<bool>) = (vec![], vec![]);
        let pn = |s: Option<&&str>| s.and_then(|x| x.parse::<u128>().ok());
        let (agent_addr, admin_addr) = (w.agent.clone(), w.admin.clone());
        let loan_wrap: Option<(Addr, Addr, String, String, u128, u128, bool)> =
            lo.as_ref().map(|l| (signer.clone(), w.adv.clone(), l.vault.to_string(), l.denom.clone(), l.amount, l.extra, l.short));
        let exec = |app: &mut App, s: &Addr, c: &Addr, m: &dyn erased::Msg, funds: &[cosmwasm_std::Coin]| -> Outcome<AppResponse> {
            let bin = m.bin();
            let msg: CosmosMsg = WasmMsg::Execute { contract_addr: c.to_string(), msg: bin, funds: funds.to_vec() }.into();
            if let Some((signer, adv, vault, denom, amount, extra, short)) = loan_wrap.clone() {
                // the message is sent by the borrower contract from inside its flash-loan callback
                let borrow = to_json_binary(&AdvMsg::Borrow { vault, denom, amount: amount.into(), msgs: vec![msg], extra: extra.into(), short }).unwrap();
                return guarded(|| app.execute(signer, WasmMsg::Execute { contract_addr: adv.to_string(), msg: borrow, funds: vec![] }.into()));
            }
            if agent_addr.as_ref() == Some(s) {
                // bonder u5 is a contract: it sends what it is told to, from its own address and balance
                let run = to_json_binary(&AdvMsg::Run { msgs: vec![msg] }).unwrap();
                let (ad, ag) = (admin_addr.clone(), s.clone());
                return guarded(|| app.execute(ad, WasmMsg::Execute { contract_addr: ag.to_string(), msg: run, funds: vec![] }.into()));
            }
            guarded(|| app.execute(s.clone(), msg))
        };
        let outcome: Outcome<AppResponse> = match op {
            "newepoch" => {
                let o = exec(&mut w.app, &sa, &w.dist.clone(), &fd::ExecuteMsg::NewEpoch {}, xf);
                record_swaps(w, &o, false, re.as_ref(), &mut rec, &mut swaps, &mut stage_of_swap);
                o
            }
            "claim" => {
                // the lair's answers for exactly the queries `claim` is going to make
                let sh = w.shares_for(&sa);
                let above_one = sh.split(',').any(|t| t.split(':').nth(1).and_then(|x| x.parse::<u128>().ok()).map_or(false, |x| x > 1_000_000_000_000_000_000));
                rec.push(format!("@sh={sh}"));
                let o = exec(&mut w.app, &sa, &w.dist.clone(), &fd::ExecuteMsg::Claim {}, xf);
                if above_one {
                    // the lair answered a share above one for an epoch of the window (top-ups): the reward may
                    // exceed what is left of that epoch, and the claim then has to fail as a whole
                    mon.stat(match &o {
                        Outcome::Ok(_) => "claim_with_share_above_one_ok",
                        Outcome::Err(_) => "claim_with_share_above_one_refused",
                        Outcome::Panic => "claim_with_share_above_one_panic",
                    });
                }
                o
            }
            "bond" | "unbond" => {
                let (Some(d), Some(a)) = (pn(args.first()), pn(args.get(1))) else { return ("bad-op".into(), vec![]) };
                let denom = BOND_DENOMS[(d as usize) % 2];
                let asset = Asset { info: nat(denom), amount: a.into() };
                let o = if op == "bond" {
                    let mut f = coins(a, denom);
                    f.extend(extra_funds.iter().cloned());
                    f.sort_by(|a, b| a.denom.cmp(&b.denom));
                    exec(&mut w.app, &sa, &w.lair.clone(), &wl::ExecuteMsg::Bond { asset }, &f)
                } else {
                    exec(&mut w.app, &sa, &w.lair.clone(), &wl::ExecuteMsg::Unbond { asset }, xf)
                };
                let view = w.lair_view(&sa);
                rec.push(format!("@r={}", out3(&o)));
                rec.push(match &view {
                    Outcome::Ok(Some(fb)) => format!("@v={fb}"),
                    _ => "@v=-".into(),
                });
                if let (Some(ui), Outcome::Ok(_)) = (uidx, &o) {
                    match view {
                        Outcome::Ok(Some(_)) => {
                            if w.bond_start[ui].is_none() {
                                w.bond_start[ui] = Some(now);
                            }
                        }
                        _ => w.bond_start[ui] = None,
                    }
                }
                o
            }
            "grace" => {
                let Some(g) = pn(args.first()) else { return ("bad-op".into(), vec![]) };
                exec(
                    &mut w.app,
                    &sa,
                    &w.dist.clone(),
                    &fd::ExecuteMsg::UpdateConfig {
                        owner: None,
                        bonding_contract_addr: None,
                        fee_collector_addr: None,
                        grace_period: Some(Uint64::new(g as u64)),
                        distribution_asset: None,
                        epoch_config: None,
                    },
                    xf,
                )
            }
            "distasset" => {
                // the distributor's owner switches the distribution asset (effective immediately)
                let Some(ai) = pn(args.first()) else { return ("bad-op".into(), vec![]) };
                let ai = ai as usize % w.assets.len();
                exec(
                    &mut w.app,
                    &sa,
                    &w.dist.clone(),
                    &fd::ExecuteMsg::UpdateConfig {
                        owner: None,
                        bonding_contract_addr: None,
                        fee_collector_addr: None,
                        grace_period: None,
                        distribution_asset: Some(nat(&w.assets[ai])),
                        epoch_config: None,
                    },
                    xf,
                )
            }
            "colcfg" => {
                let m: BTreeMap<&str, &str> = args.iter().filter_map(|a| a.split_once('=')).collect();
                let rate = m.get("rate").and_then(|x| x.parse::<u128>().ok());
                let daoflag = m.get("dao").map(|x| *x == "1").unwrap_or(false);
                let active = m.get("active").and_then(|x| match *x {
                    "0" => Some(false),
                    "1" => Some(true),
                    _ => None,
                });
                exec(
                    &mut w.app,
                    &sa,
                    &w.col.clone(),
                    &fc::ExecuteMsg::UpdateConfig {
                        owner: None,
                        pool_router: None,
                        fee_distributor: None,
                        pool_factory: None,
                        vault_factory: None,
                        take_rate: rate.map(Decimal::raw),
                        take_rate_dao_address: if daoflag { Some(w.dao.to_string()) } else { None },
                        is_take_rate_active: active,
                    },
                    xf,
                )
            }
            "fwd" => {
                let id = pre.eps.first().map(|e| e.id).unwrap_or(0) + 1;
                let epoch = fd::Epoch { id: id.into(), start_time: Timestamp::from_nanos(now), ..Default::default() };
                exec(
                    &mut w.app,
                    &sa,
                    &w.col.clone(),
                    &fc::ExecuteMsg::ForwardFees { epoch, forward_fees_as: nat(&w.assets[DIST]) },
                    xf,
                )
            }
            "swap" => {
                let (Some(pi), Some(side), Some(a)) = (pn(args.first()), pn(args.get(1)), pn(args.get(2))) else {
                    return ("bad-op".into(), vec![]);
                };
                let (pi, side) = (pi as usize % w.pools.len(), side as usize % 2);
                let offer = if side == 0 { w.pool_assets[pi].0 } else { w.pool_assets[pi].1 };
                let offer_denom = w.assets[offer].clone();
                let before = w.pool_pending(pi);
                let o = exec(
                    &mut w.app,
                    &sa,
                    &w.pools[pi].clone(),
                    &p::ExecuteMsg::Swap {
                        offer_asset: Asset { info: nat(&offer_denom), amount: a.into() },
                        belief_price: None,
                        max_spread: Some(Decimal::percent(50)),
                        to: None,
                    },
                    &coins(a, offer_denom.as_str()),
                );
                let after = w.pool_pending(pi);
                let fee = if side == 0 { after.1 - before.1 } else { after.0 - before.0 };
                rec.push(format!("@r={}", out3(&o)));
                rec.push(format!("@fee={fee}"));
                o
            }
            "loan" => {
                let (Some(vi), Some(a)) = (pn(args.first()), pn(args.get(1))) else { return ("bad-op".into(), vec![]) };
                let vi = vi as usize % w.vaults.len().max(1);
                let denom = w.assets[w.vault_assets[vi]].clone();
                let denom = denom.as_str();
                let before = w.vault_pending(vi);
                let pay: Result<v::PaybackAmountResponse, _> =
                    w.app.wrap().query_wasm_smart(&w.vaults[vi], &v::QueryMsg::GetPaybackAmount { amount: a.into() });
                let payback = pay.map(|x| x.payback_amount.u128()).unwrap_or(a);
                let cb = AdvMsg::Run {
                    msgs: vec![BankMsg::Send { to_address: w.vaults[vi].to_string(), amount: coins(payback, denom) }.into()],
                };
                let m = AdvMsg::Run {
                    msgs: vec![WasmMsg::Execute {
                        contract_addr: w.vaults[vi].to_string(),
                        msg: to_json_binary(&v::ExecuteMsg::FlashLoan { amount: a.into(), msg: to_json_binary(&cb).unwrap() })
                            .unwrap(),
                        funds: vec![],
                    }
                    .into()],
                };
                let o = exec(&mut w.app, &sa, &w.adv.clone(), &m, &[]);
                let after = w.vault_pending(vi);
                rec.push(format!("@r={}", out3(&o)));
                rec.push(format!("@fee={}", after - before));
                o
            }
            "gift" => {
                let (Some(tgt), Some(ai), Some(a)) = (args.first(), pn(args.get(1)), pn(args.get(2))) else {
                    return ("bad-op".into(), vec![]);
                };
                let to = if *tgt == "col" { w.col.clone() } else { w.dist.clone() };
                let (app, from) = (&mut w.app, sa.clone());
                let denom = w.assets[ai as usize % w.assets.len()].clone();
                guarded(|| app.send_tokens(from, to, &coins(a, denom.as_str())))
            }
            "addroute" | "rmroute" => {
                let Some(ai) = pn(args.first()) else { return ("bad-op".into(), vec![]) };
                let ai = ai as usize % w.assets.len();
                // `<asset> <kind> [<ask asset>]`: the route asset -> ask (default: the initial distribution asset)
                let ask = match args.get(2) {
                    None => DIST,
                    Some(x) => match x.parse::<usize>() {
                        Ok(x) => x % w.assets.len(),
                        Err(_) => return ("bad-op".into(), vec![]),
                    },
                };
                if args.len() > 3 || !matches!(args.get(1).copied(), Some("direct") | Some("twohop")) {
                    return ("bad-op".into(), vec![]);
                }
                // the first asset that is neither `ai` nor the ask asset
                let other = (0..w.assets.len()).find(|j| *j != ai && *j != ask).unwrap_or(0);
                let kind = args.get(1).copied().unwrap_or("direct");
                let hop = |a: usize, b: usize| r::SwapOperation::TerraSwap {
                    offer_asset_info: nat(&w.assets[a]),
                    ask_asset_info: nat(&w.assets[b]),
                };
                let ops = if kind == "twohop" { vec![hop(ai, other), hop(other, ask)] } else { vec![hop(ai, ask)] };
                let route = r::SwapRoute {
                    offer_asset_info: nat(&w.assets[ai]),
                    ask_asset_info: nat(&w.assets[ask]),
                    swap_operations: ops,
                };
                let m = if op == "addroute" {
                    r::ExecuteMsg::AddSwapRoutes { swap_routes: vec![route] }
                } else {
                    r::ExecuteMsg::RemoveSwapRoutes { swap_routes: vec![route] }
                };
                exec(&mut w.app, &sa, &w.router.clone(), &m, xf)
            }
            "unreg" => {
                let Some(pi) = pn(args.first()) else { return ("bad-op".into(), vec![]) };
                let pi = pi as usize % w.pools.len();
                let (a, b) = w.pool_assets[pi];
                exec(
                    &mut w.app,
                    &sa,
                    &w.fac.clone(),
                    &f::ExecuteMsg::RemovePair { asset_infos: [nat(&w.assets[a]), nat(&w.assets[b])] },
                    &[],
                )
            }
            "toggle" => {
                let (Some(pi), Some(on)) = (pn(args.first()), pn(args.get(1))) else { return ("bad-op".into(), vec![]) };
                let pi = pi as usize % w.pools.len();
                exec(
                    &mut w.app,
                    &sa,
                    &w.fac.clone(),
                    &f::ExecuteMsg::UpdatePairConfig {
                        pair_addr: w.pools[pi].to_string(),
                        owner: None,
                        fee_collector_addr: None,
                        pool_fees: None,
                        feature_toggle: Some(FeatureToggle {
                            withdrawals_enabled: true,
                            deposits_enabled: true,
                            swaps_enabled: on == 1,
                        }),
                    },
                    &[],
                )
            }
            "collect" | "aggregate" => {
                // CollectFees / AggregateFees sent to the collector directly (not the self-calls of ForwardFees)
                let Some(ff) = w.fees_for(args) else { return ("bad-op".into(), vec![]) };
                if let (Some(kind @ ("vfac" | "pfac")), Some(limit)) = (args.first().copied(), World::page_limit(args)) {
                    page = w.page_of(kind, limit);
                }
                let o = if op == "collect" {
                    exec(&mut w.app, &sa, &w.col.clone(), &fc::ExecuteMsg::CollectFees { collect_fees_for: ff }, xf)
                } else {
                    exec(&mut w.app, &sa, &w.col.clone(), &fc::ExecuteMsg::AggregateFees { aggregate_fees_for: ff }, xf)
                };
                if op == "aggregate" || re.is_some() {
                    record_swaps(w, &o, true, re.as_ref(), &mut rec, &mut swaps, &mut stage_of_swap);
                }
                o
            }
            _ => return ("bad-op".into(), vec![]),
        };
        // ---- a `reenter` op: what became of the hostile contract's message; disarm it
        let mut fired_tok = String::new();
        if let Some(r) = re.as_mut() {
            let o_ok = matches!(outcome, Outcome::Ok(_));
            if o_ok {
                let rep: hostile::Report = w.app.wrap().query_wasm_smart(&r.hostile, &hostile::QueryMsg::Report {}).unwrap_or_default();
                r.fired = rep.fired;
                r.inner_ok = if rep.fired { Some(rep.inner_ok.unwrap_or(true)) } else { None };
                if rep.fired && rep.inner_ok == Some(false) {
                    if std::env::var("FEEFLOW_DEBUG").is_ok() {
                        eprintln!("INNER ERR {}: {}", r.inner_op, rep.inner_err);
                    }
                }
            }
            // the nested message is refused inside the router's swap execution (seen in the dry run of the same
            // transaction with the message sent plainly): outside the model, like `@xfail` — also when the outer
            // transaction then fails on its own
            if r.dry_inner_swap_fail && !rec.iter().any(|t| t.starts_with("@ixfail=")) {
                rec.push("@ixfail=err".into());
            }
            let _ = w.app.execute_contract(w.admin.clone(), r.hostile.clone(), &hostile::ExecuteMsg::Disarm {}, &[]);
            if matches!(r.inner_op.as_str(), "bond" | "unbond") {
                let ag = w.agent.clone().unwrap();
                let view = w.lair_view(&ag);
                rec.push(match &view {
                    Outcome::Ok(Some(fb)) => format!("@iv={fb}"),
                    _ => "@iv=-".into(),
                });
                if o_ok && r.fired && r.inner_ok == Some(true) {
                    let ai = w.users.len() - 1;
                    match view {
                        Outcome::Ok(Some(_)) => {
                            if w.bond_start[ai].is_none() {
                                w.bond_start[ai] = Some(now);
                            }
                        }
                        _ => w.bond_start[ai] = None,
                    }
                }
            }
            fired_tok = format!(
                " fired={}",
                if !o_ok {
                    "-"
                } else if !r.fired {
                    "0"
                } else if r.inner_ok == Some(true) {
                    "1"
                } else {
                    "2"
                }
            );
            mon.stat(&format!(
                "reenter_{}_in_{op}_{}_{}",
                r.inner_op,
                out3(&outcome),
                if !o_ok { "reverted" } else if !r.fired { "not_triggered" } else if r.inner_ok == Some(true) { "inner_ok" } else { "inner_refused_caught" }
            ));
        }
        let post_raw = w.observe();
        let xpost_raw = xpre.as_ref().map(|_| w.extra());
        let o3 = out3(&outcome);
        // ---- an `inloan` op: what the loan itself did to the lending vault and the borrower, judged on the real bank
        // balances / ledgers; then the transaction is judged as the nested op on the observation WITH THE LOAN'S OWN
        // EFFECTS REMOVED (the lending vault's pending ledger without the fee charged for this loan, its bank balance
        // without what the borrower paid net of the loan): every collection / pipeline / conservation monitor below is
        // thereby evaluated on the transaction that ran inside the loan
        let mut lvb_tok = String::new();
        let (post, xpost) = match &lo {
            None => {
                mon.stat(&format!("op_{op}_{o3}"));
                (post_raw.clone(), xpost_raw.clone())
            }
            Some(l) => {
                let (vb1, p1, all1, adv1) = (bal(&w.app, &l.vault, &l.denom), w.vault_pending(l.k), w.vault_all_time(l.k), bal(&w.app, &w.adv, &l.denom));
                lvb_tok = format!(" lvb={vb1}");
                let line = format!("inloan v{} {} {}{} -- {op} {}", l.k, l.amount, l.mode, if l.mode == "over" { l.extra.to_string() } else { String::new() }, args_all.join(" "));
                let both = |mon: &mut Monitor, name: &str, ok: bool, what: String| {
                    mon.check("C07", name, ok, || what.clone());
                    mon.check("C10", name, ok, || what.clone());
                };
                mon.stat(&format!("op_inloan_{o3}"));
                mon.stat(&format!("inloan_{op}_{}_{o3}", l.mode));
                mon.stat(match l.p0 {
                    0 => "inloan_lender_pending_zero",
                    x if x <= THRESH => "inloan_lender_pending_le_1000",
                    _ => "inloan_lender_pending_gt_1000",
                });
                if l.vb0.saturating_sub(l.amount) < l.p0 {
                    mon.stat(&format!("inloan_loan_leaves_less_than_pending_{o3}"));
                }
                let ctr = w.vault_loan_counter(l.k);
                both(mon, "inloan_counter_restored", ctr == Some(0), format!("{line}: LOAN_COUNTER of the lending vault is {ctr:?} after the transaction ({o3})"));
                if o3 != "ok" {
                    // a failed transaction (short repayment, refused nested message, fees that the loan-reduced balance
                    // cannot cover) leaves no trace: not on the vault, not on the borrower, not on any pair / vault
                    let xsame = match (xpre.as_ref(), xpost_raw.as_ref()) {
                        (Some(a), Some(b)) => a.pool_bal == b.pool_bal && a.pool_res == b.pool_res && a.vault_bal == b.vault_bal && a.vault_sup == b.vault_sup,
                        _ => false,
                    };
                    both(
                        mon,
                        "inloan_failed_leaves_no_trace",
                        xsame && vb1 == l.vb0 && p1 == l.p0 && all1 == l.all0 && adv1 == l.adv0,
                        format!(
                            "{line}: failed ({o3}) but: lending vault balance {} -> {vb1}, pending {} -> {p1}, all-time fees {} -> {all1}, borrower {} -> {adv1}, other pair / vault balances unchanged: {xsame}",
                            l.vb0, l.p0, l.all0, l.adv0
                        ),
                    );
                    mon.stat(if l.short { "inloan_failed_short_repayment" } else { "inloan_failed_other" });
                    (post_raw.clone(), xpost_raw.clone())
                } else {
                    both(mon, "inloan_short_repayment_reverts", !l.short, format!("{line}: the borrower repaid one unit less than required and the loan went through"));
                    let (qp, qf, qb) = l.quote.unwrap_or((0, 0, 0));
                    // what the vault's all-time ledger says it charged; what the borrower paid net of the loan; what the
                    // vault paid out of its bank balance in mid-loan (beyond the burn)
                    let charged = all1.checked_sub(l.all0);
                    let spent = l.adv0.checked_sub(adv1);
                    let bank_paid = spent.and_then(|x| l.vb0.checked_add(x)).and_then(|x| x.checked_sub(qb)).and_then(|x| x.checked_sub(vb1));
                    // C07 on the lending vault ACROSS the transaction: pending = pending before + charged - transferred
                    let ledger_ok = match (charged, bank_paid) {
                        (Some(c), Some(b)) => p1.checked_add(b).is_some() && p1.checked_add(b) == l.p0.checked_add(c),
                        _ => false,
                    };
                    both(
                        mon,
                        "inloan_ledger_eq",
                        ledger_ok,
                        format!(
                            "{line}: lending vault {} ({}): pending {} + charged {charged:?} - paid out of its bank balance in mid-loan {bank_paid:?} != pending now {p1} (balance {} -> {vb1}, the borrower paid {spent:?} net of the loan): fees left the pending ledger without being transferred",
                            l.k, l.denom, l.p0, l.vb0
                        ),
                    );
                    both(
                        mon,
                        "inloan_fee_charged_as_quoted",
                        l.quote.is_some() && charged == Some(qp),
                        format!("{line}: the vault quoted a protocol fee of {:?} but its all-time ledger grew by {charged:?}", l.quote.map(|q| q.0)),
                    );
                    let want = l.vb0.checked_add(qp).and_then(|x| x.checked_add(qf)).and_then(|x| x.checked_add(l.extra));
                    both(
                        mon,
                        "inloan_vault_ends_with_fees",
                        l.quote.is_some() && Some(vb1) == want,
                        format!("{line}: the lending vault held {} before the loan and holds {vb1} now; balance before + protocol fee {qp} + flash-loan fee {qf} + what the borrower paid on top {} = {want:?}", l.vb0, l.extra),
                    );
                    mon.stat(if bank_paid.unwrap_or(0) > 0 { "inloan_lender_paid_fees_in_mid_loan" } else { "inloan_lender_paid_nothing" });
                    if op == "newepoch" {
                        mon.stat("inloan_pipeline_run_ok");
                        if l.p0 > 0 {
                            mon.stat("inloan_pipeline_run_ok_with_fees_pending_on_lender");
                        }
                    }
                    if op == "collect" && l.p0 > 0 && bank_paid.unwrap_or(0) > 0 {
                        mon.stat("inloan_direct_collect_ok_with_fees_pending_on_lender");
                    }
                    mon.stat(&format!("inloan_amount_mag_{}", mag_bucket(l.amount)));
                    let mut pj = post_raw.clone();
                    pj.vp[l.k] = p1.saturating_sub(charged.unwrap_or(0));
                    let mut xj = xpost_raw.clone();
                    if let Some(x) = xj.as_mut() {
                        x.vault_bal[l.k] = vb1.saturating_sub(spent.unwrap_or(0)).saturating_add(qb);
                    }
                    (pj, xj)
                }
            }
        };
        if !stray.is_empty() {
            mon.stat(&format!("stray_{op}_{o3}"));
            mon.stat(&format!("stray_to_{:?}_{o3}", stray.target));
            mon.stat(if stray.att_j > 0 && stray.att.iter().any(|x| *x > 0) {
                "stray_world_asset_and_unrelated_denom"
            } else if stray.att_j > 0 {
                "stray_unrelated_denom"
            } else if stray.att[pre.dist.min(stray.att.len() - 1)] > 0 {
                "stray_distribution_asset"
            } else {
                "stray_other_world_asset"
            });
            if op == "bond" {
                // the lair accepts exactly the one coin being bonded
                mon.check("C09", "bond_refuses_extra_coins", o3 != "ok", || format!("Bond by {sender} with extra coins {} was accepted", args_all.join(" ")));
            }
        }
        // an op with coins attached is judged as the op after the gift: `pre` + the coins on the receiving contract
        let pre = if o3 == "ok" { stray.gifted(&pre) } else { pre };
        if let Outcome::Err(e) = &outcome {
            if std::env::var("FEEFLOW_DEBUG").is_ok() {
                eprintln!("ERR {op} {sender}: {e}");
            }
        }
        // ---- judging.  A transaction in which the hostile contract's message WENT THROUGH is judged as the sequence of
        // plain operations it amounts to: a nested Claim = the claim, then the outer op (the state in between is
        // reconstructed from the claim's own traces: what each epoch records as claimed, what the helper received);
        // a nested NewEpoch inside a collection / aggregation = a NewEpoch; a nested collection / aggregation inside a
        // NewEpoch = a NewEpoch (`composite`: the order of collection and swaps differs from the plain pipeline's, the
        // exact per-stage bookkeeping is replaced by `conservation_across_transaction`); anything else = the generic
        // ledger monitors.  A refused (caught) or untriggered nested message must leave NO trace: plain judging.
        let went_through = re.as_ref().map(|r| r.fired && r.inner_ok == Some(true)).unwrap_or(false);
        let no_page: (Vec<bool>, Vec<bool>) = (vec![], vec![]);
        if !went_through {
            Self::monitors(w, mon, &pre, &post, sender, uidx, op, args, o3, &swaps, &stage_of_swap, &page, false);
            if o3 == "ok" {
                Self::monitor_stray(w, mon, &pre, &post, sender, op, args_all, &stray, &swaps, xpre.as_ref(), xpost.as_ref(), false);
            }
        } else {
            let r = re.as_ref().unwrap();
            let ai = w.users.len() - 1;
            let iargs: Vec<&str> = r.inner_args.iter().map(|x| x.as_str()).collect();
            match r.inner_op.as_str() {
                "claim" => {
                    let mid = synth_claim(&pre, &post, ai);
                    Self::monitors(w, mon, &pre, &mid, "u5", Some(ai), "claim", &[], "ok", &[], &[], &no_page, false);
                    Self::monitors(w, mon, &mid, &post, sender, uidx, op, args, o3, &swaps, &stage_of_swap, &page, false);
                    Self::monitor_stray(w, mon, &mid, &post, sender, op, args_all, &stray, &swaps, xpre.as_ref(), xpost.as_ref(), false);
                }
                "bond" | "unbond" => {
                    Self::monitors(w, mon, &pre, &post, sender, uidx, op, args, o3, &swaps, &stage_of_swap, &page, false);
                    Self::monitor_stray(w, mon, &pre, &post, sender, op, args_all, &stray, &swaps, xpre.as_ref(), xpost.as_ref(), false);
                }
                "newepoch" => {
                    // on the unchanged code a NewEpoch nested into a NewEpoch never goes through (the outer reply
                    // finds TMP_EPOCH consumed and the transaction reverts): if it did, the ledgers are judged as
                    // ONE NewEpoch — exactly one new epoch, only the expiring epoch emptied, total = inflow + rollover
                    Self::monitors(w, mon, &pre, &post, sender, uidx, "newepoch", &[], o3, &swaps, &stage_of_swap, &no_page, op != "newepoch");
                    Self::monitor_stray(w, mon, &pre, &post, sender, "newepoch", args_all, &stray, &swaps, xpre.as_ref(), xpost.as_ref(), true);
                }
                "collect" | "aggregate" if op == "newepoch" => {
                    Self::monitors(w, mon, &pre, &post, sender, uidx, "newepoch", &[], o3, &swaps, &stage_of_swap, &no_page, true);
                    Self::monitor_stray(w, mon, &pre, &post, sender, "newepoch", args_all, &stray, &swaps, xpre.as_ref(), xpost.as_ref(), true);
                }
                "collect" | "aggregate" => {
                    Self::monitors(w, mon, &pre, &post, sender, uidx, "composite", &[], o3, &swaps, &stage_of_swap, &no_page, true);
                    Self::monitor_stray(w, mon, &pre, &post, sender, "composite", args_all, &stray, &swaps, xpre.as_ref(), xpost.as_ref(), true);
                }
                other => {
                    // `fwd` / `grace` / `distasset` sent by the helper must have been refused: judged as that op, accepted
                    Self::monitors(w, mon, &pre, &post, "u5", Some(ai), other, &iargs, "ok", &swaps, &stage_of_swap, &no_page, true);
                }
            }
        }
        if o3 == "ok" {
            if let (Some(x0), Some(x1)) = (xpre.as_ref(), xpost.as_ref()) {
                Self::monitor_conservation(w, mon, &pre, &post, x0, x1, &swaps, &format!("{op} by {sender} {}", args_all.join(" ")));
            }
        }
        w.last = post_raw.clone();
        (format!("{o3} {}{fired_tok}{lvb_tok}", post_raw.line()), rec)
    }

    /// C10 on the REAL bank balances of every transaction that collects / aggregates / creates an epoch (plain or with a
    /// nested message that went through), per asset: what the collector held (incl. attached coins) + what the pairs and
    /// vaults paid out of their balances (beyond what the swaps of the transaction explain) + what the router paid in
    /// = what the collector holds now + what it handed to the router + what the DAO received + what reached the
    /// distributor (its balance change plus whatever it paid out to claimers in the same transaction).
    #[allow(clippy::too_many_arguments)]
    fn monitor_conservation(w: &World, mon: &mut Monitor, pre: &Obs, post: &Obs, x0: &Extra, x1: &Extra, swaps: &[SwapEv], line: &str) {
        let na = w.assets.len();
        let mut paid_in = vec![Some(0u128); na]; // by pairs / vaults
        let mut swapped_in = vec![0u128; na];
        let mut offered = vec![0u128; na];
        let add = |slot: &mut Option<u128>, x: Option<u128>| *slot = slot.and_then(|v| x.and_then(|x| v.checked_add(x)));
        for (i, (a, b)) in w.pool_assets.iter().enumerate() {
            for (sd, asset, b0, b1) in [(0usize, *a, x0.pool_bal[i].0, x1.pool_bal[i].0), (1usize, *b, x0.pool_bal[i].1, x1.pool_bal[i].1)] {
                let offer_in: u128 = swaps.iter().filter(|s| s.pool == i && s.ask_side != sd).map(|s| s.offer_amt).fold(0u128, |x, y| x.saturating_add(y));
                let ret_out: u128 = swaps.iter().filter(|s| s.pool == i && s.ask_side == sd).map(|s| s.ret).fold(0u128, |x, y| x.saturating_add(y));
                // b1 = b0 + offer_in - ret_out - paid
                let paid = b0.checked_add(offer_in).and_then(|v| v.checked_sub(ret_out)).and_then(|v| v.checked_sub(b1));
                add(&mut paid_in[asset], paid);
            }
        }
        for (i, a) in w.vault_assets.iter().enumerate() {
            add(&mut paid_in[*a], x0.vault_bal[i].checked_sub(x1.vault_bal[i]));
        }
        // chains of the outer op and of the nested one separately (a nested message may interrupt an outer chain)
        for inner in [false, true] {
            let mut start = true;
            for sw in swaps.iter().filter(|s| s.inner == inner) {
                if start && sw.offer < na {
                    offered[sw.offer] = offered[sw.offer].saturating_add(sw.offer_amt);
                }
                start = sw.to_collector;
                if sw.to_collector {
                    let (a, b) = w.pool_assets[sw.pool];
                    let ask = if sw.ask_side == 0 { a } else { b };
                    swapped_in[ask] = swapped_in[ask].saturating_add(sw.ret);
                }
            }
        }
        for a in 0..na {
            let users_gain: u128 = (0..w.users.len()).map(|u| post.uba[u][a].saturating_sub(pre.uba[u][a])).fold(0u128, |x, y| x.saturating_add(y));
            let lhs = paid_in[a].and_then(|p| pre.cbal[a].checked_add(p)).and_then(|v| v.checked_add(swapped_in[a]));
            let dao_gain = post.daoa[a].checked_sub(pre.daoa[a]);
            let to_dist = post.dbala[a].checked_add(users_gain).and_then(|v| v.checked_sub(pre.dbala[a]));
            let rhs = dao_gain.and_then(|d| to_dist.and_then(|t| post.cbal[a].checked_add(offered[a]).and_then(|v| v.checked_add(d)).and_then(|v| v.checked_add(t))));
            mon.check(
                "C10",
                "conservation_across_transaction",
                lhs.is_some() && lhs == rhs,
                || format!(
                    "{line}: {}: collector {} + paid by pairs / vaults {:?} + router paid in {} != collector now {} + handed to the router {} + DAO {:?} + distributor (incl. payouts) {:?}",
                    w.assets[a], pre.cbal[a], paid_in[a], swapped_in[a], post.cbal[a], offered[a], dao_gain, to_dist
                ),
            );
        }
    }

    #[allow(clippy::too_many_arguments)]
    fn monitors(
        w: &mut World,
        mon: &mut Monitor,
        pre: &Obs,
        post: &Obs,
        sender: &str,
        uidx: Option<usize>,
        op: &str,
        args: &[&str],
        o3: &str,
        swaps: &[SwapEv],
        stages: &[usize],
        page: &(Vec<bool>, Vec<bool>),
        composite: bool,
    ) {
        let ok = o3 == "ok";
        let nu = w.users.len();
        let d = |s: String| move || s;
        // ---- both properties: a failed step leaves every balance (and every ledger) unchanged
        if !ok {
            let same = pre == post;
            let what = format!("{op} by {sender} failed ({o3}) but the observable state changed:\n pre  {}\n post {}", pre.line(), post.line());
            mon.check("C09", "failed_op_changes_nothing", same, d(what.clone()));
            mon.check("C10", "failed_step_changes_nothing", same, d(what));
            if op == "newepoch" {
                mon.stat("newepoch_failed");
            }
            if op == "fwd" {
                mon.check("C10", "forward_auth", true, || String::new());
            }
            if op == "collect" || op == "aggregate" {
                mon.stat(&format!("direct_{op}_{}_{o3}", args.first().copied().unwrap_or("?")));
                mon.stat(&format!("direct_{op}_by_{}_{o3}", sender_class(sender)));
                if op == "aggregate" && matches!(args.first().copied(), Some("pool") | Some("vault")) {
                    mon.check("C10", "direct_aggregate_rejects_contracts", true, || String::new());
                }
            }
            return;
        }
        if op == "collect" || op == "aggregate" {
            Self::monitor_direct(w, mon, pre, post, sender, op, args, swaps, page);
        }
        // ---- C10 forward_auth: nobody but the distributor may trigger forwarding
        if op == "fwd" {
            mon.check("C10", "forward_auth", false, d(format!("ForwardFees sent by {sender} was accepted")));
        }
        // ---- everything below is evaluated PER ASSET: an epoch may hold several assets once the owner has
        // switched the distribution asset while epochs funded in the old one are still in the grace window
        let na = w.assets.len();
        let den = |a: usize| w.assets.get(a).cloned().unwrap_or_else(|| format!("asset#{a}"));
        // assets that appear on any ledger (an asset the world does not know shows up as 999)
        let mut on_ledgers: BTreeSet<usize> = (0..na).collect();
        for e in pre.eps.iter().chain(post.eps.iter()) {
            for l in [&e.total_l, &e.avail_l, &e.claimed_l] {
                on_ledgers.extend(l.iter().map(|(k, _)| *k));
            }
        }
        let dbal = |o: &Obs, a: usize| o.dbala.get(a).copied().unwrap_or(0);
        let newest = post.eps.first().map(|e| e.id).unwrap_or(0);
        if op == "distasset" {
            mon.check("C09", "distasset_owner_only", sender == "admin", d(format!("{sender} switched the distribution asset")));
            mon.check(
                "C09",
                "distasset_touches_no_ledger",
                pre.eps == post.eps && pre.dbala == post.dbala && pre.uba == post.uba && pre.cl == post.cl,
                d(format!("switching the distribution asset changed a ledger / balance:\n pre  {}\n post {}", pre.line(), post.line())),
            );
            let live_old: usize = post
                .eps
                .iter()
                .take(post.grace as usize)
                .filter(|e| e.avail_l.iter().any(|(k, x)| *k != post.dist && *x > 0))
                .count();
            mon.stat(if post.dist == pre.dist {
                "distasset_same_asset"
            } else if live_old > 0 {
                "distasset_switch_with_live_epochs_in_old_asset"
            } else {
                "distasset_switch_no_live_old_epochs"
            });
        }
        // ---- newepoch: expiry bookkeeping (by the statement: the epoch that leaves the grace window)
        let mut expiring: Option<u64> = None;
        if op == "newepoch" {
            let n_pre = pre.eps.len() as u64;
            if n_pre >= pre.grace && pre.grace >= 1 {
                expiring = Some(pre.eps[(pre.grace - 1) as usize].id);
            }
            let new = &post.eps[0];
            let empty: Led = vec![];
            let rolled_l: &Led = expiring.and_then(|x| pre.ep(x)).map(|e| &e.avail_l).unwrap_or(&empty);
            if let Some(x) = expiring {
                let already = w.expired.contains(&x);
                for a in on_ledgers.iter().copied() {
                    let rollover = amt_of(rolled_l, a);
                    mon.check(
                        "C09",
                        "expire_once",
                        !(already && rollover > 0) && !(rollover > 0 && w.rolled.contains(&(x, a))),
                        d(format!("epoch {x} rolled over a second time ({rollover} {})", den(a))),
                    );
                    if rollover > 0 {
                        w.rolled.insert((x, a));
                    }
                }
                w.expired.insert(x);
                mon.check(
                    "C09",
                    "expire_once",
                    post.ep(x).map(|e| e.avail_l.is_empty()).unwrap_or(false),
                    d(format!("expired epoch {x} still has available {:?}", post.ep(x).map(|e| show_led(&e.avail_l)))),
                );
                let any = rolled_l.iter().any(|(_, x)| *x > 0);
                mon.stat(if any { "rollover_nonzero" } else { "rollover_zero" });
                if rolled_l.iter().any(|(k, x)| *k != pre.dist && *x > 0) {
                    mon.stat("rollover_in_other_than_distribution_asset");
                }
                if rolled_l.iter().filter(|(_, x)| *x > 0).count() > 1 {
                    mon.stat("rollover_of_several_assets");
                }
            } else {
                mon.stat("newepoch_nothing_expiring");
            }
            mon.check(
                "C09",
                "expire_once",
                post.eps.len() == pre.eps.len() + 1 && new.avail_l == new.total_l && new.claimed_l.is_empty(),
                d(format!("new epoch {}: available {} / claimed {} but total {}", new.id, show_led(&new.avail_l), show_led(&new.claimed_l), show_led(&new.total_l))),
            );
            for a in on_ledgers.iter().copied() {
                let inflow = dbal(post, a).wrapping_sub(dbal(pre, a));
                let rollover = amt_of(rolled_l, a);
                let tot = amt_of(&new.total_l, a);
                let what = format!(
                    "epoch {} left the grace window with {rollover} {} unclaimed; the collector transferred {inflow} {}; but the new epoch {} has total {tot} {}{}",
                    expiring.map(|x| x.to_string()).unwrap_or("-".into()),
                    den(a),
                    den(a),
                    new.id,
                    den(a),
                    if tot < inflow + rollover { format!(": {} {} of epoch {} belong to no epoch any more", inflow + rollover - tot, den(a), expiring.map(|x| x.to_string()).unwrap_or("-".into())) } else { String::new() }
                );
                mon.check("C09", "expire_once", dbal(post, a) >= dbal(pre, a) && tot == inflow + rollover, d(what.clone()));
                mon.check("C10", "epoch_total_eq", dbal(post, a) >= dbal(pre, a) && tot == inflow + rollover, d(what));
                // the collector forwards in the distribution asset only
                mon.check(
                    "C10",
                    "transfer_in_distribution_asset",
                    a == pre.dist || inflow == 0,
                    d(format!("NewEpoch moved {inflow} {} into the distributor but the distribution asset is {}", den(a), den(pre.dist))),
                );
                if a < na {
                    w.inflows[a] = w.inflows[a].saturating_add(inflow);
                }
            }
            if pre.dist != DIST {
                mon.stat("newepoch_in_switched_asset");
            }
            if new.total_l.len() > 1 {
                mon.stat("new_epoch_holds_several_assets");
            }
            // all other epochs untouched
            let others_same = pre.eps.iter().all(|e| Some(e.id) == expiring || post.ep(e.id) == Some(e));
            let exp_same = expiring
                .map(|x| {
                    let (a, b) = (pre.ep(x).unwrap(), post.ep(x).unwrap());
                    a.total_l == b.total_l && a.claimed_l == b.claimed_l && a.start == b.start
                })
                .unwrap_or(true);
            mon.check("C09", "expire_once", others_same && exp_same, d("newepoch modified an epoch other than the expiring one".to_string()));
            Self::monitor_pipeline(w, mon, pre, post, swaps, stages, composite);
        }
        // ---- C09 epoch_ledger: claimed + available = total, for each asset, for every epoch that has not
        // left the grace window; expired epochs are empty in every asset
        for e in &post.eps {
            if w.expired.contains(&e.id) {
                mon.check("C09", "expire_once", e.avail_l.is_empty(), d(format!("expired epoch {} has available again: {}", e.id, show_led(&e.avail_l))));
            } else {
                let keys = |l: &Led| l.iter().map(|(k, _)| *k).collect::<Vec<_>>();
                let nodup = |l: &Led| keys(l).iter().collect::<BTreeSet<_>>().len() == l.len();
                mon.check(
                    "C09",
                    "epoch_ledger",
                    keys(&e.avail_l) == keys(&e.total_l) && nodup(&e.total_l) && nodup(&e.claimed_l),
                    d(format!("live epoch {}: total {} available {} claimed {} do not list the same assets once each", e.id, show_led(&e.total_l), show_led(&e.avail_l), show_led(&e.claimed_l))),
                );
                for a in on_ledgers.iter().copied() {
                    let (t, av, c) = (amt_of(&e.total_l, a), amt_of(&e.avail_l, a), amt_of(&e.claimed_l, a));
                    // the funds side: what is neither available nor recorded as claimed has not left the ledger unpaid
                    mon.check(
                        "C09",
                        "epoch_ledger",
                        av <= t && c <= t - av.min(t),
                        d(format!("live epoch {} asset {}: claimed {c} + available {av} exceeds total {t} (newest {newest}, grace {})", e.id, den(a), post.grace)),
                    );
                    // the equation as stated, strict for every asset — also in an epoch holding several assets
                    // (`claim` records every reward with aggregate_assets; up to the fix recorded in
                    // known_findings.json it recorded the first asset paid only, and this check is what reports
                    // that defect should it return)
                    mon.check(
                        "C09",
                        "epoch_ledger",
                        c + av == t,
                        d(format!(
                            "live epoch {} asset {}: claimed {c} + available {av} != total {t}: the epoch holds {}, available {}, claimed ledger {} (newest {newest}, grace {})",
                            e.id, den(a), show_led(&e.total_l), show_led(&e.avail_l), show_led(&e.claimed_l), post.grace
                        )),
                    );
                }
                if e.claimed_l.len() > 1 {
                    mon.stat("live_epoch_claimed_in_several_assets");
                }
            }
        }
        if op == "grace" && post.grace > pre.grace {
            mon.stat(if pre.eps.is_empty() { "grace_increase_before_first_epoch" } else { "grace_increase_mid_history" });
        }
        if op == "newepoch" {
            mon.stat(&format!("epochs_after_newepoch_{}", if post.eps.len() as u64 >= post.grace + 2 { "ge_grace_plus_2" } else { "lt_grace_plus_2" }));
            mon.stat(&format!("inflow_mag_{}", mag_bucket(dbal(post, pre.dist).wrapping_sub(dbal(pre, pre.dist)))));
        }
        // ---- C09 holds_available, per asset
        for a in 0..na {
            mon.check(
                "C09",
                "holds_available",
                post.dbala[a] >= post.sum_avail(a),
                d(format!("distributor holds {} {} < sum of available {}", post.dbala[a], den(a), post.sum_avail(a))),
            );
        }
        // ---- C09 payouts, per asset
        let gain = |i: usize, a: usize| post.uba[i][a].wrapping_sub(pre.uba[i][a]);
        if op == "claim" {
            let ui = uidx.unwrap_or(nu);
            let mut sound = pre.eps.len() == post.eps.len();
            let mut ledger_drop = vec![0u128; na];
            let mut claimed_rise = vec![0u128; na];
            for e in &pre.eps {
                let Some(e2) = post.ep(e.id) else {
                    sound = false;
                    continue;
                };
                if e2.total_l != e.total_l {
                    sound = false;
                }
                let mut dropped = 0u128;
                for a in on_ledgers.iter().copied() {
                    let (av1, av2) = (amt_of(&e.avail_l, a), amt_of(&e2.avail_l, a));
                    let (c1, c2) = (amt_of(&e.claimed_l, a), amt_of(&e2.claimed_l, a));
                    if av2 > av1 || c2 < c1 || a >= na && (av1 != av2 || c1 != c2) {
                        sound = false;
                    }
                    if a < na {
                        ledger_drop[a] += av1 - av2.min(av1);
                        claimed_rise[a] += c2 - c1.min(c2);
                    }
                    dropped += av1 - av2.min(av1);
                }
                if dropped > 0 {
                    mon.stat("claim_paid_epoch");
                    if e.total_l.len() > 1 {
                        mon.stat("claim_paid_epoch_with_several_assets");
                    }
                    mon.check(
                        "C09",
                        "once_per_epoch",
                        !w.paid.contains(&(ui, e.id)),
                        d(format!("{sender} paid twice for epoch {}", e.id)),
                    );
                    w.paid.insert((ui, e.id));
                    let bs = if ui < nu { w.bond_start[ui] } else { None };
                    mon.check(
                        "C09",
                        "not_before_bonding",
                        bs.map(|b| e.start >= b).unwrap_or(false),
                        d(format!("{sender} paid {dropped} for epoch {} started {} but bonded at {:?}", e.id, e.start, bs)),
                    );
                    mon.check(
                        "C09",
                        "epoch_ledger",
                        !w.expired.contains(&e.id),
                        d(format!("payout from expired epoch {}", e.id)),
                    );
                }
            }
            let others = (0..nu).filter(|i| *i != ui).all(|i| (0..na).all(|a| gain(i, a) == 0));
            let mut any_gain = false;
            for a in 0..na {
                let g = if ui < nu { gain(ui, a) } else { 0 };
                any_gain |= g > 0;
                w.paid_out[a] = w.paid_out[a].saturating_add(g);
                let bal_fell = pre.dbala[a].wrapping_sub(post.dbala[a]);
                mon.check(
                    "C09",
                    "payout_eq_ledger_delta",
                    sound && others && g == ledger_drop[a] && bal_fell == g && claimed_rise[a] == g,
                    d(format!(
                        "claim by {sender}, {}: received {g}, available fell by {}, claimed rose by {}, distributor balance fell by {bal_fell}",
                        den(a), ledger_drop[a], claimed_rise[a]
                    )),
                );
            }
            mon.stat(if any_gain { "claim_ok_paid" } else { "claim_ok_zero" });
            if (0..na).filter(|a| ui < nu && gain(ui, *a) > 0).count() > 1 {
                mon.stat("claim_paid_in_several_assets");
            }
        } else {
            mon.check(
                "C09",
                "payout_eq_ledger_delta",
                (0..nu).all(|i| (0..na).all(|a| gain(i, a) == 0)),
                d(format!("{op} changed a bonder's balance: {:?} -> {:?}", pre.uba, post.uba)),
            );
            if op != "newepoch" {
                mon.check("C09", "payout_eq_ledger_delta", pre.eps == post.eps, d(format!("{op} changed the epoch ledgers")));
                for a in 0..na {
                    let gift = if op == "gift" && args.first() == Some(&"dist") && args.get(1).and_then(|x| x.parse::<usize>().ok()).map(|x| x % na) == Some(a) {
                        args.get(2).and_then(|x| x.parse::<u128>().ok()).unwrap_or(0)
                    } else {
                        0
                    };
                    mon.check("C09", "holds_available", post.dbala[a] == pre.dbala[a] + gift, d(format!("{op} changed the distributor's {} balance", den(a))));
                }
                mon.check("C10", "dao_only_on_forward", post.daoa == pre.daoa, d(format!("{op} changed the DAO balance")));
            }
        }
        // ---- C09 rollover exactness over the whole history, per asset: what is available in all epochs plus
        // what has been paid out is exactly what the collector transferred in — nothing that entered an epoch
        // ever drops out of every ledger (expiry only MOVES it to the new epoch)
        for a in 0..na {
            let (av, po, inn) = (post.sum_avail(a), w.paid_out[a], w.inflows[a]);
            if av.checked_add(po) != Some(inn) {
                // name the epoch whose funds vanished: the one that expired in this step, if any
                let culprit = expiring
                    .and_then(|x| pre.ep(x))
                    .map(|e| format!("; epoch {} left the grace window holding {} {} unclaimed", e.id, amt_of(&e.avail_l, a), den(a)))
                    .unwrap_or_default();
                let lost = inn.saturating_sub(av.saturating_add(po));
                let what = format!(
                    "{}: sum of available over all epochs {av} + paid out {po} != transferred in {inn} ({lost} {} belong to no epoch){culprit}",
                    den(a),
                    den(a)
                );
                mon.check("C09", "rollover_conserves_per_asset", false, d(what.clone()));
                mon.check("C10", "rollover_conserves_per_asset", false, d(what));
                // report once per history, then re-base so that later steps are judged on their own
                w.inflows[a] = av.saturating_add(po);
            } else {
                mon.check("C09", "rollover_conserves_per_asset", true, || String::new());
                mon.check("C10", "rollover_conserves_per_asset", true, || String::new());
            }
        }
        // ---- C09 not_before_bonding on the Claimable query: no listed epoch started before the address bonded
        for ui in 0..nu {
            if let Some(bs) = w.bond_start[ui] {
                for id in &post.cl[ui] {
                    let st = post.ep(*id).map(|e| e.start).unwrap_or(0);
                    mon.check(
                        "C09",
                        "not_before_bonding_claimable",
                        st >= bs,
                        d(format!("u{ui} bonded at {bs} but epoch {id} (start {st}) is listed as claimable")),
                    );
                }
            }
        }
    }

    /// C07 / C10 on the real balances around every successful op, in particular a direct (`collect`) or pipeline
    /// (`newepoch`) collection: each pair / vault pays the collector exactly its pending fees above the threshold
    /// and nothing else moves — pair reserves and vault share backing unchanged (reserves move only by what the
    /// aggregation swaps of the same transaction traded) — and whatever coins the caller attached are on the
    /// contract the message was addressed to (`pre` already has them there) and nowhere else.
    #[allow(clippy::too_many_arguments)]
    fn monitor_stray(
        w: &World,
        mon: &mut Monitor,
        pre: &Obs,
        post: &Obs,
        sender: &str,
        op: &str,
        args_all: &[&str],
        stray: &Stray,
        swaps: &[SwapEv],
        xpre: Option<&Extra>,
        xpost: Option<&Extra>,
        composite: bool,
    ) {
        let line = format!("{op} by {sender} {}", args_all.join(" "));
        let both = |mon: &mut Monitor, name: &str, ok: bool, what: String| {
            mon.check("C07", name, ok, || what.clone());
            mon.check("C10", name, ok, || what.clone());
        };
        // the unrelated denom and the lair's balances move only as coins attached to a message addressed there
        both(
            mon,
            "stray_coins_stay_on_receiver",
            post.jb == pre.jb && post.lb == pre.lb,
            format!("{line}: unrelated denom on collector/distributor/router/lair {:?} -> {:?} (expected, with the attached coins on the receiver), lair {:?} -> {:?}", pre.jb, post.jb, pre.lb, post.lb),
        );
        // coins attached to an op that is no collection: the collector's / distributor's balances are exactly
        // the old ones plus the coins (the ops that move balances have their own exactness monitors)
        if matches!(op, "colcfg" | "grace" | "distasset" | "addroute" | "rmroute" | "bond" | "unbond") {
            both(
                mon,
                "stray_coins_stay_on_receiver",
                post.cbal == pre.cbal && post.dbala == pre.dbala && post.daoa == pre.daoa && post.uba == pre.uba,
                format!("{line}: balances beyond the attached coins changed: collector {:?} -> {:?}, distributor {:?} -> {:?}, bonders {:?} -> {:?}", pre.cbal, post.cbal, pre.dbala, post.dbala, pre.uba, post.uba),
            );
        }
        let (Some(x0), Some(x1)) = (xpre, xpost) else { return };
        if !stray.is_empty() {
            mon.stat(&format!("stray_on_{op}_checked"));
        }
        both(
            mon,
            "collect_attached_coins_nowhere_else",
            x1.junk_elsewhere == 0 && x1.foreign_on_pools == x0.foreign_on_pools && x1.foreign_on_vaults == x0.foreign_on_vaults,
            format!(
                "{line}: coins that are none of its business on a pair / vault / factory / the DAO: unrelated denom {} -> {}, foreign assets on pairs {} -> {}, on vaults {} -> {}",
                x0.junk_elsewhere, x1.junk_elsewhere, x0.foreign_on_pools, x1.foreign_on_pools, x0.foreign_on_vaults, x1.foreign_on_vaults
            ),
        );
        let na = w.assets.len();
        let mut collected = vec![0u128; na];
        // ---- pairs: (offer in, return out, protocol fee accrued) per pool side from the swap events
        for (i, (a, b)) in w.pool_assets.iter().enumerate() {
            let sides = [(0usize, *a, pre.pp[i].0, post.pp[i].0, x0.pool_bal[i].0, x1.pool_bal[i].0, x0.pool_res[i].0, x1.pool_res[i].0),
                         (1usize, *b, pre.pp[i].1, post.pp[i].1, x0.pool_bal[i].1, x1.pool_bal[i].1, x0.pool_res[i].1, x1.pool_res[i].1)];
            for (sd, asset, p0, p1, b0, b1, r0, r1) in sides {
                let offer_in: u128 = swaps.iter().filter(|s| s.pool == i && s.ask_side != sd).map(|s| s.offer_amt).sum();
                let ret_out: u128 = swaps.iter().filter(|s| s.pool == i && s.ask_side == sd).map(|s| s.ret).sum();
                let accrued: u128 = swaps.iter().filter(|s| s.pool == i && s.ask_side == sd).map(|s| s.pfee).sum();
                // what the pair paid out of its pending ledger
                let paid = (p0 + accrued).wrapping_sub(p1);
                let exact = p1 <= p0 + accrued && (composite || paid == 0 || (paid == p0 && p0 > THRESH && op != "aggregate"));
                both(
                    mon,
                    "collect_moves_exactly_pending",
                    exact,
                    format!("{line}: pair {i} side {sd} ({}): pending {p0} (+{accrued} accrued by aggregation swaps) -> {p1}: neither kept nor paid in full above the threshold", w.assets[asset]),
                );
                both(
                    mon,
                    "collect_moves_exactly_pending",
                    b1.saturating_add(if composite { paid.min(p0.saturating_add(accrued)) } else { paid.min(p0) }).saturating_add(ret_out) == b0.saturating_add(offer_in),
                    format!("{line}: pair {i} side {sd} ({}): bank balance {b0} -> {b1} but it paid {paid} pending fees, swaps brought {offer_in} and took {ret_out}", w.assets[asset]),
                );
                both(
                    mon,
                    "collect_reserves_unchanged",
                    r1 + ret_out + accrued == r0 + offer_in && x1.pool_res[i].2 == x0.pool_res[i].2,
                    format!("{line}: pair {i} side {sd} ({}): reported reserve {r0} -> {r1} (swaps of this transaction: +{offer_in} -{ret_out} -{accrued} fee), LP supply {} -> {}", w.assets[asset], x0.pool_res[i].2, x1.pool_res[i].2),
                );
                if exact {
                    collected[asset] += paid;
                }
            }
        }
        // ---- vaults: pays all of its pending fees or nothing; share backing (balance - pending) and LP supply unchanged
        for (i, a) in w.vault_assets.iter().enumerate() {
            let (p0, p1, b0, b1) = (pre.vp[i], post.vp[i], x0.vault_bal[i], x1.vault_bal[i]);
            let paid = p0.wrapping_sub(p1);
            let exact = p1 <= p0 && (paid == 0 || (p1 == 0 && op != "aggregate"));
            both(mon, "collect_moves_exactly_pending", exact, format!("{line}: vault {i} ({}): pending {p0} -> {p1}", w.assets[*a]));
            both(
                mon,
                "collect_moves_exactly_pending",
                b1 + paid.min(p0) == b0,
                format!("{line}: vault {i} ({}): bank balance {b0} -> {b1} but it paid {paid} pending fees", w.assets[*a]),
            );
            both(
                mon,
                "collect_reserves_unchanged",
                b1.wrapping_sub(p1) == b0.wrapping_sub(p0) && x1.vault_sup[i] == x0.vault_sup[i],
                format!("{line}: vault {i} ({}): share backing {} -> {}, LP supply {} -> {}", w.assets[*a], b0.wrapping_sub(p0), b1.wrapping_sub(p1), x0.vault_sup[i], x1.vault_sup[i]),
            );
            if exact {
                collected[*a] += paid;
            }
        }
        // ---- the collector: a direct collection leaves exactly old balance (+ attached coins) + collected; the
        // pipeline / a direct aggregation then swaps an asset in full or not at all
        let dist = pre.dist;
        for a in 0..na {
            let have = pre.cbal[a] + collected[a];
            let ok = match op {
                _ if composite => true, // judged by conservation_across_transaction
                "collect" => post.cbal[a] == have,
                _ if a == dist => true, // judged by pipeline_conservation / direct_aggregate_only_converts
                _ => post.cbal[a] == have || post.cbal[a] == 0,
            };
            both(
                mon,
                "collect_reaches_collector",
                ok,
                format!("{line}: collector {}: {} (incl. attached coins) + {} paid by pairs / vaults -> {}", w.assets[a], pre.cbal[a], collected[a], post.cbal[a]),
            );
        }
        if op == "collect" && !stray.is_empty() {
            let np = w.pool_assets.iter().enumerate().filter(|(i, _)| pre.pp[*i].0 > post.pp[*i].0 || pre.pp[*i].1 > post.pp[*i].1).count();
            mon.stat(match np {
                0 => "stray_collect_paid_by_0_pairs",
                1 => "stray_collect_paid_by_1_pair",
                _ => "stray_collect_paid_by_2plus_pairs",
            });
        }
    }

    /// C10 on a successful CollectFees / AggregateFees sent to the collector directly: the collection moves
    /// exactly the collectable pending fees of the named pools / vaults into the collector, the aggregation
    /// only converts collector balances through registered routes; nothing else changes.
    #[allow(clippy::too_many_arguments)]
    fn monitor_direct(
        w: &World,
        mon: &mut Monitor,
        pre: &Obs,
        post: &Obs,
        sender: &str,
        op: &str,
        args: &[&str],
        swaps: &[SwapEv],
        page: &(Vec<bool>, Vec<bool>),
    ) {
        let d = |s: String| move || s;
        // the asset the collector aggregates into: the distributor's CURRENT distribution asset
        let dist = pre.dist;
        let kind = args.first().copied().unwrap_or("?");
        let k = args.get(1).and_then(|x| x.parse::<usize>().ok());
        // a `Factory` target names the pairs / vaults on the factory's page for the limit it carries
        let on_pool_page = |i: usize| kind == "pfac" && page.0.get(i).copied().unwrap_or(false);
        let on_vault_page = |i: usize| kind == "vfac" && page.1.get(i).copied().unwrap_or(false);
        if kind == "vfac" || kind == "pfac" {
            let n = if kind == "vfac" { page.1.iter().filter(|x| **x).count() } else { page.0.iter().filter(|x| **x).count() };
            let total = if kind == "vfac" { w.vaults.len() } else { pre.reg.iter().filter(|x| **x).count() };
            mon.stat(if n == total { "direct_page_lists_all" } else { "direct_page_lists_part" });
        }
        mon.stat(&format!("direct_{op}_{kind}_ok"));
        mon.stat(&format!("direct_{op}_by_{}_ok", sender_class(sender)));
        // distributor, DAO, epochs, take-rate history, bonders, registry, configuration: untouched
        let rest_same = pre.grace == post.grace
            && pre.dbala == post.dbala
            && pre.daoa == post.daoa
            && pre.dist == post.dist
            && pre.eps == post.eps
            && pre.trh == post.trh
            && pre.uba == post.uba
            && pre.cl == post.cl
            && pre.reg == post.reg
            && pre.on == post.on
            && pre.rt == post.rt
            && pre.rate == post.rate
            && pre.active == post.active
            && pre.dao_set == post.dao_set;
        mon.check(
            "C10",
            "direct_touches_nothing_else",
            rest_same,
            d(format!("direct {op} {kind} by {sender} changed the distributor / DAO / epochs / configuration:\n pre  {}\n post {}", pre.line(), post.line())),
        );
        if op == "collect" {
            let mut moved = vec![0u128; w.assets.len()];
            for (i, a) in w.vault_assets.iter().enumerate() {
                let named = on_vault_page(i) || (kind == "vault" && k == Some(i));
                if named {
                    mon.check("C10", "direct_collect_exact", post.vp[i] == 0, d(format!("direct collect {kind}: vault {i} still has {} pending (had {})", post.vp[i], pre.vp[i])));
                    moved[*a] += pre.vp[i];
                    mon.stat(match pre.vp[i] {
                        0 => "dcol_vault_pending_zero",
                        x if x < THRESH => "dcol_vault_pending_lt_1000",
                        x if x == THRESH => "dcol_vault_pending_eq_1000",
                        _ => "dcol_vault_pending_gt_1000",
                    });
                } else {
                    mon.check("C10", "direct_collect_exact", post.vp[i] == pre.vp[i], d(format!("direct collect {kind}: vault {i} was not named but its pending went {} -> {}", pre.vp[i], post.vp[i])));
                }
            }
            for (i, (a, b)) in w.pool_assets.iter().enumerate() {
                // a factory page lists the registered pairs only; a pair named as a contract needs no listing
                let named = (on_pool_page(i) && pre.reg[i]) || (kind == "pool" && k == Some(i));
                let sides = [(0usize, *a, pre.pp[i].0, post.pp[i].0), (1usize, *b, pre.pp[i].1, post.pp[i].1)];
                for (sd, asset, before, after) in sides {
                    if named && before > THRESH {
                        mon.check("C10", "direct_collect_exact", after == 0, d(format!("direct collect {kind}: pool {i} side {sd}: pending {before} -> {after}, expected 0")));
                        moved[asset] += before;
                        mon.stat("dcol_pool_pending_gt_1000");
                    } else {
                        mon.check("C10", "direct_collect_exact", after == before, d(format!("direct collect {kind}: pool {i} side {sd}: uncollectable / unnamed pending {before} -> {after}")));
                        if kind == "pfac" || (kind == "pool" && k == Some(i)) {
                            mon.stat(if before == 0 {
                                "dcol_pool_pending_zero"
                            } else if !named && pre.reg[i] {
                                "dcol_pool_pending_beyond_page"
                            } else if !named {
                                "dcol_pool_pending_unregistered"
                            } else if before == THRESH {
                                "dcol_pool_pending_eq_1000"
                            } else {
                                "dcol_pool_pending_lt_1000"
                            });
                        }
                    }
                }
                if kind == "pool" && k == Some(i) && !pre.reg[i] {
                    mon.stat("dcol_named_unregistered_pool");
                }
            }
            for i in 0..w.assets.len() {
                mon.check(
                    "C10",
                    "direct_collect_exact",
                    post.cbal[i] == pre.cbal[i] + moved[i],
                    d(format!("direct collect {kind}: collector {} {} -> {} but {} left the named pools / vaults", w.assets[i], pre.cbal[i], post.cbal[i], moved[i])),
                );
            }
            mon.stat(if moved.iter().any(|m| *m > 0) { "dcol_moved_something" } else { "dcol_moved_nothing" });
        } else {
            mon.check(
                "C10",
                "direct_aggregate_rejects_contracts",
                kind == "vfac" || kind == "pfac",
                d(format!("AggregateFees for `{kind}` ({}) sent by {sender} was accepted", args.join(" "))),
            );
            let mut acc: BTreeMap<(usize, usize), u128> = BTreeMap::new();
            for s in swaps {
                *acc.entry((s.pool, s.ask_side)).or_insert(0) += s.pfee;
            }
            // pending fees: only what the aggregation swaps themselves accrued
            let mut pend_ok = pre.vp == post.vp;
            for i in 0..w.pool_assets.len() {
                let a0 = *acc.get(&(i, 0)).unwrap_or(&0);
                let a1 = *acc.get(&(i, 1)).unwrap_or(&0);
                pend_ok &= post.pp[i] == (pre.pp[i].0 + a0, pre.pp[i].1 + a1);
            }
            mon.check("C10", "direct_aggregate_only_converts", pend_ok, d(format!("direct aggregate {kind}: pending fees changed beyond what its swaps accrued: pp {:?} -> {:?}, vp {:?} -> {:?}", pre.pp, post.pp, pre.vp, post.vp)));
            let cand = |i: usize| -> bool {
                if kind == "vfac" {
                    w.vault_assets.iter().enumerate().any(|(vi, a)| on_vault_page(vi) && *a == i)
                } else {
                    w.pool_assets.iter().enumerate().any(|(pi, (a, b))| on_pool_page(pi) && pre.reg[pi] && (*a == i || *b == i))
                }
            };
            let mut n_swapped = 0;
            for i in 0..w.assets.len() {
                if i == dist {
                    continue;
                }
                let have = pre.cbal[i];
                let touched = post.cbal[i] != have;
                mon.check(
                    "C10",
                    "direct_aggregate_only_converts",
                    post.cbal[i] == have || post.cbal[i] == 0,
                    d(format!("direct aggregate {kind}: collector {} {have} -> {} (neither untouched nor swapped in full)", w.assets[i], post.cbal[i])),
                );
                mon.check(
                    "C10",
                    "direct_aggregate_only_converts",
                    !touched || (have > THRESH && pre.rt[i] != 0 && cand(i)),
                    d(format!("direct aggregate {kind}: collector {} ({have}) was swapped although it is below the threshold, has no route (rt {}) or is no asset of the named factory page", w.assets[i], pre.rt[i])),
                );
                if touched {
                    n_swapped += 1;
                }
                mon.stat(if touched {
                    "dagg_swapped"
                } else if have == 0 {
                    "dagg_zero"
                } else if have < THRESH {
                    "dagg_untouched_lt_1000"
                } else if have == THRESH {
                    "dagg_untouched_eq_1000"
                } else if !cand(i) {
                    "dagg_untouched_not_candidate"
                } else if pre.rt[i] == 0 {
                    "dagg_untouched_no_route"
                } else {
                    "dagg_untouched_sim_failed"
                });
            }
            let swapped_in: u128 = swaps.iter().filter(|s| s.to_collector).map(|s| s.ret).sum();
            let chains = swaps.iter().filter(|s| s.to_collector).count();
            mon.check("C10", "direct_aggregate_only_converts", chains == n_swapped, d(format!("direct aggregate {kind}: {n_swapped} assets left the collector but {chains} router swaps paid it")));
            mon.check(
                "C10",
                "direct_aggregate_only_converts",
                post.cbal[dist] >= pre.cbal[dist] && post.cbal[dist] == pre.cbal[dist] + swapped_in,
                d(format!("direct aggregate {kind}: collector {} {} -> {} but the router paid {swapped_in}", w.assets[dist], pre.cbal[dist], post.cbal[dist])),
            );
        }
    }

    /// C10 on a successful NewEpoch: collection, aggregation, take rate, transfer
    fn monitor_pipeline(w: &World, mon: &mut Monitor, pre: &Obs, post: &Obs, swaps: &[SwapEv], stages: &[usize], composite: bool) {
        let d = |s: String| move || s;
        // the asset the collector aggregates into and forwards: the distributor's CURRENT distribution asset
        let dist = pre.dist;
        // fees accrued by the aggregation swaps themselves (events), per pool side
        let mut acc: BTreeMap<(usize, usize), u128> = BTreeMap::new();
        for s in swaps {
            *acc.entry((s.pool, s.ask_side)).or_insert(0) += s.pfee;
        }
        let mut collected = vec![0u128; w.assets.len()];
        // coverage: did a pair / vault beyond position 10 of the factory's listing have something to collect?
        let tail_pool = w.pool_order.iter().skip(10).any(|i| pre.reg[*i] && (pre.pp[*i].0 > THRESH || pre.pp[*i].1 > THRESH));
        let tail_vault = w.vault_order.iter().skip(10).any(|i| pre.vp[*i] > 0);
        if w.pools.len() > 10 {
            mon.stat(if tail_pool { "pipeline_pool_beyond_10_collectable" } else { "pipeline_pool_beyond_10_nothing" });
        }
        if w.vaults.len() > 10 {
            mon.stat(if tail_vault { "pipeline_vault_beyond_10_pending" } else { "pipeline_vault_beyond_10_nothing" });
        }
        // vaults: everything pending is collected
        for (i, a) in w.vault_assets.iter().enumerate() {
            mon.check(
                "C10",
                "pending_collected",
                post.vp[i] == 0,
                d(format!(
                    "vault {i} ({}, entry {} of {} in the vault factory's listing) still has {} pending after NewEpoch (had {})",
                    w.assets[*a],
                    w.vault_order.iter().position(|x| *x == i).map(|x| x + 1).unwrap_or(0),
                    w.vaults.len(),
                    post.vp[i],
                    pre.vp[i]
                )),
            );
            collected[*a] += pre.vp[i];
            mon.stat(match pre.vp[i] {
                0 => "vault_pending_zero",
                x if x <= THRESH => "vault_pending_le_1000",
                _ => "vault_pending_gt_1000",
            });
        }
        // pools: entries above the pair's threshold are collected, the others stay pending
        for (i, (a, b)) in w.pool_assets.iter().enumerate() {
            let sides = [(0usize, *a, pre.pp[i].0, post.pp[i].0), (1usize, *b, pre.pp[i].1, post.pp[i].1)];
            for (sd, asset, before, after) in sides {
                let accrued = *acc.get(&(i, sd)).unwrap_or(&0);
                if pre.reg[i] && before > THRESH {
                    mon.check(
                        "C10",
                        "pending_collected",
                        if composite { after <= accrued } else { after == accrued },
                        d(format!(
                            "pool {i} ({}/{}, registered, entry {} of {} in the pool factory's listing) side {sd}: collectable pending {before} -> {after} after NewEpoch (accrued by aggregation {accrued})",
                            w.assets[*a],
                            w.assets[*b],
                            w.pool_order.iter().filter(|x| pre.reg[**x]).position(|x| *x == i).map(|x| x + 1).unwrap_or(0),
                            pre.reg.iter().filter(|x| **x).count()
                        )),
                    );
                    collected[asset] += before;
                    mon.stat("pool_pending_gt_1000");
                } else {
                    // (composite: a nested collection may come after aggregation swaps have pushed an entry over the threshold)
                    mon.check(
                        "C10",
                        "pending_collected",
                        if composite { after <= before.saturating_add(accrued) } else { after == before + accrued },
                        d(format!("pool {i} side {sd}: uncollectable pending {before} -> {after} (accrued {accrued})")),
                    );
                    mon.stat(if before == 0 {
                        "pool_pending_zero"
                    } else if !pre.reg[i] {
                        "pool_pending_unregistered"
                    } else if before == THRESH {
                        "pool_pending_eq_1000"
                    } else {
                        "pool_pending_lt_1000"
                    });
                }
            }
        }
        // aggregation: every non-distribution asset is either fully swapped or untouched
        let mut swapped_in = 0u128;
        let mut n_swapped = 0;
        for i in 0..w.assets.len() {
            if i == dist {
                continue;
            }
            let have = pre.cbal[i] + collected[i];
            let touched = post.cbal[i] != have;
            let can = have > THRESH && pre.rt[i] != 0;
            if composite {
                // a nested collection / aggregation changes WHEN an asset is collected and swapped (it may be swapped in
                // two parts, or collected after its swap): judged by `conservation_across_transaction`
                continue;
            }
            mon.check(
                "C10",
                "untouched_or_swapped",
                post.cbal[i] == have || post.cbal[i] == 0,
                d(format!("collector {}: had {} + collected {} -> {}", w.assets[i], pre.cbal[i], collected[i], post.cbal[i])),
            );
            mon.check(
                "C10",
                "untouched_or_swapped",
                !touched || can,
                d(format!("collector {} ({have}) was swapped although it is below the threshold or has no route (rt {})", w.assets[i], pre.rt[i])),
            );
            if touched {
                n_swapped += 1;
            }
            mon.stat(if touched {
                "agg_swapped"
            } else if have == 0 {
                "agg_zero"
            } else if have <= THRESH {
                "agg_untouched_le_1000"
            } else if pre.rt[i] == 0 {
                "agg_untouched_no_route"
            } else {
                "agg_untouched_sim_failed"
            });
        }
        // a failed step must fail the whole operation: after a SUCCESSFUL NewEpoch an asset above the
        // threshold can only have stayed in the collector if its route did not simulate. For a one-hop
        // route whose pair no swap of this transaction went through, the pair is still in the state
        // it had when the collector simulated, so the simulation can be repeated now.
        for i in 0..w.assets.len() {
            if i == dist || composite {
                continue;
            }
            let have = pre.cbal[i] + collected[i];
            let direct_pool = w.pool_assets.iter().position(|(a, b)| (*a == i && *b == dist) || (*b == i && *a == dist));
            if let Some(pi) = direct_pool {
                if have > THRESH && pre.rt[i] == 1 && post.cbal[i] == have && pre.reg[pi] && !swaps.iter().any(|s| s.pool == pi) {
                    let sim: Result<r::SimulateSwapOperationsResponse, _> = w.app.wrap().query_wasm_smart(
                        &w.router,
                        &r::QueryMsg::SimulateSwapOperations {
                            offer_amount: have.into(),
                            operations: vec![r::SwapOperation::TerraSwap {
                                offer_asset_info: nat(&w.assets[i]),
                                ask_asset_info: nat(&w.assets[dist]),
                            }],
                        },
                    );
                    mon.check(
                        "C10",
                        "failed_step_fails_operation",
                        sim.is_err(),
                        d(format!(
                            "NewEpoch succeeded and left {have} {} in the collector although its registered one-hop route simulates: the swap step must have failed without failing the operation",
                            w.assets[i]
                        )),
                    );
                }
            }
        }
        let mut chains = 0;
        for s in swaps {
            if s.to_collector {
                swapped_in += s.ret;
                chains += 1;
            }
        }
        let _ = stages;
        mon.check("C10", "untouched_or_swapped", composite || chains == n_swapped, d(format!("{n_swapped} assets left the collector but {chains} router swaps paid it")));
        // take rate and transfer
        let dao_got = post.daoa[dist].wrapping_sub(pre.daoa[dist]);
        let to_dist = post.dbala[dist].wrapping_sub(pre.dbala[dist]);
        // (composite: what the collector's reply split is what reached the DAO and the distributor; that nothing else
        // went missing is `conservation_across_transaction`)
        let base = if composite { dao_got.saturating_add(to_dist) } else { pre.cbal[dist] + collected[dist] + swapped_in };
        mon.check(
            "C10",
            "pipeline_conservation",
            post.daoa[dist] >= pre.daoa[dist] && post.dbala[dist] >= pre.dbala[dist] && base == dao_got + to_dist && (composite || post.cbal[dist] == 0),
            d(format!(
                "collector had {} + collected {} + swapped in {swapped_in} = {base} {}; DAO got {dao_got}, distributor got {to_dist}, left {}",
                pre.cbal[dist], collected[dist], w.assets[dist], post.cbal[dist]
            )),
        );
        // the DAO and the distributor receive the distribution asset only
        mon.check(
            "C10",
            "pipeline_conservation",
            (0..w.assets.len()).all(|a| a == dist || (post.daoa[a] == pre.daoa[a] && post.dbala[a] == pre.dbala[a])),
            d(format!("NewEpoch moved another asset than {} to the DAO / distributor: dao {:?} -> {:?}, distributor {:?} -> {:?}", w.assets[dist], pre.daoa, post.daoa, pre.dbala, post.dbala)),
        );
        mon.stat(if dist == DIST { "pipeline_in_initial_asset" } else { "pipeline_in_switched_asset" });
        let active = pre.active && pre.rate != 0 && pre.dao_set;
        let expect = if active {
            (cosmwasm_std::Uint256::from(base) * cosmwasm_std::Uint256::from(pre.rate) / cosmwasm_std::Uint256::from(E18)).to_string().parse::<u128>().unwrap_or(u128::MAX)
        } else {
            0
        };
        mon.check(
            "C10",
            "take_exact",
            dao_got == expect,
            d(format!("take rate {} active {} dao_set {}: DAO got {dao_got}, floor(rate*{base}) = {expect}", pre.rate, pre.active, pre.dao_set)),
        );
        let id = post.eps[0].id;
        let rec = post.trh.iter().find(|(i, _)| *i == id).map(|(_, a)| *a);
        mon.check(
            "C10",
            "take_exact",
            rec == if dao_got > 0 { Some(dao_got) } else { None } && pre.trh.iter().all(|x| post.trh.contains(x)) && post.trh.len() == pre.trh.len() + (dao_got > 0) as usize,
            d(format!("take-rate history for epoch {id}: {:?}, DAO got {dao_got}", rec)),
        );
        // the record is a coin of the asset the DAO was paid in: the distribution asset in force (seed C10-N)
        let rec_asset = post.trha.iter().find(|(i, _)| *i == id).map(|(_, a)| *a);
        mon.check(
            "C10",
            "take_recorded_in_distribution_asset",
            rec_asset.is_none() || rec_asset == Some(pre.dist),
            d(format!("take-rate history for epoch {id} is a coin of asset {:?}, the distribution asset is {}", rec_asset, pre.dist)),
        );
        mon.stat(if !pre.active {
            "take_inactive"
        } else if pre.rate == 0 {
            "take_rate_zero"
        } else if !pre.dao_set {
            "take_dao_unset"
        } else if dao_got == 0 {
            "take_active_floor_zero"
        } else {
            "take_active_paid"
        });
        mon.stat(if to_dist == 0 { "inflow_zero" } else { "inflow_nonzero" });
        let _ = w;
    }
}

/// tiny helper so that `exec` can take any serialisable message
mod erased {
    use cosmwasm_std::{to_json_binary, Binary};
    pub trait Msg {
        fn bin(&self) -> Binary;
    }
    impl<T: serde::Serialize> Msg for T {
        fn bin(&self) -> Binary {
            to_json_binary(self).unwrap()
        }
    }
}

impl Engine for Feeflow {
    fn exec(&mut self, line: &str, mon: &mut Monitor) -> String {
        let toks: Vec<&str> = line.split_whitespace().filter(|t| !t.starts_with('@')).collect();
        self.rec = None;
        if toks.first() == Some(&"init") {
            let kv: BTreeMap<String, String> =
                toks.iter().skip(2).filter_map(|t| t.split_once('=')).map(|(a, b)| (a.to_string(), b.to_string())).collect();
            let w = World::build(&kv);
            let l = format!("ok {}", w.last.line());
            self.w = Some(w);
            return l;
        }
        if self.w.is_none() || toks.len() < 4 {
            return "bad-op".into();
        }
        let (Ok(h), Ok(t)) = (toks[1].parse::<u64>(), toks[2].parse::<u64>()) else { return "bad-op".into() };
        {
            let w = self.w.as_mut().unwrap();
            w.app.update_block(|b| {
                b.height = h;
                b.time = Timestamp::from_nanos(t);
            });
        }
        let (obs, rec) = self.run(toks[3], toks[0], &toks[4..], mon);
        let mut l = toks.join(" ");
        for r in rec {
            l.push(' ');
            l.push_str(&r);
        }
        self.rec = Some(l);
        obs
    }

    fn recorded(&mut self, line: &str) -> String {
        self.rec.take().unwrap_or_else(|| line.to_string())
    }

    fn next_op(&mut self, rng: &mut Rng, step: u64) -> Option<String> {
        if step == 0 {
            let grace = rng.range(1, 5);
            // the genesis (and with it every epoch start) is not always a whole second
            let genesis = T0 + 3_600_000_000_000 + *rng.pick(&[0u64, 0, 1, 300_000_000, 999_999_999]);
            let pfs = [0u64, 1, 3, 10, 30];
            let pf: Vec<u64> = (0..3).map(|_| *rng.pick(&pfs[1..])).collect();
            let vfs: Vec<u64> = (0..3).map(|_| *rng.pick(&pfs)).collect();
            let growth = *rng.pick(&[0u128, 1_000_000_000, 64_000_000_000_000, 1_000_000_000_000_000]);
            let extra = rng.range(0, 4);
            let marathon = rng.chance(1, 80);
            self.g = Gen {
                t: T0,
                h: 1,
                genesis,
                round: 0,
                rounds: if marathon { 257 + grace + extra } else { grace + 2 + extra },
                left: if marathon { 1 } else { rng.range(2, 8) },
                marathon,
                phase: 0,
                setup: vec![],
                scen_round: u64::MAX,
                bond_edge_round: u64::MAX,
                stray_scen_done: false,
                pre_gift_round: u64::MAX,
                reenter_round: u64::MAX,
                inloan_round: u64::MAX,
                inloan_n: 0,
                switch_rounds: {
                    // 1 history in 4 keeps one distribution asset throughout; the others switch 1 … 3 times
                    let rounds = grace + 2 + extra;
                    let mut v = vec![];
                    if !rng.chance(1, 4) {
                        // first switch in round 1 … rounds - grace: the epochs created before it (in the old
                        // asset) expire while the history is still running
                        let first = rng.range(1, (rounds - grace).max(1));
                        v.push(first);
                        for _ in 0..rng.below(3) {
                            v.push(rng.range(first, rounds + 1));
                        }
                    }
                    v
                },
            };
            // routes registered at the start (as ops, so that the model follows)
            for a in 0..2 {
                match rng.below(5) {
                    0 => {}
                    1 | 2 | 3 => self.g.setup.push(format!("admin addroute {a} direct")),
                    _ => self.g.setup.push(format!("admin addroute {a} twohop")),
                }
            }
            if rng.chance(1, 2) {
                let rate = gen_rate(rng);
                self.g.setup.push(format!("admin colcfg rate={rate} dao={} active={}", rng.below(2), rng.below(2)));
            }
            // which assets have a vault: an asset with a pool but no vault is only aggregated in the
            // last (pools) stage of ForwardFees
            let vaults = *rng.pick(&["2,1,0", "2,1,0", "2,1", "2,0", "1,0", "2,1,0"]);
            // denom shapes (see `base_denoms`): 2 in 5 base worlds keep the plain denoms
            let dn = if self.many {
                *rng.pick(&[0u64, 0, 5])
            } else {
                *rng.pick(&[0u64, 0, 0, 0, 1, 1, 2, 3, 4, 5])
            };
            // no vault can be created for a token-factory denom (cw20 LP symbol rules)
            let vaults = if dn == 2 { "1,0" } else { vaults };
            // MAGNITUDES: 1 world in 3 keeps the classic 10^12 of liquidity in every pair / vault; the others get
            // liquidity per pair / vault anywhere from 2^24 to 2^118 (`many`: 2^112, the owner funds 15 pairs), all
            // equal and huge, or a mix — fees, balances and distribution amounts then span the whole u128 range the
            // contracts have to cope with (in-round amounts are chosen relative to the liquidity they meet)
            let cap = if self.many { 112 } else { 118 };
            let scale = rng.below(6);
            let huge = 1u128 << rng.range(96, cap);
            // (pairs / vaults of one world within a few bits of each other: the fees collected from one pair are
            // swapped through another, which must be able to take them; scale 5 is the world where it cannot)
            let mid = rng.range(27, cap - 3);
            let mut liq_of = |rng: &mut Rng| -> u128 {
                match scale {
                    0 | 1 => 1_000_000_000_000,
                    2 | 3 => (1u128 << (mid + rng.range(0, 6) - 3)) + rng.below(1_000_000) as u128,
                    4 => huge,
                    _ => {
                        if rng.chance(1, 2) {
                            1_000_000_000_000
                        } else {
                            1u128 << rng.range(64, cap)
                        }
                    }
                }
            };
            // HOSTILE REGISTERED CONTRACTS (2 worlds in 5): the pair uatom/uusdc (a hop of every two-hop route) and / or
            // the last vault is the hostile contract, instantiated by the real factory; its helper is bonder u5
            let hostile_world = rng.chance(2, 5);
            let (hostile_pool, hostile_vault) = if !hostile_world {
                (false, false)
            } else {
                match rng.below(4) {
                    0 => (true, false),
                    1 => (false, true),
                    _ => (true, true),
                }
            };
            let nusers = if hostile_world { NUSERS + 1 } else { NUSERS };
            // (the hostile contract's turn comes in LISTING order: the model orders pairs / vaults by asset index, so
            // these worlds use denoms that ascend in index order — plain ones or three IBC vouchers)
            let dn = if hostile_world && !matches!(dn, 0 | 5) { *rng.pick(&[0u64, 0, 5]) } else { dn };
            if hostile_world && rng.chance(3, 4) {
                self.g.setup.push(format!("u5 bond {} {}", rng.below(2), 1_000 + rng.below(1_000_000)));
            }
            if self.many {
                // 9 / 10 / 12 filler assets (indices 3 …), each with a pair against the distribution
                // asset and a vault, created in shuffled order after the three base pairs / vaults:
                // 12 / 13 / 15 pairs and vaults, the listing order differs from the creation order
                let extra = *rng.pick(&[9usize, 9, 10, 12]);
                let shuffled = |rng: &mut Rng| {
                    let mut v: Vec<usize> = (3..3 + extra).collect();
                    for i in (1..v.len()).rev() {
                        v.swap(i, rng.below(i as u64 + 1) as usize);
                    }
                    v
                };
                let mut pools = vec!["0.2".to_string(), "1.2".to_string(), "0.1".to_string()];
                pools.extend(shuffled(rng).iter().map(|k| format!("{k}.{DIST}")));
                let mut vl: Vec<String> = vec!["2".into(), "1".into(), "0".into()];
                vl.extend(shuffled(rng).iter().map(|k| k.to_string()));
                let mut pf = pf;
                let mut vfs = vfs;
                for _ in 0..extra {
                    pf.push(*rng.pick(&pfs[1..]));
                    vfs.push(*rng.pick(&pfs));
                }
                // routes for some of the filler assets, so that the aggregation swaps them
                for a in 3..3 + extra {
                    if rng.chance(1, 3) {
                        self.g.setup.push(format!("admin addroute {a} direct"));
                    }
                }
                if hostile_pool {
                    // a pair of two filler assets: the LAST entry of the pool factory's listing (beyond a default page)
                    pools.push("3.4h".to_string());
                    pf.push(10);
                }
                if hostile_vault {
                    let k = 3 + rng.below(vl.len() as u64 - 3) as usize;
                    vl[k].push('h');
                }
                let pliq: Vec<u128> = pools.iter().map(|_| liq_of(rng)).collect();
                let vliq: Vec<u128> = vl.iter().map(|_| liq_of(rng)).collect();
                return Some(format!(
                    "init feeflow grace={grace} genesis={genesis} dur={DAY} pools={} vaults={} dist={DIST} nusers={nusers} pf={} vf={} growth={growth} dn={dn} pliq={} vliq={}",
                    pools.join(","),
                    vl.join(","),
                    join(&pf, ","),
                    join(&vfs, ","),
                    join(&pliq, ","),
                    join(&vliq, ",")
                ));
            }
            let pliq: Vec<u128> = (0..3).map(|_| liq_of(rng)).collect();
            let vliq: Vec<u128> = vaults.split(',').map(|_| liq_of(rng)).collect();
            let vaults = if hostile_vault { format!("{vaults}h") } else { vaults.to_string() };
            let pools = if hostile_pool { "0.2,1.2,0.1h" } else { "0.2,1.2,0.1" };
            return Some(format!(
                "init feeflow grace={grace} genesis={genesis} dur={DAY} pools={pools} vaults={vaults} dist={DIST} nusers={nusers} pf={} vf={} growth={growth} dn={dn} pliq={} vliq={}",
                join(&pf, ","),
                join(&vfs, ","),
                join(&pliq, ","),
                join(&vliq, ",")
            ));
        }
        // gen_body yields `<sender> <op> <args…>`; the line is `<op> <height> <time_ns> <sender> <args…>`
        let body = self.gen_body(rng)?;
        self.g.h += 1;
        let mut it = body.splitn(3, ' ');
        let (sender, op, args) = (it.next().unwrap_or(""), it.next().unwrap_or(""), it.next().unwrap_or(""));
        let mut line = format!("{op} {} {} {sender} {args}", self.g.h, self.g.t).trim_end().to_string();
        if let Some(tok) = self.gen_stray(rng, sender, op, args) {
            line.push(' ');
            line.push_str(&tok);
        }
        Some(line)
    }
}

impl Feeflow {
    /// about 1 in 20 of the execute messages that expect no coins carries some: coins of an asset of the world
    /// (often the current distribution asset), of the unrelated denom, or both
    fn gen_stray(&self, rng: &mut Rng, sender: &str, op: &str, args: &str) -> Option<String> {
        let eligible = matches!(
            op,
            "collect" | "aggregate" | "newepoch" | "claim" | "fwd" | "colcfg" | "grace" | "distasset" | "addroute" | "rmroute" | "bond" | "unbond"
        );
        if !eligible || args.contains('+') || !rng.chance(1, 20) {
            return None;
        }
        let w = self.w.as_ref()?;
        let last = &w.last;
        let na = w.assets.len();
        let amount = |rng: &mut Rng| -> u128 {
            match rng.below(8) {
                0 => 1,
                1 => 999,
                2 => 1000,
                3 => 1001,
                4 => 5000,
                5 => rng.log_uniform(24),
                _ => wide_amount(rng).min(BIG / 64),
            }
        };
        let junk = format!("+j:{}", amount(rng));
        if matches!(op, "addroute" | "rmroute") {
            return Some(junk);
        }
        let kind = rng.below(10);
        if kind < 4 {
            return Some(junk);
        }
        // an asset of the world: the current distribution asset, or any
        let a = if rng.chance(2, 5) { last.dist.min(na - 1) } else { rng.below(na as u64) as usize };
        let mut x = amount(rng);
        if let Some(ui) = sender.strip_prefix('u').and_then(|i| i.parse::<usize>().ok()) {
            // a bonder holds only what it claimed: attach part / all of it (1 in 8: more than it holds -> refused)
            let held: Vec<usize> = (0..na).filter(|a| last.uba.get(ui).map(|u| u[*a] > 0).unwrap_or(false)).collect();
            if held.is_empty() {
                return Some(junk);
            }
            let a = if held.contains(&a) { a } else { *rng.pick(&held) };
            let have = last.uba[ui][a];
            x = match rng.below(8) {
                0 => have + 1,
                1 | 2 => have,
                _ => x.min(have),
            };
            return Some(if kind < 9 { format!("+{a}:{x}") } else { format!("+{a}:{x} {junk}") });
        }
        Some(if kind < 9 { format!("+{a}:{x}") } else { format!("+{a}:{x} {junk}") })
    }
}

/// the vaults a flash loan can be taken on (the honest ones), and one of them: 3 times in 4 one with fees pending
fn pick_lender(rng: &mut Rng, w: &World) -> Option<usize> {
    let lenders: Vec<usize> = (0..w.vaults.len()).filter(|i| !w.vault_hostile[*i]).collect();
    if lenders.is_empty() {
        return None;
    }
    let with_fees: Vec<usize> = lenders.iter().copied().filter(|i| w.last.vp[*i] > 0).collect();
    Some(if !with_fees.is_empty() && rng.chance(3, 4) { *rng.pick(&with_fees) } else { *rng.pick(&lenders) })
}

/// `<who> inloan v<k> <amount> <exact|over<n>|short> -- <inner op>`: the loan leaves the vault able to pay its pending
/// fees out in mid-loan (amounts up to balance - pending, relative to the liquidity, tiny), just able, just unable
/// (balance - pending + 1, the whole balance); the borrower repays exactly, generously, or one unit short
fn gen_inloan(rng: &mut Rng, w: &World, who: &str, k: usize, inner: &str) -> String {
    let denom = &w.assets[w.vault_assets[k]];
    let b = bal(&w.app, &w.vaults[k], denom);
    let room = b.saturating_sub(w.last.vp[k]);
    let amount = match rng.below(12) {
        0 => room,
        1 => room.saturating_add(1).min(b),
        2 => b,
        3 => 1,
        4 => rng.range(1, 5000) as u128,
        5 | 6 | 7 => rel_amount(rng, w.vault_liq[k]).min(room),
        _ => rel_amount(rng, room.max(1)).min(room),
    }
    .max(1);
    let spare = bal(&w.app, &w.adv, denom) / 16;
    let mode = match rng.below(10) {
        0 | 1 => "short".to_string(),
        2 => "over1".to_string(),
        3 => format!("over{}", 1 + rng.below(100_000)),
        4 => format!("over{}", wide_amount(rng).min(spare).max(1)),
        _ => "exact".to_string(),
    };
    format!("{who} inloan v{k} {amount} {mode} -- {inner}")
}

/// an ordinary loan on vault `k` that leaves protocol fees pending there (around the thresholds, or free)
fn gen_fee_loan(rng: &mut Rng, w: &World, k: usize) -> String {
    let amt = match rng.below(5) {
        0 => 100_000u128,
        1 => 100_100,
        2 => rng.range(1000, 500_000) as u128,
        _ => rel_amount(rng, w.vault_liq[k]),
    };
    format!("admin loan {k} {amt}")
}

/// `<who> reenter <trig> <plain|catch> <inner op> -- <outer op>`: the trigger fits the outer op (a collection reaches
/// the hostile pair's / vault's CollectProtocolFees, a pipeline run / an aggregation may also reach the pair's Swap)
fn gen_reenter(rng: &mut Rng, w: &World, who: &str, outer: &str) -> Option<String> {
    let hp: Vec<usize> = (0..w.pools.len()).filter(|i| w.pool_hostile[*i]).collect();
    let hv: Vec<usize> = (0..w.vaults.len()).filter(|i| w.vault_hostile[*i]).collect();
    let mut trigs: Vec<String> = vec![];
    let o = outer.split(' ').collect::<Vec<_>>();
    match (o[0], o.get(1).copied()) {
        ("newepoch", _) => {
            trigs.extend(hp.iter().map(|k| format!("p{k}")));
            trigs.extend(hp.iter().map(|k| format!("p{k}")));
            trigs.extend(hv.iter().map(|k| format!("v{k}")));
            trigs.extend(hv.iter().map(|k| format!("v{k}")));
            trigs.extend(hp.iter().map(|k| format!("s{k}")));
        }
        ("collect", Some("pfac")) | ("collect", Some("pool")) => trigs.extend(hp.iter().map(|k| format!("p{k}"))),
        ("collect", Some("vfac")) | ("collect", Some("vault")) => trigs.extend(hv.iter().map(|k| format!("v{k}"))),
        ("aggregate", _) => trigs.extend(hp.iter().map(|k| format!("s{k}"))),
        _ => {}
    }
    if trigs.is_empty() {
        return None;
    }
    let trig = rng.pick(&trigs).clone();
    Some(gen_reenter_with(rng, w, who, outer, &trig))
}

fn gen_reenter_with(rng: &mut Rng, w: &World, who: &str, outer: &str, trig: &str) -> String {
    let mode = if rng.chance(1, 2) { "plain" } else { "catch" };
    let fac = |rng: &mut Rng| if rng.chance(1, 2) { "pfac" } else { "vfac" };
    let inner = match rng.below(16) {
        0..=4 => "newepoch".to_string(),
        5..=7 => "claim".to_string(),
        8 => format!("collect {}", fac(rng)),
        9 => format!("collect {} {}", if rng.chance(1, 2) { "pool" } else { "vault" }, rng.below(w.pools.len().min(w.vaults.len()).max(1) as u64)),
        10 | 11 => format!("aggregate {}", fac(rng)),
        12 => "fwd".to_string(),
        13 => format!("bond {} {}", rng.below(2), 1 + rng.below(1_000_000)),
        14 => format!("unbond {} {}", rng.below(2), 1 + rng.below(1_000)),
        _ => {
            if rng.chance(1, 2) {
                format!("grace {}", rng.range(1, 6))
            } else {
                format!("distasset {}", rng.below(3))
            }
        }
    };
    format!("{who} reenter {trig} {mode} {inner} -- {outer}")
}

/// an amount relative to the liquidity `l` it meets (a pair's reserve, a vault's deposits): a millionth … the
/// whole of it, or a WIDE amount capped at twice the liquidity
fn rel_amount(rng: &mut Rng, l: u128) -> u128 {
    match rng.below(4) {
        0 => l / *rng.pick(&[1_000_000u128, 100_000, 1000, 300, 30, 10, 3, 1]),
        1 => l / 1000 * rng.range(1, 400) as u128,
        2 => wide_amount(rng).min(l.saturating_mul(2)),
        _ => rng.log_uniform(120).min(l / 2),
    }
    .max(1)
}

fn gen_rate(rng: &mut Rng) -> u128 {
    match rng.below(9) {
        0 => 0,
        1 => 1,
        2 => E18 / 1000,
        3 => E18 / 10,
        4 => E18 / 2,
        5 => E18 - 1,
        6 => E18, // rejected
        7 => rng.u128() % E18,
        _ => E18 / 100,
    }
}

impl Feeflow {
    fn gen_body(&mut self, rng: &mut Rng) -> Option<String> {
        if let Some(s) = self.g.setup.pop() {
            self.g.t += 1_000_000_000;
            return Some(s);
        }
        let w = self.w.as_ref()?;
        let last = &w.last;
        let n_epochs = last.eps.len() as u64;
        // the history ends once enough epochs exist (>= final grace + 2) and the rounds are used up
        if self.g.phase == 0 && self.g.left == 0 {
            self.g.phase = 1;
        }
        // the round's NewEpoch was sent from inside a flash-loan callback and created the epoch: 1 time in 2 that was
        // the round's NewEpoch (otherwise the plain one follows at once: a catch-up a day later)
        if self.g.phase == 1 && self.g.inloan_round == self.g.round && n_epochs > self.g.inloan_n && self.g.inloan_n != u64::MAX {
            self.g.inloan_n = u64::MAX;
            if rng.chance(1, 2) {
                self.g.round += 1;
                self.g.left = if self.g.marathon { 1 + rng.below(2) } else { rng.range(3, 10) };
                self.g.phase = 0;
            }
        }
        if self.g.phase == 1 {
            // time for NewEpoch of the next round
            if self.g.round >= self.g.rounds && n_epochs >= last.grace + 2 {
                return None;
            }
            if self.g.round > self.g.rounds + 8 {
                return None; // safety
            }
            // a step that fails only in the LAST (pools) aggregation stage: an asset without a vault,
            // above the aggregation threshold in the collector, routed through a pair whose swaps are
            // disabled (the router's simulation does not look at the switch, the execution does).
            // The whole NewEpoch must then fail and leave everything unchanged.
            if self.g.scen_round != self.g.round && n_epochs >= 1 && rng.chance(1, 5) {
                self.g.scen_round = self.g.round;
                // prefer an asset without a vault (then only the pools stage touches it)
                let novault: Vec<u64> = (0..2u64).filter(|a| !w.vault_assets.contains(&(*a as usize))).collect();
                let a = if novault.is_empty() { rng.below(2) } else { *rng.pick(&novault) };
                // popped from the end: addroute, gift, toggle off, (then newepoch)
                self.g.setup.push(format!("admin toggle {a} 0"));
                self.g.setup.push(format!("admin gift col {a} {}", 1001 + rng.below(100_000)));
                let first = format!("admin addroute {a} direct");
                self.g.t += 1_000_000_000;
                return Some(first);
            }
            // the collector is handed a WIDE amount of the current distribution asset right before NewEpoch: the take
            // rate, the transfer and the new epoch's total are then computed on balances anywhere up to 2^120
            // (around 2^64, 3.4e20, 1e27, 2^100, 2^119)
            if self.g.pre_gift_round != self.g.round && rng.chance(2, 5) {
                self.g.pre_gift_round = self.g.round;
                let a = last.dist.min(w.assets.len() - 1);
                let have = bal(&w.app, &w.admin, &w.assets[a]);
                let x = wide_amount(rng).min(have / 2).max(1);
                return Some(format!("admin gift col {a} {x}"));
            }
            let next_start = if n_epochs == 0 { self.g.genesis } else { last.eps[0].start + DAY };
            // a bond right at / just after the nominal start of the epoch that has not been created yet
            // (0 ns .. 1 s + 1 ns late): the lair must refuse it once the current epoch has expired,
            // otherwise the address counts as bonded before an epoch that started before it bonded
            if n_epochs >= 1 && self.g.bond_edge_round != self.g.round && self.g.t <= next_start && rng.chance(1, 3) {
                self.g.bond_edge_round = self.g.round;
                let delta = *rng.pick(&[0u64, 1, 500_000_000, 999_999_999, 1_000_000_000, 1_000_000_001]);
                self.g.t = next_start + delta;
                let fresh: Vec<u64> = (0..4u64).filter(|i| w.bond_start[*i as usize].is_none()).collect();
                let u = if !fresh.is_empty() && rng.chance(4, 5) { *rng.pick(&fresh) } else { rng.below(4) };
                return Some(format!("u{u} bond {} {}", rng.below(2), 1_000 + rng.below(1_000_000)));
            }
            // early attempt just before the boundary
            if rng.chance(1, 8) && self.g.t < next_start - 1 {
                self.g.t = next_start - 1;
                return Some(format!("u{} newepoch", rng.below(NUSERS as u64)));
            }
            let jitter = *rng.pick(&[0u64, 1, 3_600_000_000_000, 3 * 3_600_000_000_000, 0, 60_000_000_000]);
            let mut t = next_start + jitter;
            if rng.chance(1, 12) {
                t += DAY; // a missed day: the next NewEpoch catches up immediately
            }
            self.g.t = self.g.t.max(t);
            // NewEpoch (due now) with the hostile contract armed: once per round, 1 round in 2 of a hostile world; the
            // round's plain NewEpoch follows (it finds the epoch created, or creates it after a refused attempt)
            if w.agent.is_some() && self.g.reenter_round != self.g.round && rng.chance(1, 2) {
                self.g.reenter_round = self.g.round;
                let who = match rng.below(3) {
                    0 => "admin".to_string(),
                    1 => "stranger".to_string(),
                    _ => format!("u{}", rng.below(NUSERS as u64)),
                };
                if let Some(body) = gen_reenter(rng, w, &who, "newepoch") {
                    // a route through the hostile pair so that its Swap is reached by the aggregation
                    return Some(body);
                }
            }
            // NewEpoch (due now) FROM INSIDE A FLASH-LOAN CALLBACK of a registered vault: once per round, 1 round in 3; the
            // lender mostly has protocol fees pending (2 times in 3 an ordinary loan on it comes first when it has none)
            if self.g.inloan_round != self.g.round && rng.chance(1, 3) {
                if let Some(k) = pick_lender(rng, w) {
                    self.g.inloan_round = self.g.round;
                    self.g.inloan_n = n_epochs;
                    let who = match rng.below(4) {
                        0 => "admin".to_string(),
                        1 => "stranger".to_string(),
                        2 => "trader".to_string(),
                        _ => format!("u{}", rng.below(NUSERS as u64)),
                    };
                    let body = gen_inloan(rng, w, &who, k, "newepoch");
                    if last.vp[k] == 0 && rng.chance(2, 3) {
                        self.g.setup.push(body);
                        return Some(gen_fee_loan(rng, w, k));
                    }
                    return Some(body);
                }
            }
            self.g.round += 1;
            self.g.left = if self.g.marathon { 1 + rng.below(2) } else { rng.range(3, 10) };
            self.g.phase = 0;
            let who = match rng.below(4) {
                0 => "admin".to_string(),
                1 => "stranger".to_string(),
                _ => format!("u{}", rng.below(NUSERS as u64)),
            };
            // now and then an address bonds in the very block that creates the epoch (same nanosecond): it
            // bonded AFTER the epoch started (or exactly at its start) and is not to be paid for an earlier one
            if rng.chance(1, 3) {
                let fresh: Vec<u64> = (0..4u64).filter(|i| w.bond_start[*i as usize].is_none()).collect();
                let u = if !fresh.is_empty() && rng.chance(4, 5) { *rng.pick(&fresh) } else { rng.below(4) };
                self.g.setup.push(format!("u{u} bond {} {}", rng.below(2), 1_000 + rng.below(1_000_000)));
            }
            return Some(format!("{who} newepoch"));
        }
        // the owner switches the distribution asset (scheduled rounds): routes towards the new asset are
        // registered first so that the pipeline keeps aggregating, a stranger tries first now and then
        if let Some(pos) = self.g.switch_rounds.iter().position(|r| *r == n_epochs) {
            self.g.switch_rounds.remove(pos);
            let cur = last.dist;
            let cands: Vec<usize> = (0..ASSETS.len()).filter(|a| *a != cur).collect();
            let x = if rng.chance(1, 10) { cur.min(ASSETS.len() - 1) } else { *rng.pick(&cands) };
            // popped from the end: [stranger distasset,] addroute …, admin distasset
            self.g.setup.push(format!("admin distasset {x}"));
            for a in 0..ASSETS.len() {
                if a != x && rng.chance(3, 4) {
                    let kind = if rng.chance(1, 5) { "twohop" } else { "direct" };
                    self.g.setup.push(format!("admin addroute {a} {kind} {x}"));
                }
            }
            self.g.t += 1_000_000_000;
            if rng.chance(1, 3) {
                return Some(format!("stranger distasset {x}"));
            }
            return self.g.setup.pop();
        }
        self.g.left = self.g.left.saturating_sub(1);
        // ops inside a round: keep within 20h of the nominal start so that bonding stays allowed
        let step = *rng.pick(&[0u64, 1_000_000_000, 60_000_000_000, 1_800_000_000_000, 3_600_000_000_000]);
        let cap = if n_epochs == 0 { self.g.genesis - 2 } else { last.eps[0].start + 20 * 3_600_000_000_000 };
        if self.g.t + step <= cap.max(self.g.t) {
            self.g.t += step;
        }
        // (with the three base pairs / vaults / assets the bounds below are the literal 3 / 2 they replace)
        let (np, nv, na) = (w.pools.len() as u64, w.vaults.len().max(1) as u64, w.assets.len() as u64);
        let non_dist = |rng: &mut Rng| {
            let x = rng.below(na - 1);
            if x >= DIST as u64 { x + 1 } else { x }
        };
        let off: Vec<usize> = (0..np as usize).filter(|i| !last.on[*i]).collect();
        if !off.is_empty() && rng.chance(1, 3) {
            return Some(format!("admin toggle {} 1", rng.pick(&off)));
        }
        // an asset sits in the collector beyond what the pools of its route can take (the aggregation swap then
        // fails on the collector's 50 % spread cap and NewEpoch fails as a whole): sooner or later the owner
        // removes the route
        let depth = |i: usize| -> u128 {
            w.pool_assets.iter().enumerate().filter(|(_, (a, b))| *a == i || *b == i).map(|(k, _)| w.pool_liq[k]).min().unwrap_or(0)
        };
        // (what the next pipeline run will hold of asset i: the collector's balance and everything pending)
        let upcoming = |i: usize| -> u128 {
            let mut x = last.cbal[i];
            for (k, (a, b)) in w.pool_assets.iter().enumerate() {
                if *a == i {
                    x = x.saturating_add(last.pp[k].0);
                }
                if *b == i {
                    x = x.saturating_add(last.pp[k].1);
                }
            }
            for (k, a) in w.vault_assets.iter().enumerate() {
                if *a == i {
                    x = x.saturating_add(last.vp[k]);
                }
            }
            x
        };
        for i in 0..na as usize {
            if i != last.dist && last.rt.get(i).copied().unwrap_or(0) != 0 && upcoming(i) > depth(i) / 3 && rng.chance(1, 2) {
                return Some(format!("admin rmroute {i} direct {}", last.dist));
            }
        }
        if self.many && rng.chance(2, 5) {
            // protocol fees for the pairs / vaults LATE in the factories' listing order (from the 9th
            // entry on; the 11th is the first one beyond a default page), sizes around the thresholds
            let late = |rng: &mut Rng, order: &[usize]| -> usize {
                if order.len() > 8 && rng.chance(3, 4) { *rng.pick(&order[8..]) } else { *rng.pick(order) }
            };
            if rng.chance(3, 5) {
                let pi = late(rng, &w.pool_order);
                let side = rng.below(2) as usize;
                let pend = if side == 0 { last.pp[pi].1 } else { last.pp[pi].0 };
                let amt = match rng.below(5) {
                    0 => rng.range(1, 2000) as u128,
                    1 | 2 | 3 => {
                        let target = *rng.pick(&[999u128, 1000, 1001, 1002, 1500, 5000]);
                        let need = target.saturating_sub(pend).max(1);
                        need * 1000 / *rng.pick(&[1u128, 3, 10, 30])
                    }
                    _ => {
                        if rng.chance(1, 2) {
                            rng.log_uniform(30)
                        } else {
                            rel_amount(rng, w.pool_liq[pi])
                        }
                    }
                };
                return Some(format!("trader swap {pi} {side} {}", amt.max(1)));
            }
            let vi = late(rng, &w.vault_order);
            let amt = match rng.below(5) {
                0 => rng.range(1, 5000) as u128,
                1 => 100_000,
                2 => 100_100,
                3 => rel_amount(rng, w.vault_liq[vi]),
                _ => rng.log_uniform(30),
            };
            return Some(format!("admin loan {vi} {amt}"));
        }
        // a DIRECT COLLECTION WITH COINS ATTACHED while two pairs hold collectable fees in the same asset (once
        // per history, 1 history in 2): two trades leave > 1000 pending of asset 2 in the pairs 0/2 and 1/2, the
        // collector is given some of the asset, then anybody sends CollectFees (factory page / one pair) with
        // coins of that asset and / or the unrelated denom attached
        if !self.g.stray_scen_done && n_epochs >= 1 && np >= 2 && rng.chance(1, 8) {
            self.g.stray_scen_done = true;
            if rng.chance(1, 2) {
                let who = match rng.below(4) {
                    0 => "admin".to_string(),
                    1 => "stranger".to_string(),
                    2 => "trader".to_string(),
                    _ => format!("u{}", rng.below(NUSERS as u64)),
                };
                let x = *rng.pick(&[1u128, 7, 250, 999]);
                let coins = if who.starts_with('u') {
                    format!("+j:{x}")
                } else {
                    match rng.below(4) {
                        0 => format!("+j:{x}"),
                        1 => format!("+2:{x} +j:{}", x + 1),
                        _ => format!("+2:{x}"),
                    }
                };
                let target = match rng.below(4) {
                    0 => "pool 0".to_string(),
                    1 => "pool 1".to_string(),
                    _ => "pfac".to_string(),
                };
                // popped from the end
                self.g.setup.push(format!("{who} collect {target} {coins}"));
                self.g.setup.push(format!("admin gift col 2 {}", 2000 + rng.below(3000)));
                self.g.setup.push(format!("trader swap 1 0 {}", 2_000_000 + rng.below(1_000_000)));
                return Some(format!("trader swap 0 0 {}", 2_000_000 + rng.below(1_000_000)));
            }
        }
        // direct CollectFees / AggregateFees with the hostile contract armed (hostile worlds: about 1 in-round op in 10)
        if w.agent.is_some() && rng.chance(1, 10) {
            let who = match rng.below(4) {
                0 => "admin".to_string(),
                1 => "stranger".to_string(),
                2 => "trader".to_string(),
                _ => format!("u{}", rng.below(NUSERS as u64)),
            };
            let hp: Vec<usize> = (0..w.pools.len()).filter(|i| w.pool_hostile[*i]).collect();
            let hv: Vec<usize> = (0..w.vaults.len()).filter(|i| w.vault_hostile[*i]).collect();
            // a swap through the hostile pair needs a two-hop route over it and something to swap: prepared first
            if !hp.is_empty() && last.dist == DIST && !self.many && rng.chance(1, 3) {
                let a = rng.below(2) as usize; // uatom -> uusdc -> uwhale or uusdc -> uatom -> uwhale
                self.g.setup.push(gen_reenter_with(rng, w, &who, "aggregate pfac", &format!("s{}", hp[0])));
                if last.cbal[a] <= 1000 {
                    self.g.setup.push(format!("admin gift col {a} {}", 1001 + rng.below(100_000)));
                }
                return Some(format!("admin addroute {a} twohop"));
            }
            let outer = if !hv.is_empty() && (hp.is_empty() || rng.chance(1, 2)) {
                match rng.below(3) {
                    0 => format!("collect vault {}", hv[0]),
                    1 => "collect vfac -".to_string(),
                    _ => "collect vfac".to_string(),
                }
            } else {
                match rng.below(4) {
                    0 => format!("collect pool {}", hp[0]),
                    1 => "collect pfac -".to_string(),
                    2 => "aggregate pfac".to_string(),
                    _ => "collect pfac".to_string(),
                }
            };
            if let Some(body) = gen_reenter(rng, w, &who, &outer) {
                return Some(body);
            }
        }
        // a message anybody can send to the collector / distributor, sent FROM INSIDE A FLASH-LOAN CALLBACK of a registered
        // vault (about 1 in-round op in 12): direct collections (the factory page, the lender itself, another vault, the
        // pairs), aggregations, and the messages that must be refused there as anywhere (the whole loan then reverts)
        if rng.chance(1, 12) {
            if let Some(k) = pick_lender(rng, w) {
                let who = match rng.below(4) {
                    0 => "admin".to_string(),
                    1 => "stranger".to_string(),
                    2 => "trader".to_string(),
                    _ => format!("u{}", rng.below(NUSERS as u64)),
                };
                let lim = |rng: &mut Rng| -> String {
                    if self.many && rng.chance(1, 2) { format!(" {}", rng.pick(&["-", "1", "5", "10", "11", "30", "99"])) } else { String::new() }
                };
                let inner = match rng.below(16) {
                    0..=3 => format!("collect vfac{}", lim(rng)),
                    4..=6 => format!("collect vault {k}"),
                    7 => format!("collect vault {}", rng.below(nv)),
                    8 => format!("collect pfac{}", lim(rng)),
                    9 => format!("aggregate vfac{}", lim(rng)),
                    10 => format!("aggregate pfac{}", lim(rng)),
                    11 => "claim".to_string(),
                    12 => "fwd".to_string(),
                    13 => "newepoch".to_string(),
                    14 => format!("grace {}", rng.range(1, 6)),
                    _ => match rng.below(4) {
                        0 => format!("colcfg rate={} dao=1 active=1", gen_rate(rng)),
                        1 => format!("addroute {} direct", non_dist(rng)),
                        2 => format!("rmroute {} direct", non_dist(rng)),
                        _ => format!("distasset {}", rng.below(3)),
                    },
                };
                let body = gen_inloan(rng, w, &who, k, &inner);
                if last.vp[k] == 0 && rng.chance(1, 2) {
                    self.g.setup.push(body);
                    return Some(gen_fee_loan(rng, w, k));
                }
                return Some(body);
            }
        }
        let u = rng.below(4); // u4 never bonds
        let k = rng.below(100);
        let body = if k < 21 {
            // swap: sizes around the pair's collect threshold and free ones
            let pi = rng.below(np) as usize;
            let side = rng.below(2) as usize;
            let pend = if side == 0 { last.pp[pi].1 } else { last.pp[pi].0 };
            let amt = match rng.below(8) {
                0 => rng.range(1, 2000) as u128,
                1 | 2 => {
                    // aim the pending fee at 999 / 1000 / 1001 (price ~ 1, protocol fee = pf permille)
                    let target = *rng.pick(&[999u128, 1000, 1001, 1002]);
                    let need = target.saturating_sub(pend).max(1);
                    need * 1000 / *rng.pick(&[1u128, 3, 10, 30])
                }
                3 => rng.log_uniform(34),
                4 => rng.log_uniform(28),
                _ => rel_amount(rng, w.pool_liq[pi]),
            };
            format!("trader swap {pi} {side} {}", amt.max(1))
        } else if k < 27 {
            // CollectFees / AggregateFees sent to the collector directly by anybody, in mid-history
            let who = match rng.below(4) {
                0 => "admin".to_string(),
                1 => "stranger".to_string(),
                2 => "trader".to_string(),
                _ => format!("u{}", rng.below(NUSERS as u64)),
            };
            // collected fees stay in the collector until the next aggregation: collect first, then aggregate
            let has_bal = (0..na as usize).any(|i| i != DIST && last.cbal[i] > 0);
            // `many`: a page limit on the factory targets (none = 30; `-` = the factory's default)
            let ghost = if self.many { 99 } else { 7 };
            let with_limit = |rng: &mut Rng, t: String| -> String {
                if self.many && (t == "vfac" || t == "pfac") && rng.chance(2, 3) {
                    format!("{t} {}", rng.pick(&["-", "-", "0", "1", "5", "9", "10", "11", "12", "13", "29", "30", "31", "99"]))
                } else {
                    t
                }
            };
            if rng.chance(if has_bal { 1 } else { 2 }, 3) {
                let target = match rng.below(20) {
                    0..=5 => "vfac".to_string(),
                    6..=12 => "pfac".to_string(),
                    13..=15 => format!("pool {}", rng.below(np)),
                    16..=17 => format!("vault {}", rng.below(nv)),
                    18 => "xfac".to_string(),
                    _ => format!("{} {ghost}", if rng.chance(1, 2) { "pool" } else { "vault" }),
                };
                let target = with_limit(rng, target);
                format!("{who} collect {target}")
            } else {
                let target = match rng.below(20) {
                    0..=7 => "vfac".to_string(),
                    8..=16 => "pfac".to_string(),
                    17 => format!("pool {}", rng.below(np)),
                    18 => format!("vault {}", rng.below(nv)),
                    _ => "xfac".to_string(),
                };
                let target = with_limit(rng, target);
                format!("{who} aggregate {target}")
            }
        } else if k < 38 {
            let vi = rng.below(nv);
            let amt = match rng.below(7) {
                0 => rng.range(1, 5000) as u128,
                1 => 100_000,
                2 => 100_100,
                3 => rng.log_uniform(36),
                4 => rng.log_uniform(24),
                _ => rel_amount(rng, w.vault_liq.get(vi as usize).copied().unwrap_or(1)),
            };
            format!("admin loan {vi} {amt}")
        } else if k < 58 {
            // claim: mostly somebody with something claimable
            let cands: Vec<usize> = (0..w.users.len()).filter(|i| !last.cl[*i].is_empty()).collect();
            if !cands.is_empty() && rng.chance(4, 5) {
                format!("u{} claim", rng.pick(&cands))
            } else if rng.chance(1, 6) {
                "stranger claim".to_string()
            } else {
                format!("u{} claim", rng.below(NUSERS as u64))
            }
        } else if k < 69 {
            // `topup`: an address that is already bonded adds a multiple of everything bonded so far. The lair
            // credits the NEW amount for the time since the address's last update but the global index only
            // since its own last update, so the address's share of the next epochs exceeds one: the claim the
            // distributor has to refuse (reward > what is left of the epoch) instead of paying it out of the
            // funds of other epochs (seeded change C09-D, missed by eight unlucky shard seeds)
            let bonded_users: Vec<u64> = (0..4u64).filter(|i| w.bond_start[*i as usize].is_some()).collect();
            let global: u128 = w
                .app
                .wrap()
                .query_wasm_smart::<wl::GlobalIndex>(&w.lair, &wl::QueryMsg::GlobalIndex {})
                .map(|g| g.bonded_amount.u128())
                .unwrap_or(0);
            let (u, amt) = match rng.below(6) {
                0 => (u, rng.range(1, 1000) as u128),
                1 => (u, 1_000_000),
                2 | 3 if !bonded_users.is_empty() && global > 0 && global < 1u128 << 90 => {
                    (*rng.pick(&bonded_users), global.saturating_mul(1 + rng.below(64) as u128))
                }
                _ => (u, rng.log_uniform(40)),
            };
            format!("u{u} bond {} {amt}", rng.below(2))
        } else if k < 75 {
            // mostly a valid part (or all) of what the address has bonded in that denom
            let di = rng.below(2) as usize;
            let bonded_users: Vec<u64> = (0..4u64).filter(|i| w.bond_start[*i as usize].is_some()).collect();
            let u = if !bonded_users.is_empty() && rng.chance(5, 6) { *rng.pick(&bonded_users) } else { u };
            let bonded: u128 = w
                .app
                .wrap()
                .query_wasm_smart::<wl::BondedResponse>(&w.lair, &wl::QueryMsg::Bonded { address: w.users[u as usize].to_string() })
                .map(|b| b.bonded_assets.iter().filter(|a| a.info == nat(BOND_DENOMS[di])).map(|a| a.amount.u128()).sum())
                .unwrap_or(0);
            let amt = match rng.below(6) {
                0 => rng.range(1, 1000) as u128,
                1 => if rng.chance(1, 3) { 0 } else { bonded / 3 },
                2 => if rng.chance(1, 3) { bonded + 1 } else { bonded },
                3 | 4 => bonded,
                _ => bonded / 2,
            };
            format!("u{u} unbond {di} {amt}")
        } else if k < 81 {
            let tgt = if rng.chance(3, 4) { "col" } else { "dist" };
            let ai = rng.below(na);
            let amt = match rng.below(7) {
                0 => 1000u128.saturating_sub(last.cbal[ai as usize]).max(1),
                1 => 1001u128.saturating_sub(last.cbal[ai as usize]).max(1),
                2 => rng.range(1, 999) as u128,
                3 | 4 => rng.log_uniform(32),
                _ => {
                    // the whole range; an asset that the pipeline will swap is kept (9 times in 10) within what the
                    // pools of its route can take, or the aggregation fails on the spread cap
                    let x = wide_amount(rng).min(bal(&w.app, &w.admin, &w.assets[ai as usize]) / 2).max(1);
                    let routed = tgt == "col" && ai as usize != last.dist && last.rt.get(ai as usize).copied().unwrap_or(0) != 0;
                    if routed && !rng.chance(1, 10) {
                        x.min(depth(ai as usize) / 8).max(1)
                    } else {
                        x
                    }
                }
            };
            format!("admin gift {tgt} {ai} {amt}")
        } else if k < 87 {
            let rate = gen_rate(rng);
            let who = if rng.chance(1, 8) { "stranger" } else { "admin" };
            let rate_s = if rng.chance(1, 5) { "-".to_string() } else { rate.to_string() };
            let act = match rng.below(4) {
                0 => "0",
                1 => "-",
                _ => "1",
            };
            format!("{who} colcfg rate={rate_s} dao={} active={act}", (rng.below(3) > 0) as u8)
        } else if k < 90 {
            let g = if rng.chance(3, 4) { (last.grace + rng.range(0, 2)).min(5) } else { *rng.pick(&[0u64, 31, 100, last.grace - 1, 1]) };
            let who = if rng.chance(1, 8) { "stranger" } else { "admin" };
            format!("{who} grace {g}")
        } else if k < 93 {
            let who = match rng.below(3) {
                0 => "admin".to_string(),
                1 => "stranger".to_string(),
                _ => format!("u{}", rng.below(NUSERS as u64)),
            };
            format!("{who} fwd")
        } else if k < 96 {
            let kind = if rng.chance(1, 3) { "twohop" } else { "direct" };
            let who = if rng.chance(1, 10) { "stranger" } else { "admin" };
            if last.dist != DIST && rng.chance(3, 4) {
                // towards the distribution asset the owner switched to
                format!("{who} addroute {} {kind} {}", rng.below(na), last.dist)
            } else if rng.chance(1, 12) {
                // an unscheduled switch (or an attempt by somebody else), any asset of the world
                let who = if rng.chance(1, 3) { "stranger" } else { "admin" };
                format!("{who} distasset {}", rng.below(na.min(4)))
            } else {
                format!("{who} addroute {} {kind}", non_dist(rng))
            }
        } else if k < 97 {
            if last.dist != DIST && rng.chance(1, 2) {
                format!("admin rmroute {} direct {}", rng.below(na), last.dist)
            } else {
                format!("admin rmroute {} direct", non_dist(rng))
            }
        } else if k < 99 {
            format!("admin toggle {} {}", rng.below(np), rng.below(2))
        } else {
            format!("admin unreg {}", rng.below(np))
        };
        Some(body)
    }
}
