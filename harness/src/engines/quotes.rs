//! Engine `quotes` (C14, router + constant-product pair part): the real pool factory, four
//! constant-product pairs over native and cw20 assets and the pool router in cw-multi-test.
//!
//! Every `swap` op is a snapshot -> `Simulation` query -> executed swap triple on one state;
//! every `route` op is a `SimulateSwapOperations` -> `ExecuteSwapOperations` (to a fresh receiver)
//! triple.  The monitors compare the quoted amounts with what the execution transferred / recorded
//! (response attributes *and* balance / ledger deltas), independently of the Lean model.
//!
//! Line protocol
//!   init quotes kinds=n,n,c,c p0=<a0>,<a1>,<prot>,<swap>,<burn>,<bal0>,<bal1> p1=… p2=… p3=…
//!   swap <pair> <offerAsset> <amount> <ms>             ms = none | <Decimal atomics>; sender `trader`
//!   route <amount> <ms> <o1>:<a1> [<o2>:<a2> [<o3>:<a3>]]   sender `trader`, fresh receiver
//!   donate <pair> <asset> <amount>                     plain transfer to the pair
//!   fund <asset> <amount>                              plain transfer to the router
//!   collect <pair>                                     CollectProtocolFees (anyone)
//!   replace <pair> <b0> <b1>                           factory owner: RemovePair + CreatePair for the same assets, seeded with b0, b1
//! Observation: `ok|err|panic [sim=… ex=… recv=…] p<i>=bal0,bal1,pend0,pend1,all0,all1,burn0,burn1 … r=b0,b1,b2,b3`
use crate::common::*;
use crate::engines::swapmath::pool_fee;
use cosmwasm_std::{coins, to_json_binary, Addr, Coin, Decimal, Uint128};
use cw20::{Cw20ExecuteMsg, Cw20QueryMsg};
use cw_multi_test::{App, AppBuilder, AppResponse, BankKeeper, BankSudo, ContractWrapper, Executor, SudoMsg};
use white_whale_std::pool_network::asset::{Asset, AssetInfo, PairInfo, PairType};
use white_whale_std::pool_network::{factory as f, pair as p, router as r};

const E18: u128 = 1_000_000_000_000_000_000;
const NA: usize = 4;
/// generator cap on a single amount: keeps Σ minted per asset far below 2^128 (cw20 total supply)
const AMT_CAP: u128 = 1u128 << 118;

struct PairW {
    addr: Addr,
    a: [usize; 2],
    fees: (u128, u128, u128),
}

struct World {
    app: App,
    fac: Addr,
    router: Addr,
    pairs: Vec<PairW>,
    kinds: Vec<bool>, // true = native
    tokens: Vec<Option<Addr>>,
    minter: Addr,
    nrecv: u64,
}

/// names of the four assets when they are native coins, per world (`dn=<k>` on the init line; seed C14-N: a
/// handler that treats token-factory denoms specially was invisible with plain lower-case denoms). The model
/// never looks at names: every set must behave like set 0.
const DENOM_SETS: [[&str; NA]; 5] = [
    ["uluna", "uusd", "uwhale", "uatom"],
    ["factory/migaloo1creator/uluna", "uusd", "ibc/27394FB092D2ECCD56123C74F36E4C1F926001CEADA9CA97EA622B25F41E5EB2", "uatom"],
    ["uluna", "factory/migaloo1creator/ulp", "uwhale", "factory/migaloo1creator/Ulp"],
    ["uusdc", "uusd", "factory/migaloo1creator/uusd", "uusdcx"],
    ["ibc/B3504E092456BA618CC28AC671A71FB08C6CA0FD0BE7C8A5B5A3E2DD933CC9E4", "factory/migaloo1other/uwhale", "uwhale", "factory/migaloo1creator/uwhale"],
];
thread_local! { static DN: std::cell::Cell<usize> = const { std::cell::Cell::new(0) }; }
fn dnm(a: usize) -> &'static str {
    DENOM_SETS[DN.with(|d| d.get()) % DENOM_SETS.len()][a]
}

impl World {
    fn info(&self, a: usize) -> AssetInfo {
        if self.kinds[a] {
            AssetInfo::NativeToken { denom: dnm(a).into() }
        } else {
            AssetInfo::Token { contract_addr: self.tokens[a].as_ref().unwrap().to_string() }
        }
    }
    fn bal(&self, who: &Addr, a: usize) -> u128 {
        if self.kinds[a] {
            self.app.wrap().query_balance(who, dnm(a)).unwrap().amount.u128()
        } else {
            let b: cw20::BalanceResponse = self
                .app
                .wrap()
                .query_wasm_smart(self.tokens[a].as_ref().unwrap(), &Cw20QueryMsg::Balance { address: who.to_string() })
                .unwrap();
            b.balance.u128()
        }
    }
    fn mint(&mut self, to: &Addr, a: usize, amt: u128) {
        if amt == 0 {
            return;
        }
        if self.kinds[a] {
            self.app
                .sudo(SudoMsg::Bank(BankSudo::Mint { to_address: to.to_string(), amount: coins(amt, dnm(a)) }))
                .unwrap();
        } else {
            let t = self.tokens[a].clone().unwrap();
            self.app
                .execute_contract(self.minter.clone(), t, &Cw20ExecuteMsg::Mint { recipient: to.to_string(), amount: amt.into() }, &[])
                .unwrap();
        }
    }
    /// plain transfer of an asset (bank send / cw20 transfer)
    fn transfer(&mut self, from: &Addr, to: &Addr, a: usize, amt: u128) -> Outcome<AppResponse> {
        let (kinds, tokens) = (self.kinds.clone(), self.tokens.clone());
        let app = &mut self.app;
        guarded(|| {
            if kinds[a] {
                app.send_tokens(from.clone(), to.clone(), &coins(amt, dnm(a)))
            } else {
                app.execute_contract(
                    from.clone(),
                    tokens[a].clone().unwrap(),
                    &Cw20ExecuteMsg::Transfer { recipient: to.to_string(), amount: amt.into() },
                    &[],
                )
            }
        })
    }
    fn fees_of(&self, pair: &Addr, q: &p::QueryMsg, a: [usize; 2]) -> [u128; 2] {
        let resp: p::ProtocolFeesResponse = self.app.wrap().query_wasm_smart(pair, q).unwrap();
        let mut out = [0u128; 2];
        for (k, ai) in a.iter().enumerate() {
            let info = self.info(*ai);
            out[k] = resp.fees.iter().find(|x| x.info == info).map(|x| x.amount.u128()).unwrap_or(0);
        }
        out
    }
    fn pair_state(&self, i: usize) -> [u128; 8] {
        let pw = &self.pairs[i];
        let pend = self.fees_of(&pw.addr, &p::QueryMsg::ProtocolFees { asset_id: None, all_time: Some(false) }, pw.a);
        let all = self.fees_of(&pw.addr, &p::QueryMsg::ProtocolFees { asset_id: None, all_time: Some(true) }, pw.a);
        let burn = self.fees_of(&pw.addr, &p::QueryMsg::BurnedFees { asset_id: None }, pw.a);
        [self.bal(&pw.addr, pw.a[0]), self.bal(&pw.addr, pw.a[1]), pend[0], pend[1], all[0], all[1], burn[0], burn[1]]
    }
    fn router_bals(&self) -> [u128; NA] {
        let mut o = [0u128; NA];
        for (a, x) in o.iter_mut().enumerate() {
            *x = self.bal(&self.router, a);
        }
        o
    }
    fn show_state(&self) -> String {
        let mut s = String::new();
        for i in 0..self.pairs.len() {
            let st = self.pair_state(i);
            s.push_str(&format!("p{}={} ", i, st.iter().map(|x| x.to_string()).collect::<Vec<_>>().join(",")));
        }
        let rb = self.router_bals();
        s.push_str(&format!("r={}", rb.iter().map(|x| x.to_string()).collect::<Vec<_>>().join(",")));
        s
    }
    /// the pair the factory registered for an unordered asset pair (harness-side knowledge of the wiring)
    fn pair_of(&self, x: usize, y: usize) -> Option<usize> {
        self.pairs.iter().position(|pw| (pw.a[0] == x && pw.a[1] == y) || (pw.a[0] == y && pw.a[1] == x))
    }
    fn fresh(&mut self) -> Addr {
        self.nrecv += 1;
        Addr::unchecked(format!("recv{}", self.nrecv))
    }
}

struct PairSpec {
    a: [usize; 2],
    fees: (u128, u128, u128),
    bal: [u128; 2],
}

fn build(kinds: Vec<bool>, specs: &[PairSpec]) -> Result<World, String> {
    let admin = Addr::unchecked("admin");
    let minter = Addr::unchecked("minter");
    let mut app: App = AppBuilder::new().with_bank(BankKeeper::new()).build(|router, _api, storage| {
        let c: Vec<Coin> = (0..NA).map(dnm).map(|d| Coin { denom: d.to_string(), amount: Uint128::new(10) }).collect();
        let mut c = c;
        c.sort_by(|x, y| x.denom.cmp(&y.denom));
        router.bank.init_balance(storage, &Addr::unchecked("admin"), c).unwrap();
    });
    let pair_id = app.store_code(Box::new(
        ContractWrapper::new(terraswap_pair::contract::execute, terraswap_pair::contract::instantiate, terraswap_pair::contract::query)
            .with_reply(terraswap_pair::contract::reply),
    ));
    let token_id = app.store_code(Box::new(ContractWrapper::new(
        terraswap_token::contract::execute,
        terraswap_token::contract::instantiate,
        terraswap_token::contract::query,
    )));
    let fac_id = app.store_code(Box::new(
        ContractWrapper::new(
            terraswap_factory::contract::execute,
            terraswap_factory::contract::instantiate,
            terraswap_factory::contract::query,
        )
        .with_reply(terraswap_factory::contract::reply),
    ));
    let router_id = app.store_code(Box::new(ContractWrapper::new(
        terraswap_router::contract::execute,
        terraswap_router::contract::instantiate,
        terraswap_router::contract::query,
    )));
    let fac = app
        .instantiate_contract(
            fac_id,
            admin.clone(),
            &f::InstantiateMsg { pair_code_id: pair_id, trio_code_id: pair_id, token_code_id: token_id, fee_collector_addr: "collector".into() },
            &[],
            "fac",
            None,
        )
        .map_err(es)?;
    let mut tokens: Vec<Option<Addr>> = vec![None; NA];
    for a in 0..NA {
        if kinds[a] {
            app.execute_contract(
                admin.clone(),
                fac.clone(),
                &f::ExecuteMsg::AddNativeTokenDecimals { denom: dnm(a).into(), decimals: 6 },
                &coins(1, dnm(a)),
            )
            .map_err(es)?;
        } else {
            let t = app
                .instantiate_contract(
                    token_id,
                    admin.clone(),
                    &white_whale_std::pool_network::token::InstantiateMsg {
                        name: format!("token{a}"),
                        symbol: format!("TOK{}", ["A", "B", "C", "D"][a]),
                        decimals: 6,
                        initial_balances: vec![],
                        mint: Some(cw20::MinterResponse { minter: minter.to_string(), cap: None }),
                    },
                    &[],
                    format!("token{a}"),
                    None,
                )
                .map_err(es)?;
            tokens[a] = Some(t);
        }
    }
    let router = app
        .instantiate_contract(router_id, admin.clone(), &r::InstantiateMsg { terraswap_factory: fac.to_string() }, &[], "router", None)
        .map_err(es)?;
    let mut w = World { app, fac: fac.clone(), router, pairs: vec![], kinds, tokens, minter, nrecv: 0 };
    for s in specs {
        let infos = [w.info(s.a[0]), w.info(s.a[1])];
        w.app
            .execute_contract(
                admin.clone(),
                fac.clone(),
                &f::ExecuteMsg::CreatePair {
                    asset_infos: infos.clone(),
                    pool_fees: pool_fee(s.fees.0, s.fees.1, s.fees.2),
                    pair_type: PairType::ConstantProduct,
                    token_factory_lp: false,
                },
                &[],
            )
            .map_err(es)?;
        let pi: PairInfo = w.app.wrap().query_wasm_smart(&fac, &f::QueryMsg::Pair { asset_infos: infos.clone() }).map_err(|x| format!("{x}"))?;
        let pair = Addr::unchecked(pi.contract_addr);
        // initial liquidity = the requested reserves
        let lp = Addr::unchecked("lprovider");
        let mut funds: Vec<Coin> = vec![];
        for k in 0..2 {
            w.mint(&lp, s.a[k], s.bal[k]);
            if w.kinds[s.a[k]] {
                funds.push(Coin { denom: dnm(s.a[k]).into(), amount: s.bal[k].into() });
            } else {
                let t = w.tokens[s.a[k]].clone().unwrap();
                w.app
                    .execute_contract(
                        lp.clone(),
                        t,
                        &Cw20ExecuteMsg::IncreaseAllowance { spender: pair.to_string(), amount: s.bal[k].into(), expires: None },
                        &[],
                    )
                    .map_err(es)?;
            }
        }
        funds.sort_by(|x, y| x.denom.cmp(&y.denom));
        w.app
            .execute_contract(
                lp.clone(),
                pair.clone(),
                &p::ExecuteMsg::ProvideLiquidity {
                    assets: [Asset { info: infos[0].clone(), amount: s.bal[0].into() }, Asset { info: infos[1].clone(), amount: s.bal[1].into() }],
                    slippage_tolerance: None,
                    receiver: None,
                },
                &funds,
            )
            .map_err(es)?;
        w.pairs.push(PairW { addr: pair, a: s.a, fees: s.fees });
    }
    Ok(w)
}

fn es<E: std::fmt::Display>(x: E) -> String {
    format!("{x:#}")
}

fn parse_ms(s: &str) -> Option<Option<u128>> {
    if s == "none" {
        Some(None)
    } else {
        s.parse::<u128>().ok().map(Some)
    }
}

fn dec(ms: Option<u128>) -> Option<Decimal> {
    ms.map(Decimal::raw)
}

fn status<T>(o: &Outcome<T>) -> &'static str {
    match o {
        Outcome::Ok(_) => "ok",
        Outcome::Err(_) => "err",
        Outcome::Panic => "panic",
    }
}

/// the five amounts of the pair's `swap` response attributes (events of `pair`)
fn swap_attrs(res: &AppResponse, pair: &Addr) -> Vec<[u128; 5]> {
    let mut out = vec![];
    for ev in res.events.iter().filter(|e| e.ty == "wasm") {
        let get = |k: &str| ev.attributes.iter().find(|a| a.key == k).map(|a| a.value.clone());
        if get("_contract_addr").as_deref() != Some(pair.as_str()) || get("action").as_deref() != Some("swap") {
            continue;
        }
        let n = |k: &str| get(k).and_then(|v| v.parse::<u128>().ok()).unwrap_or(u128::MAX);
        out.push([n("return_amount"), n("spread_amount"), n("swap_fee_amount"), n("protocol_fee_amount"), n("burn_fee_amount")]);
    }
    out
}

fn join5(x: &[u128; 5]) -> String {
    x.iter().map(|v| v.to_string()).collect::<Vec<_>>().join(",")
}

#[derive(Default)]
pub struct Quotes {
    variant: String,
    w: Option<World>,
    cases_started: u64,
    len: u64,
    known_case: bool,
    known_recorded: u64,
}

impl Quotes {
    pub fn new(variant: &str) -> Self {
        Quotes { variant: variant.into(), ..Default::default() }
    }

    fn do_init(&mut self, ws: &[&str]) -> String {
        let mut kinds = vec![true, true, false, false];
        let mut specs: Vec<(usize, PairSpec)> = vec![];
        DN.with(|c| c.set(0));
        for t in &ws[2..] {
            let (k, v) = match t.split_once('=') {
                Some(kv) => kv,
                None => return "bad-op".into(),
            };
            if k == "dn" {
                match v.parse::<usize>() {
                    Ok(d) => DN.with(|c| c.set(d)),
                    Err(_) => return "bad-op".into(),
                }
            } else if k == "kinds" {
                let ks: Vec<&str> = v.split(',').collect();
                if ks.len() != NA || ks.iter().any(|x| *x != "n" && *x != "c") {
                    return "bad-op".into();
                }
                kinds = ks.iter().map(|x| *x == "n").collect();
            } else if let Some(idx) = k.strip_prefix('p').and_then(|x| x.parse::<usize>().ok()) {
                let xs: Vec<&str> = v.split(',').collect();
                let n = match parse_u128s(&xs) {
                    Some(n) if n.len() == 7 => n,
                    _ => return "bad-op".into(),
                };
                if n[0] >= NA as u128 || n[1] >= NA as u128 || n[0] == n[1] {
                    return "bad-op".into();
                }
                specs.push((idx, PairSpec { a: [n[0] as usize, n[1] as usize], fees: (n[2], n[3], n[4]), bal: [n[5], n[6]] }));
            } else {
                return "bad-op".into();
            }
        }
        specs.sort_by_key(|x| x.0);
        if specs.iter().enumerate().any(|(i, s)| s.0 != i) {
            return "bad-op".into();
        }
        let specs: Vec<PairSpec> = specs.into_iter().map(|x| x.1).collect();
        match build(kinds, &specs) {
            Ok(w) => {
                let s = w.show_state();
                self.w = Some(w);
                format!("ok {s}")
            }
            Err(e) => {
                eprintln!("quotes: world setup failed: {e}");
                std::process::exit(3)
            }
        }
    }

    fn do_swap(&mut self, ws: &[&str], mon: &mut Monitor) -> String {
        let w = self.w.as_mut().unwrap();
        let (pi, oa, amt, ms) = match (ws[0].parse::<usize>(), ws[1].parse::<usize>(), ws[2].parse::<u128>(), parse_ms(ws[3])) {
            (Ok(a), Ok(b), Ok(c), Some(d)) if a < w.pairs.len() && b < NA => (a, b, c, d),
            _ => return "bad-op".into(),
        };
        let pair = w.pairs[pi].addr.clone();
        let pa = w.pairs[pi].a;
        let trader = Addr::unchecked("trader");
        let to = w.fresh();
        let info = w.info(oa);
        // ---- quote
        let sim: Outcome<p::SimulationResponse> = {
            let app = &w.app;
            guarded(|| app.wrap().query_wasm_smart(&pair, &p::QueryMsg::Simulation { offer_asset: Asset { info: info.clone(), amount: amt.into() } }))
        };
        let sim5 = match &sim {
            Outcome::Ok(s) => Some([
                s.return_amount.u128(),
                s.spread_amount.u128(),
                s.swap_fee_amount.u128(),
                s.protocol_fee_amount.u128(),
                s.burn_fee_amount.u128(),
            ]),
            _ => None,
        };
        // ---- execute the same offer on the same state
        let before = w.pair_state(pi);
        // ---- C14, observation point `ReverseSimulation`: the query answers what the pair's own reverse
        // formula gives on the REPORTED reserves and the stored fees (the formula itself is no listed property's
        // subject; the plumbing around it is)
        if pa.contains(&oa) {
            let (io, ia) = if pa[0] == oa { (0usize, 1usize) } else { (1usize, 0usize) };
            let (ro, ra) = (before[io].saturating_sub(before[2 + io]), before[ia].saturating_sub(before[2 + ia]));
            let want = (ra / (3 + (amt % 5))).max(1);
            let ask_info = w.info(pa[ia]);
            let fees = w.pairs[pi].fees;
            let app = &w.app;
            let q: Outcome<p::ReverseSimulationResponse> =
                guarded(|| app.wrap().query_wasm_smart(&pair, &p::QueryMsg::ReverseSimulation { ask_asset: Asset { info: ask_info.clone(), amount: want.into() } }));
            let hook = guarded(|| {
                terraswap_pair::verif_hooks::compute_offer_amount(ro.into(), ra.into(), want.into(), pool_fee(fees.0, fees.1, fees.2)).map_err(|e| e.to_string())
            });
            let same = match (&q, &hook) {
                (Outcome::Ok(x), Outcome::Ok(y)) => {
                    mon.stat("reverse_simulation_answered");
                    x.offer_amount == y.offer_amount
                        && x.spread_amount == y.spread_amount
                        && x.swap_fee_amount == y.swap_fee_amount
                        && x.protocol_fee_amount == y.protocol_fee_amount
                        && x.burn_fee_amount == y.burn_fee_amount
                }
                (Outcome::Ok(_), _) | (_, Outcome::Ok(_)) => false,
                _ => {
                    mon.stat("reverse_simulation_refused");
                    true
                }
            };
            mon.check("C14", "pair_reverse_simulation_on_reported_reserves", same, || {
                format!("pair {pi}: ReverseSimulation ask {want} of asset {}: query {:?}, the pair's formula on reported reserves ({ro},{ra}) {:?}", pa[ia], q.as_ok().map(|x| x.offer_amount), hook.as_ok().map(|x| x.offer_amount))
            });
        }
        w.mint(&trader, oa, amt);
        let native = w.kinds[oa];
        let token = w.tokens[oa].clone();
        let exec = {
            let app = &mut w.app;
            guarded(|| {
                if native {
                    app.execute_contract(
                        trader.clone(),
                        pair.clone(),
                        &p::ExecuteMsg::Swap {
                            offer_asset: Asset { info: info.clone(), amount: amt.into() },
                            belief_price: None,
                            max_spread: dec(ms),
                            to: Some(to.to_string()),
                        },
                        &coins(amt, dnm(oa)),
                    )
                } else {
                    app.execute_contract(
                        trader.clone(),
                        token.clone().unwrap(),
                        &Cw20ExecuteMsg::Send {
                            contract: pair.to_string(),
                            amount: amt.into(),
                            msg: to_json_binary(&p::Cw20HookMsg::Swap { belief_price: None, max_spread: dec(ms), to: Some(to.to_string()) }).unwrap(),
                        },
                        &[],
                    )
                }
            })
        };
        let after = w.pair_state(pi);
        // ---- C02 on a pool WITH A HISTORY: the quote's proceeds + fees are the constant-product gross
        // output on the REPORTED reserves (balance − pending protocol fees), whatever swaps, donations and
        // collections came before
        if let (Some(s5), true) = (&sim5, pa.contains(&oa)) {
            let (io, ia) = if pa[0] == oa { (0usize, 1usize) } else { (1usize, 0usize) };
            let (ro, ra) = (before[io].saturating_sub(before[2 + io]), before[ia].saturating_sub(before[2 + ia]));
            if ro + amt > 0 {
                let gross = cosmwasm_std::Uint256::from(ra) * cosmwasm_std::Uint256::from(amt) / cosmwasm_std::Uint256::from(ro).checked_add(cosmwasm_std::Uint256::from(amt)).unwrap();
                let parts = cosmwasm_std::Uint256::from(s5[0]) + cosmwasm_std::Uint256::from(s5[2]) + cosmwasm_std::Uint256::from(s5[3]) + cosmwasm_std::Uint256::from(s5[4]);
                mon.check("C02", "simulation_gross_identity_on_reported_reserves", parts == gross, || {
                    format!("pair {pi} offer asset {oa} amount {amt}: quote {s5:?} sums to {parts}, reported reserves ({ro},{ra}) give gross {gross}")
                });
            }
        }
        let simtxt = match (&sim, &sim5) {
            (_, Some(x)) => format!("ok:{}", join5(x)),
            (Outcome::Panic, _) => "panic".into(),
            _ => "err".into(),
        };
        let kind = if native { "native_offer" } else { "cw20_offer" };
        let mut extxt = status(&exec).to_string();
        let mut recv = 0u128;
        if let Outcome::Ok(res) = &exec {
            let attrs = swap_attrs(res, &pair);
            // the offer asset is one of the pair's (otherwise the swap would have failed)
            let (io, ia) = if pa[0] == oa { (0usize, 1usize) } else { (1usize, 0usize) };
            recv = w.bal(&to, pa[ia]);
            let ex5 = attrs.first().cloned().unwrap_or([u128::MAX; 5]);
            extxt = format!("ok:{}", join5(&ex5));
            let desc = || {
                format!(
                    "pair {pi} offer asset {oa} amount {amt}: Simulation={simtxt} executed attrs={} received={recv} state before={before:?} after={after:?}",
                    join5(&ex5)
                )
            };
            // C14 clause 1: the five quoted amounts are the executed ones
            mon.check_tag("C14", "pair_sim_eq_exec", kind, attrs.len() == 1 && sim5 == Some(ex5), desc);
            // … and the executed ones are what was transferred and recorded (deltas, not attributes)
            let transferred_ok = sim5.map_or(false, |s| {
                recv == s[0]
                    && after[2 + ia] == before[2 + ia] + s[3]
                    && after[4 + ia] == before[4 + ia] + s[3]
                    && after[6 + ia] == before[6 + ia] + s[4]
                    && after[ia] + s[0] + s[4] == before[ia]
                    && after[io] == before[io] + amt
                    && after[2 + io] == before[2 + io]
                    && after[4 + io] == before[4 + io]
                    && after[6 + io] == before[6 + io]
            });
            mon.check_tag("C14", "pair_sim_eq_transferred", kind, transferred_ok, desc);
            mon.stat(&format!("swap_ok_{kind}"));
            if before[2] > 0 || before[3] > 0 {
                mon.stat("swap_ok_with_pending_fees");
            }
            if let Some(s) = sim5 {
                if s[0] > 0 {
                    mon.stat("swap_ok_nonzero_return");
                }
                if s[3] > 0 {
                    mon.stat("swap_ok_nonzero_protocol_fee");
                }
                if s[4] > 0 {
                    mon.stat("swap_ok_nonzero_burn_fee");
                }
            }
        } else {
            mon.stat(&format!("swap_{}_sim_{}", status(&exec), status(&sim)));
            // a failed swap leaves everything as it was
            mon.check("C14", "failed_swap_unchanged", before == after, || format!("pair {pi}: {before:?} -> {after:?}"));
        }
        mon.stat(&format!("swap_offer_mag_{}", mag_bucket(amt)));
        format!("{} sim={} ex={} recv={} {}", status(&exec), simtxt, extxt, recv, w.show_state())
    }

    fn do_route(&mut self, ws: &[&str], mon: &mut Monitor) -> String {
        let w = self.w.as_mut().unwrap();
        let (amt, ms) = match (ws[0].parse::<u128>(), parse_ms(ws[1])) {
            (Ok(a), Some(m)) => (a, m),
            _ => return "bad-op".into(),
        };
        let mut hops: Vec<(usize, usize)> = vec![];
        for t in &ws[2..] {
            match t.split_once(':').map(|(x, y)| (x.parse::<usize>(), y.parse::<usize>())) {
                Some((Ok(x), Ok(y))) if x < NA && y < NA => hops.push((x, y)),
                _ => return "bad-op".into(),
            }
        }
        if hops.is_empty() || hops.len() > 8 {
            return "bad-op".into();
        }
        let ops: Vec<r::SwapOperation> =
            hops.iter().map(|(x, y)| r::SwapOperation::TerraSwap { offer_asset_info: w.info(*x), ask_asset_info: w.info(*y) }).collect();
        // classification of the case (for the known-finding signature)
        let ids: Vec<Option<usize>> = hops.iter().map(|(x, y)| w.pair_of(*x, *y)).collect();
        let mut revisits = false;
        for i in 0..ids.len() {
            for j in 0..i {
                if ids[i].is_some() && ids[i] == ids[j] {
                    revisits = true;
                }
            }
        }
        let rb = w.router_bals();
        let prefunded = hops.iter().any(|(x, _)| rb[*x] > 0);
        let tag = if revisits {
            "revisits_pair"
        } else if prefunded {
            "router_prefunded"
        } else {
            "distinct_pairs"
        };
        let router = w.router.clone();
        let trader = Addr::unchecked("trader");
        let to = w.fresh();
        let sim: Outcome<r::SimulateSwapOperationsResponse> = {
            let app = &w.app;
            guarded(|| app.wrap().query_wasm_smart(&router, &r::QueryMsg::SimulateSwapOperations { offer_amount: amt.into(), operations: ops.clone() }))
        };
        let first = hops[0].0;
        let target = hops[hops.len() - 1].1;
        w.mint(&trader, first, amt);
        let native = w.kinds[first];
        let token = w.tokens[first].clone();
        let states_before: Vec<[u128; 8]> = (0..w.pairs.len()).map(|i| w.pair_state(i)).collect();
        let exec = {
            let app = &mut w.app;
            guarded(|| {
                if native {
                    app.execute_contract(
                        trader.clone(),
                        router.clone(),
                        &r::ExecuteMsg::ExecuteSwapOperations { operations: ops.clone(), minimum_receive: None, to: Some(to.to_string()), max_spread: dec(ms) },
                        &coins(amt, dnm(first)),
                    )
                } else {
                    app.execute_contract(
                        trader.clone(),
                        token.clone().unwrap(),
                        &Cw20ExecuteMsg::Send {
                            contract: router.to_string(),
                            amount: amt.into(),
                            msg: to_json_binary(&r::Cw20HookMsg::ExecuteSwapOperations {
                                operations: ops.clone(),
                                minimum_receive: None,
                                to: Some(to.to_string()),
                                max_spread: dec(ms),
                            })
                            .unwrap(),
                        },
                        &[],
                    )
                }
            })
        };
        let simtxt = match &sim {
            Outcome::Ok(s) => format!("ok:{}", s.amount),
            Outcome::Err(_) => "err".into(),
            Outcome::Panic => "panic".into(),
        };
        let mut recv = 0u128;
        let kind = if native { "native" } else { "cw20" };
        if let Outcome::Ok(_) = &exec {
            recv = w.bal(&to, target);
            let simv = match &sim {
                Outcome::Ok(s) => Some(s.amount.u128()),
                _ => None,
            };
            // C14 clause 2: the simulated amount is what the receiver got.
            // Failures of the two documented classes are recorded a bounded number of times per
            // process (all are counted in the stats), so that they can never crowd a failure of
            // another class out of the monitor's bounded failure list.
            let ok = simv == Some(recv);
            let documented = tag != "distinct_pairs";
            if !ok && documented {
                self.known_recorded += 1;
            }
            if !ok && documented && self.known_recorded > 12 {
                *mon.checks.entry("C14:route_sim_eq_exec".into()).or_insert(0) += 1;
            } else {
                mon.check_tag("C14", "route_sim_eq_exec", tag, ok, || {
                    format!("route {:?} (pairs {:?}) offer {amt}: SimulateSwapOperations={simtxt} receiver got {recv}; router held {:?}", hops, ids, rb)
                });
            }
            mon.stat(&format!("route_ok_{}hops_{tag}_{kind}", hops.len()));
            if recv > 0 {
                mon.stat("route_ok_nonzero_received");
            }
            if simv != Some(recv) {
                mon.stat(&format!("route_sim_ne_exec_{tag}"));
            }
        } else {
            mon.stat(&format!("route_{}_{}hops_sim_{}", status(&exec), hops.len(), status(&sim)));
            let states_after: Vec<[u128; 8]> = (0..w.pairs.len()).map(|i| w.pair_state(i)).collect();
            mon.check("C14", "failed_route_unchanged", states_before == states_after && rb == w.router_bals(), || {
                format!("route {:?}: {states_before:?} -> {states_after:?}", hops)
            });
        }
        format!("{} sim={} recv={} {}", status(&exec), simtxt, recv, w.show_state())
    }

    fn do_transfer(&mut self, to_pair: Option<&str>, asset: &str, amt: &str) -> String {
        let w = self.w.as_mut().unwrap();
        let (a, amt) = match (asset.parse::<usize>(), amt.parse::<u128>()) {
            (Ok(a), Ok(x)) if a < NA => (a, x),
            _ => return "bad-op".into(),
        };
        let dest = match to_pair {
            Some(pi) => match pi.parse::<usize>() {
                Ok(i) if i < w.pairs.len() => w.pairs[i].addr.clone(),
                _ => return "bad-op".into(),
            },
            None => w.router.clone(),
        };
        let donor = Addr::unchecked("donor");
        w.mint(&donor, a, amt);
        let out = w.transfer(&donor, &dest, a, amt);
        format!("{} {}", status(&out), w.show_state())
    }

    fn do_collect(&mut self, pi: &str) -> String {
        let w = self.w.as_mut().unwrap();
        let i = match pi.parse::<usize>() {
            Ok(i) if i < w.pairs.len() => i,
            _ => return "bad-op".into(),
        };
        let pair = w.pairs[i].addr.clone();
        let out = {
            let app = &mut w.app;
            guarded(|| app.execute_contract(Addr::unchecked("anyone"), pair.clone(), &p::ExecuteMsg::CollectProtocolFees {}, &[]))
        };
        format!("{} {}", status(&out), w.show_state())
    }

    /// the factory owner removes the pair and creates a new one for the same two assets (same fees) with
    /// fresh liquidity; from now on the registry names the new contract
    fn do_replace(&mut self, pi: &str, b0: &str, b1: &str) -> String {
        let w = self.w.as_mut().unwrap();
        let (i, b0, b1) = match (pi.parse::<usize>(), b0.parse::<u128>(), b1.parse::<u128>()) {
            (Ok(i), Ok(x), Ok(y)) if i < w.pairs.len() => (i, x, y),
            _ => return "bad-op".into(),
        };
        let admin = Addr::unchecked("admin");
        let a = w.pairs[i].a;
        let fees = w.pairs[i].fees;
        let infos = [w.info(a[0]), w.info(a[1])];
        let fac = w.fac.clone();
        let r: Result<(), String> = (|| {
            w.app.execute_contract(admin.clone(), fac.clone(), &f::ExecuteMsg::RemovePair { asset_infos: infos.clone() }, &[]).map_err(es)?;
            w.app
                .execute_contract(
                    admin.clone(),
                    fac.clone(),
                    &f::ExecuteMsg::CreatePair { asset_infos: infos.clone(), pool_fees: pool_fee(fees.0, fees.1, fees.2), pair_type: PairType::ConstantProduct, token_factory_lp: false },
                    &[],
                )
                .map_err(es)?;
            let pi: PairInfo = w.app.wrap().query_wasm_smart(&fac, &f::QueryMsg::Pair { asset_infos: infos.clone() }).map_err(|x| format!("{x}"))?;
            let pair = Addr::unchecked(pi.contract_addr);
            let lp = Addr::unchecked("lprovider");
            let bal = [b0, b1];
            let mut funds: Vec<Coin> = vec![];
            for k in 0..2 {
                w.mint(&lp, a[k], bal[k]);
                if w.kinds[a[k]] {
                    funds.push(Coin { denom: dnm(a[k]).into(), amount: bal[k].into() });
                } else {
                    let t = w.tokens[a[k]].clone().unwrap();
                    w.app
                        .execute_contract(lp.clone(), t, &Cw20ExecuteMsg::IncreaseAllowance { spender: pair.to_string(), amount: bal[k].into(), expires: None }, &[])
                        .map_err(es)?;
                }
            }
            funds.sort_by(|x, y| x.denom.cmp(&y.denom));
            w.app
                .execute_contract(
                    lp.clone(),
                    pair.clone(),
                    &p::ExecuteMsg::ProvideLiquidity {
                        assets: [Asset { info: infos[0].clone(), amount: b0.into() }, Asset { info: infos[1].clone(), amount: b1.into() }],
                        slippage_tolerance: None,
                        receiver: None,
                    },
                    &funds,
                )
                .map_err(es)?;
            w.pairs[i].addr = pair;
            Ok(())
        })();
        match r {
            Ok(()) => format!("ok {}", w.show_state()),
            Err(e) => {
                eprintln!("quotes: replace failed: {e}");
                std::process::exit(3)
            }
        }
    }

    // ------------------------------------------------------------------ generator
    fn gen_init(&mut self, rng: &mut Rng) -> String {
        let kinds = if rng.chance(2, 3) {
            "n,n,c,c".to_string()
        } else {
            (0..NA).map(|_| if rng.chance(1, 2) { "n" } else { "c" }).collect::<Vec<_>>().join(",")
        };
        // pair graph: a triangle 0-1-2 plus the spoke 2-3 (default), or the square 0-1-2-3
        let topo: [(usize, usize); 4] = if rng.chance(3, 4) { [(0, 1), (1, 2), (2, 3), (2, 0)] } else { [(0, 1), (1, 2), (2, 3), (3, 0)] };
        let mut s = format!("init quotes kinds={kinds}");
        if rng.chance(1, 2) {
            s += &format!(" dn={}", 1 + rng.below(DENOM_SETS.len() as u64 - 1));
        }
        let scale = rng.range(14, 100) as u32;
        for (i, (x, y)) in topo.iter().enumerate() {
            let (x, y) = if rng.chance(1, 2) { (*x, *y) } else { (*y, *x) };
            let (pf, sf, bf) = match rng.below(6) {
                0 => (0, 0, 0),
                1 => (E18 / 1000, 2 * E18 / 1000, 0),
                2 => (E18 / 1000, 2 * E18 / 1000, E18 / 1000),
                _ => rng.valid_fees(),
            };
            // most pools of a case live around one scale (so that multi-hop routes stay within
            // the spread limit); some are wild
            let near = |rng: &mut Rng, bits: u32| -> u128 {
                let lo = 1u128 << bits.saturating_sub(3).max(11);
                lo + rng.u128() % (lo * 15)
            };
            let (b0, b1) = match rng.below(8) {
                0 => {
                    let r = near(rng, scale);
                    (r, r)
                }
                1..=3 => (near(rng, scale), near(rng, scale)),
                4 => (2048 + rng.log_uniform(100), 2048 + rng.log_uniform(100)),
                5 => (2048 + rng.log_uniform(40), 2048 + rng.log_uniform(100)),
                6 => {
                    let r = near(rng, scale);
                    (r, r + rng.log_uniform(scale.max(12) - 4))
                }
                _ => (1_000_000_000, 1_000_000_000 + rng.below(1_000_000_000) as u128),
            };
            s.push_str(&format!(" p{i}={x},{y},{pf},{sf},{bf},{b0},{b1}"));
        }
        s
    }

    fn gen_amount(&self, rng: &mut Rng, pair: usize, offer_asset: usize) -> u128 {
        let w = self.w.as_ref().unwrap();
        let st = w.pair_state(pair);
        let k = if w.pairs[pair].a[0] == offer_asset { 0 } else { 1 };
        let reserve = st[k].saturating_sub(st[2 + k]).max(1);
        let v = match rng.below(20) {
            0..=13 => (reserve / (2 + rng.log_uniform(21))).max(1),
            14..=15 => rng.log_uniform((128 - reserve.leading_zeros() + 2).min(118)),
            16..=17 => rng.amount(118),
            18 => 0,
            _ => 1 + rng.below(1000) as u128,
        };
        v.min(AMT_CAP)
    }

    fn gen_ms(&self, rng: &mut Rng) -> String {
        match rng.below(20) {
            0..=12 => (E18 / 2).to_string(),
            13..=15 => "none".into(),
            16..=17 => rng.fee_share().to_string(),
            _ => E18.to_string(),
        }
    }

    fn gen_route(&self, rng: &mut Rng) -> String {
        let w = self.w.as_ref().unwrap();
        let nh = match rng.below(20) {
            0..=3 => 1,
            4..=10 => 2,
            _ => 3,
        };
        let mut hops: Vec<(usize, usize)> = vec![];
        if rng.chance(1, 16) {
            // malformed: arbitrary (possibly unchained / unregistered) hops
            for _ in 0..nh {
                hops.push((rng.below(NA as u64) as usize, rng.below(NA as u64) as usize));
            }
        } else {
            let avoid_revisit = rng.chance(7, 10);
            let mut cur = rng.below(NA as u64) as usize;
            let mut used: Vec<usize> = vec![];
            for _ in 0..nh {
                let mut cands: Vec<usize> = (0..w.pairs.len()).filter(|i| w.pairs[*i].a.contains(&cur)).collect();
                if avoid_revisit {
                    let c2: Vec<usize> = cands.iter().cloned().filter(|i| !used.contains(i)).collect();
                    if !c2.is_empty() {
                        cands = c2;
                    }
                }
                if cands.is_empty() {
                    break;
                }
                let pi = *rng.pick(&cands);
                let nxt = if w.pairs[pi].a[0] == cur { w.pairs[pi].a[1] } else { w.pairs[pi].a[0] };
                hops.push((cur, nxt));
                used.push(pi);
                cur = nxt;
            }
        }
        let amt = match w.pair_of(hops[0].0, hops[0].1) {
            Some(pi) => self.gen_amount(rng, pi, hops[0].0),
            None => rng.amount(100),
        };
        let ms = self.gen_ms(rng);
        let hs: Vec<String> = hops.iter().map(|(x, y)| format!("{x}:{y}")).collect();
        format!("route {amt} {ms} {}", hs.join(" "))
    }
}

impl Engine for Quotes {
    fn exec(&mut self, line: &str, mon: &mut Monitor) -> String {
        let ws: Vec<&str> = line.split_whitespace().collect();
        if ws.len() >= 2 && ws[0] == "init" {
            if ws[1] != "quotes" {
                return "bad-op".into();
            }
            return self.do_init(&ws);
        }
        if self.w.is_none() || ws.is_empty() {
            return "bad-op".into();
        }
        match (ws[0], ws.len()) {
            ("swap", 5) => self.do_swap(&ws[1..], mon),
            ("route", n) if n >= 4 => self.do_route(&ws[1..], mon),
            ("donate", 4) => self.do_transfer(Some(ws[1]), ws[2], ws[3]),
            ("fund", 3) => self.do_transfer(None, ws[1], ws[2]),
            ("collect", 2) => self.do_collect(ws[1]),
            ("replace", 4) => self.do_replace(ws[1], ws[2], ws[3]),
            _ => "bad-op".into(),
        }
    }

    fn next_op(&mut self, rng: &mut Rng, step: u64) -> Option<String> {
        if step == 0 {
            self.cases_started += 1;
            self.known_case = self.cases_started == 1;
            if self.known_case {
                // DESIGN section 6 row 12, first in every stream
                return Some(format!(
                    "init quotes kinds=n,n,c,c p0=0,1,{pf},{sf},0,1000000000,1000000000 p1=1,2,{pf},{sf},0,1000000000,1000000000 p2=2,3,{pf},{sf},0,1000000000,1000000000 p3=2,0,{pf},{sf},0,1000000000,1000000000",
                    pf = E18 / 1000,
                    sf = 2 * E18 / 1000
                ));
            }
            self.len = rng.range(8, 30);
            return Some(self.gen_init(rng));
        }
        if self.known_case {
            return match step {
                1 => Some(format!("route 100000000 {} 0:1 1:0", E18 / 2)),
                // the same offer over pairwise distinct pairs (must agree)
                2 => Some(format!("route 100000000 {} 0:1 1:2 2:0", E18 / 2)),
                // variant prefunded: the documented second hypothesis, deterministically
                3 if self.variant == "prefunded" => Some("fund 1 5000000".into()),
                4 if self.variant == "prefunded" => Some(format!("route 100000000 {} 0:1 1:2", E18 / 2)),
                _ => None,
            };
        }
        if step > self.len {
            return None;
        }
        let prefunded = self.variant == "prefunded";
        let w = self.w.as_ref().unwrap();
        let np = w.pairs.len();
        let x = rng.below(100);
        let body = if prefunded && x < 15 {
            let a = rng.below(NA as u64);
            let amt = match rng.below(4) {
                0 => 1 + rng.below(1000) as u128,
                1 => rng.log_uniform(40),
                _ => rng.log_uniform(80),
            };
            format!("fund {a} {amt}")
        } else if x < 55 {
            let pi = rng.below(np as u64) as usize;
            let oa = if rng.chance(1, 25) { rng.below(NA as u64) as usize } else { w.pairs[pi].a[rng.below(2) as usize] };
            let amt = if w.pairs[pi].a.contains(&oa) { self.gen_amount(rng, pi, oa) } else { rng.amount(60) };
            format!("swap {pi} {oa} {amt} {}", self.gen_ms(rng))
        } else if x < 88 {
            self.gen_route(rng)
        } else if x < 94 {
            let pi = rng.below(np as u64) as usize;
            let a = if rng.chance(1, 10) { rng.below(NA as u64) as usize } else { w.pairs[pi].a[rng.below(2) as usize] };
            format!("donate {pi} {a} {}", rng.amount(90).min(AMT_CAP))
        } else if x < 97 {
            format!("collect {}", rng.below(np as u64))
        } else {
            // the factory owner replaces a pair by a new one for the same assets
            let pi = rng.below(np as u64) as usize;
            let st = w.pair_state(pi);
            let near = |rng: &mut Rng, v: u128| -> u128 { (v / 2 + rng.u128() % v.max(2)).clamp(4096, AMT_CAP) };
            format!("replace {pi} {} {}", near(rng, st[0].max(4096)), near(rng, st[1].max(4096)))
        };
        Some(body)
    }
}
