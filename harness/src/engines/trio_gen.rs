//! Generators for engine `trio`: pure-call lines (variant `pure`) and state-aware contract
//! histories (variant `hist`, also the default). Every random choice comes from the one PRNG.
use crate::common::Rng;
use crate::engines::trio::Trio;

const E18: u128 = 1_000_000_000_000_000_000;

fn amp_value(rng: &mut Rng) -> u64 {
    match rng.below(12) {
        0 => 1,
        1 => 2,
        2 => 10,
        3 => 100,
        4 => 1000,
        5 => 1_000_000,
        6 => 999_999,
        7 => 85,
        _ => (rng.log_uniform(20) as u64).clamp(1, 1_000_000),
    }
}

/// `init target cur start stop` of a `StableSwap`
fn amp_cfg(rng: &mut Rng) -> (u64, u64, u64, u64, u64) {
    match rng.below(20) {
        0..=6 => {
            let a = amp_value(rng);
            let stop = rng.below(1_000_000);
            (a, a, stop + rng.below(1000), stop.saturating_sub(rng.below(20000)), stop)
        }
        7..=17 => {
            let (i, t) = (amp_value(rng), amp_value(rng));
            let start = rng.below(10_000_000);
            let range = match rng.below(6) {
                0 => 10_000,
                1 => 10_001,
                2 => 86_400,
                3 => 1,
                4 => rng.range(1, 1_000_000),
                _ => rng.range(2, 50_000),
            };
            let k = match rng.below(9) {
                0 => 0,
                1 => 1,
                2 => range / 2,
                3 => range - 1,
                4 => range,
                5 => range + 1,
                6 => rng.below(2 * range + 1),
                _ => rng.below(range),
            };
            (i, t, start + k, start, start + range)
        }
        18 => {
            // out-of-range amps (0, above the cap), well-formed clock
            let i = if rng.chance(1, 2) { 0 } else { rng.log_uniform(63) as u64 };
            let t = if rng.chance(1, 2) { amp_value(rng) } else { rng.log_uniform(63) as u64 };
            let start = rng.below(1_000_000);
            let range = rng.range(1, 100_000);
            (i, t, start + rng.below(range + 2), start, start + range)
        }
        _ => (
            rng.log_uniform(64) as u64,
            rng.log_uniform(64) as u64,
            rng.log_uniform(64) as u64,
            rng.log_uniform(64) as u64,
            rng.log_uniform(64) as u64,
        ),
    }
}

fn near(rng: &mut Rng, r: u128, shift: u32) -> u128 {
    let n = (r >> shift).max(1);
    let d = rng.u128() % n;
    if rng.chance(1, 2) {
        r.saturating_add(d)
    } else {
        r.saturating_sub(d).max(1)
    }
}

/// three reserves
fn reserves(rng: &mut Rng) -> (u128, u128, u128) {
    match rng.below(10) {
        0..=2 => {
            let r = rng.log_uniform(110);
            let sh = rng.range(1, 30) as u32;
            (near(rng, r, sh), near(rng, r, sh), near(rng, r, sh))
        }
        3..=4 => {
            let r = rng.log_uniform(100).max(1 << 12);
            let f = |rng: &mut Rng| (r >> rng.below(11)).max(1);
            (f(rng), f(rng), f(rng))
        }
        5 => (rng.log_uniform(110), rng.log_uniform(110), rng.log_uniform(110)),
        6 => (rng.log_uniform(12), rng.log_uniform(12), rng.log_uniform(12)),
        7 => (rng.amount(110), rng.amount(110), rng.amount(110)),
        8 => {
            let r = rng.log_uniform(64).max(1000);
            (r, r, r)
        }
        _ => {
            if rng.chance(1, 4) {
                (rng.amount(128), rng.amount(128), rng.amount(128))
            } else {
                let r = 1u128 << 110;
                (r - rng.below(3) as u128, r - rng.below(3) as u128, r - rng.below(3) as u128)
            }
        }
    }
}

fn offer_for(rng: &mut Rng, pool: u128) -> u128 {
    match rng.below(10) {
        0 => 0,
        1 => 1,
        2 => rng.below(1000) as u128,
        3 => (pool / 1_000_000).max(1),
        4 => (pool / 1000).max(1),
        5 => (pool / 10).max(1),
        6 => pool,
        7 => pool.saturating_mul(rng.range(2, 1000) as u128),
        8 => rng.amount(110),
        _ => (rng.u128() % pool.max(1)).max(1),
    }
}

fn fees(rng: &mut Rng) -> (u128, u128, u128) {
    if rng.chance(1, 25) {
        (rng.fee_share(), rng.fee_share(), rng.fee_share())
    } else if rng.chance(1, 6) {
        (0, 0, 0)
    } else if rng.chance(1, 2) {
        (E18 / 1000, 3 * E18 / 1000, if rng.chance(1, 2) { E18 / 1000 } else { 0 })
    } else {
        rng.valid_fees()
    }
}

fn pure_line(rng: &mut Rng) -> String {
    let (i, t, cur, st, sp) = amp_cfg(rng);
    let hdr = format!("{i} {t} {cur} {st} {sp}");
    let (a, b, c) = reserves(rng);
    match rng.below(100) {
        0..=13 => format!("call trio_amp {hdr}"),
        14..=31 => format!("call trio_d {hdr} {a} {b} {c}"),
        32..=45 => format!("call trio_swap_to {hdr} {} {a} {b} {c}", offer_for(rng, a)),
        46..=61 => {
            let (p, s, bb) = fees(rng);
            format!("call trio_cswap {hdr} {a} {b} {c} {} {p} {s} {bb}", offer_for(rng, a))
        }
        62..=73 => {
            let (p, s, bb) = fees(rng);
            format!("call trio_rt {hdr} {a} {b} {c} {} {p} {s} {bb}", offer_for(rng, a))
        }
        74..=86 => {
            let dep = |rng: &mut Rng, r: u128| match rng.below(6) {
                0 => 0,
                1 => 1,
                2 => (r / 1000).max(1),
                3 => r,
                4 => rng.amount(110),
                _ => (rng.u128() % r.max(1)).max(1),
            };
            let (da, db, dc) = (dep(rng, a), dep(rng, b), dep(rng, c));
            let sup = match rng.below(4) {
                0 => a.saturating_add(b).saturating_add(c),
                1 => rng.amount(110),
                2 => rng.amount(128),
                _ => (a / 3).max(1),
            };
            format!("call trio_mint {hdr} {da} {db} {dc} {a} {b} {c} {sup}")
        }
        87..=94 => {
            // y for the pool (a, b, c) with a changed: d = a + b + c is the balanced-pool value
            let d = a.saturating_add(b).saturating_add(c);
            let x = a.saturating_add(offer_for(rng, a));
            let d = match rng.below(4) {
                0 => d.to_string(),
                1 => (d - d / 100).to_string(),
                2 => format!("{}", cosmwasm_std::Uint256::from(rng.amount(128)) * cosmwasm_std::Uint256::from(rng.below(1 << 20) + 1)),
                _ => (d / 2).max(1).to_string(),
            };
            let f = if rng.chance(1, 2) { "trio_y" } else { "trio_yraw" };
            format!("call {f} {hdr} {x} {c} {d}")
        }
        _ => {
            let slip = match rng.below(6) {
                0 => "-".to_string(),
                1 => "0".to_string(),
                2 => E18.to_string(),
                3 => (E18 + 1).to_string(),
                4 => (E18 / 100).to_string(),
                _ => (rng.u128() % E18).to_string(),
            };
            let amount = if rng.chance(1, 8) { 0 } else { (a / 2).max(1) };
            let sup = if rng.chance(1, 10) { 0 } else { a.saturating_add(b) };
            format!("call trio_slip {slip} {} {} {} {a} {b} {c} {amount} {sup}", a / 7, b / 7, c / 7)
        }
    }
}

fn opt<T: std::fmt::Display>(x: Option<T>) -> String {
    x.map(|v| v.to_string()).unwrap_or("-".into())
}

fn hist_next(e: &mut Trio, rng: &mut Rng, step: u64) -> Option<String> {
    if step == 0 {
        let kinds: String = (0..3).map(|_| if rng.chance(1, 2) { 'n' } else { 'c' }).collect();
        let (p, s, b) = loop {
            let f = fees(rng);
            if f.0 < E18 && f.1 < E18 && f.2 < E18 && f.0 + f.1 + f.2 < E18 {
                break f;
            }
        };
        let amp = amp_value(rng);
        let h = rng.range(1, 2_000_000);
        let fund: u128 = match rng.below(6) {
            0 => rng.range(10_000_000, 10_000_000_000) as u128,
            1 | 2 => 1_000_000_000_000u128 * rng.range(1, 1_000_000) as u128,
            3 => 1u128 << rng.range(60, 100),
            4 => 1u128 << 110,
            _ => rng.log_uniform(110).max(100_000),
        };
        let (height, queue, len, _) = e.gen_state();
        *height = h;
        queue.clear();
        *len = rng.range(18, 46);
        return Some(format!("init trio kinds={kinds} p={p} s={s} b={b} amp={amp} h={h} fund={fund}"));
    }
    {
        let (_, queue, len, _) = e.gen_state();
        if step > *len && queue.is_empty() {
            return None;
        }
        if let Some(l) = queue.pop_front() {
            return Some(l);
        }
    }
    // advance the clock: several operations per block, small steps, ramp-sized jumps
    let dh = match rng.below(10) {
        0..=4 => 0,
        5..=7 => rng.range(1, 20),
        _ => *rng.pick(&[1000u64, 5000, 9999, 10000, 10001, 20000, 50000]),
    };
    let h = {
        let (height, _, _, _) = e.gen_state();
        *height += dh;
        *height
    };
    e.set_block_for_gen(h);
    let t = h * 5;
    let v = match e.peek() {
        Some(v) => v,
        None => return None,
    };
    let u = rng.below(4) as usize;
    let pre = |u: usize| format!("{h} {t} {u}");
    let pick_dir = |rng: &mut Rng| -> (usize, usize) {
        let o = rng.below(3) as usize;
        let a = (o + 1 + rng.below(2) as usize) % 3;
        (o, a)
    };
    if v.lps == 0 {
        // first deposit (sometimes too small for the minimum-liquidity rule, sometimes lopsided)
        let f = v.users[u][0].min(v.users[u][1]).min(v.users[u][2]);
        let base = match rng.below(10) {
            0 => rng.range(1, 1100) as u128,
            1 => 1000,
            2 => 1001,
            _ => (f >> rng.range(1, 6)).max(1),
        };
        let d = |rng: &mut Rng| match rng.below(6) {
            0 => (base >> rng.range(1, 7)).max(1),
            1 => near(rng, base, 4),
            _ => base,
        };
        let (d0, d1, d2) = (d(rng), d(rng), d(rng));
        let recv = if rng.chance(1, 8) { Some(rng.below(6)) } else { None };
        return Some(format!("{} provide {d0} {d1} {d2} - {}", pre(u), opt(recv)));
    }
    let sized = |rng: &mut Rng, pool: u128, have: u128| -> u128 {
        let x = match rng.below(12) {
            0 => 0,
            1 => 1,
            2 => rng.range(2, 2000) as u128,
            3 => pool / 1_000_000,
            4 | 5 => pool / 1000,
            6 | 7 => pool / 100,
            8 => pool / 10,
            9 => pool,
            10 => have,
            _ => rng.u128() % pool.max(1),
        };
        if rng.chance(9, 10) {
            x.min(have)
        } else {
            x
        }
    };
    let roll = rng.below(103);
    let line = match roll {
        0..=37 => {
            // swap, all six directions; sometimes to a third party / with limits
            let (o, a) = pick_dir(rng);
            let amt = sized(rng, v.r[o], v.users[u][o]);
            let to = if rng.chance(1, 8) { Some(rng.below(6)) } else { None };
            let ms = match rng.below(12) {
                0 => Some(0u128),
                1 => Some(E18 / 1000),
                2 | 5 | 6 | 7 => Some(E18 / 2),
                3 => Some(E18),
                4 => Some(rng.u128() % (E18 / 20)),
                _ => None,
            };
            let bp = match rng.below(14) {
                0 => Some(E18),
                1 => Some(E18 + E18 / 100),
                2 => Some(E18 - E18 / 100),
                3 => Some(0),
                _ => None,
            };
            format!("{} swap {o} {a} {amt} {} {} {}", pre(u), opt(bp), opt(ms), opt(to))
        }
        38..=43 => {
            // there and back: the second leg offers exactly what the quote of the first promises
            let (o, a) = pick_dir(rng);
            let amt = sized(rng, v.r[o], v.users[u][o]).max(1);
            let big = if rng.chance(1, 2) { Some(E18 / 2) } else { None };
            e.gen_state().1.push_back(format!("{} swap {a} {o} @RET - {} -", pre(u), opt(big)));
            format!("{} swap {o} {a} {amt} - {} -", pre(u), opt(big))
        }
        44..=53 => {
            // steer a pending protocol fee to 1 / 999 / 1000 / 1001, then collect
            let (o, a) = pick_dir(rng);
            let target = *rng.pick(&[1u128, 999, 1000, 1001]);
            let mut crafted = None;
            if v.fees.0 > 0 && v.pend[a] < target {
                let hi = v.users[u][o].min(v.r[o].saturating_mul(4)).max(1);
                if let Some(amt) = e.offer_for_protocol_fee(o, a, target - v.pend[a], hi) {
                    crafted = Some(amt);
                }
            }
            let who = rng.below(6);
            match crafted {
                Some(amt) => {
                    e.gen_state().1.push_back(format!("{h} {t} {who} collect"));
                    format!("{} swap {o} {a} {amt} - {} -", pre(u), E18 / 2)
                }
                None => format!("{h} {t} {who} collect"),
            }
        }
        54..=63 => {
            let d = |rng: &mut Rng, i: usize| sized(rng, v.r[i], v.users[u][i]).max(if rng.chance(1, 12) { 0 } else { 1 });
            let (d0, d1, d2) = if rng.chance(1, 2) {
                // proportional deposit
                let k = rng.range(2, 2000) as u128;
                ((v.r[0] / k).max(1), (v.r[1] / k).max(1), (v.r[2] / k).max(1))
            } else {
                (d(rng, 0), d(rng, 1), d(rng, 2))
            };
            let slip = match rng.below(8) {
                0 => Some(0u128),
                1 => Some(E18 / 100),
                2 => Some(E18 / 2),
                3 => Some(E18 + 1),
                _ => None,
            };
            let recv = if rng.chance(1, 8) { Some(rng.below(6)) } else { None };
            format!("{} provide {d0} {d1} {d2} {} {}", pre(u), opt(slip), opt(recv))
        }
        64..=73 => {
            // withdraw: prefer somebody who holds LP
            let holders: Vec<usize> = (0..6).filter(|a| v.users[*a][3] > 0).collect();
            let u = if holders.is_empty() || rng.chance(1, 10) { u } else { *rng.pick(&holders) };
            let have = v.users[u][3];
            let amt = match rng.below(8) {
                0 => 0,
                1 => 1,
                2 => have,
                3 => have.saturating_add(1),
                4 => have / 2,
                _ => rng.u128() % have.max(1),
            };
            format!("{} withdraw {amt}", pre(u))
        }
        74..=78 => {
            // now and then with coins attached all the same (users 0..3 hold the pool's native assets)
            let nat: Vec<usize> = (0..3).filter(|i| v.native[*i]).collect();
            if !nat.is_empty() && rng.chance(1, 4) {
                let i = *rng.pick(&nat);
                let who = rng.below(4) as usize;
                let amt = match rng.below(4) {
                    0 => 1,
                    1 => 1001,
                    2 => v.users[who][i].saturating_add(1),
                    _ => sized(rng, v.r[i], v.users[who][i]).max(1),
                };
                format!("{h} {t} {who} fund {i} {amt} collect")
            } else {
                format!("{h} {t} {} collect", rng.below(6))
            }
        }
        79..=90 => {
            // amplification ramp around the rule's edges
            let cur = {
                let (i, tg, st, sp) = v.amp;
                if h >= sp || sp <= st {
                    tg
                } else if tg >= i {
                    i + ((tg - i) as u128 * (h - st) as u128 / (sp - st) as u128) as u64
                } else {
                    i - ((i - tg) as u128 * (h - st) as u128 / (sp - st) as u128) as u64
                }
            };
            let fa = match rng.below(14) {
                0 => cur * 10,
                1 => cur * 10 + 1,
                2 => cur / 10,
                3 => (cur / 10).saturating_sub(1),
                4 => cur / 10 + 1,
                5 => cur * 2,
                6 => (cur / 2).max(1),
                7 => cur,
                8 => 1,
                9 => 1_000_000,
                10 => 1_000_001,
                11 => 0,
                12 => (cur * 10).min(1_000_000),
                _ => rng.range(1, 1_000_000),
            };
            let fb = h + *rng.pick(&[10_000u64, 10_000, 10_000, 9_999, 10_001, 20_000, 100_000, 0]);
            let who = if rng.chance(6, 7) { v.own } else { rng.below(6) as usize };
            format!("{} config - - - - {fa},{fb}", pre(who))
        }
        91..=94 => {
            // other configuration: fees, toggles (re-enabled soon after), owner, collector
            let who = if rng.chance(6, 7) { v.own } else { rng.below(6) as usize };
            match rng.below(5) {
                0 | 1 => {
                    let (p, s, b) = fees(rng);
                    format!("{} config - - {p},{s},{b} - -", pre(who))
                }
                2 => {
                    let bits: String = (0..3).map(|_| if rng.chance(1, 2) { '1' } else { '0' }).collect();
                    e.gen_state().1.push_back(format!("{} swap 0 1 {} - - -", pre(u), v.r[0] / 1000));
                    e.gen_state().1.push_back(format!("{} config - - - 111 -", pre(who)));
                    format!("{} config - - - {bits} -", pre(who))
                }
                3 => format!("{} config - {} - - -", pre(who), rng.below(6)),
                _ => format!("{} config {} - - - -", pre(who), rng.below(6)),
            }
        }
        95..=97 => {
            let i = rng.below(3) as usize;
            format!("{} donate {i} {}", pre(u), sized(rng, v.r[i], v.users[u][i]))
        }
        100..=102 => {
            // entry points a cw20-LP pool must refuse: direct WithdrawLiquidity {} with 0 / 1 / 2 coins,
            // hooks arriving from the wrong token; amounts around the locked minimum and the sender's LP
            let holders: Vec<usize> = (0..6).filter(|a| v.users[*a][3] > 0).collect();
            let u = if holders.is_empty() || rng.chance(1, 2) { u } else { *rng.pick(&holders) };
            let amt = match rng.below(8) {
                0 => 1,
                1 => 999,
                2 => 1000,
                3 => 3000,
                4 | 5 => v.users[u][3].max(1),
                6 => (v.lps / (1 + rng.below(8) as u128)).max(1),
                _ => rng.range(1, 100_000) as u128,
            };
            match rng.below(8) {
                6 | 7 => {
                    // direct Swap with nothing attached, every (offer, ask) pair, amounts a real trade would use
                    let (o, a) = (rng.below(3), rng.below(3));
                    let x = match rng.below(3) {
                        0 => amt.max(1),
                        1 => (v.r[o as usize] / (2 + rng.below(50) as u128)).max(1),
                        _ => rng.range(1, 1_000_000) as u128,
                    };
                    format!("{} sdirect {} {x}", pre(u), o * 3 + a)
                }
                0..=3 => {
                    let sel = match rng.below(10) {
                        0..=3 => rng.below(3),
                        4..=6 => 3,
                        7 => 4,
                        8 => 5,
                        _ => 6,
                    };
                    format!("{} wdirect {sel} {amt}", pre(u))
                }
                4 => format!("{} wfake {} {}", pre(u), rng.below(3), if rng.chance(1, 6) { 0 } else { amt }),
                _ => format!("{} sfake {} {}", pre(u), rng.below(3), if rng.chance(1, 6) { 0 } else { amt.min(v.users[u][3]) }),
            }
        }
        _ => {
            // malformed: foreign asset, same asset on both sides
            match rng.below(3) {
                0 => format!("{} swap 3 {} {} - - -", pre(u), rng.below(3), rng.range(1, 100000)),
                1 => format!("{} swap {} 3 {} - - -", pre(u), rng.below(3), rng.range(1, 1000)),
                _ => {
                    let i = rng.below(3);
                    format!("{} swap {i} {i} {} - - -", pre(u), rng.range(1, 1000))
                }
            }
        }
    };
    Some(line)
}

pub fn next(e: &mut Trio, rng: &mut Rng, step: u64) -> Option<String> {
    if e.variant == "pure" {
        if step >= 1 {
            return None;
        }
        *e.gen_state().3 += 1;
        return Some(pure_line(rng));
    }
    let mut l = hist_next(e, rng, step)?;
    if l.contains("@RET") {
        // resolve the second leg of a there-and-back pair against the state left by the first
        let ws: Vec<String> = l.split_whitespace().map(|s| s.to_string()).collect();
        let (o, a): (usize, usize) = (ws[4].parse().unwrap(), ws[5].parse().unwrap());
        let u: usize = ws[2].parse().unwrap();
        let amt = e.last_return(u, a, o).unwrap_or(1);
        l = l.replace("@RET", &amt.to_string());
    }
    Some(l)
}
