//! C16 — authorisation matrix on the real contracts.
//!
//! Op line (self-contained, stateless):  `auth <contract> <Variant> <role> <phase> <payload-seed>`
//!   phase `before` = hub as instantiated; `after` = every configured owner handed to `newowner`.
//!   seed 0 = canonical payload, anything else seeds the payload randomiser.
//! Observation:  `ok|err nested=<0|1> real=<ok|other|unauth|nested_unauth|panic>`  (a panic past the sender check = `ok … real=panic`)
//!   `err`      the call was refused by the TARGET's own sender check (top-level handler error whose text is
//!              the contract's unauthorised error — the only place an error text is looked at);
//!   `ok`       the sender got past the target's check (the call succeeded, or failed later for another reason);
//!   `nested=1` a contract the target called as itself refused the target (e.g. factory -> transferred pair).
//! The model (lean/WW/Model/Auth.lean) predicts the first token and `nested`; `real=` is informative.
//!
//! One generated "case" is ONE FULL PASS over  every ExecuteMsg variant of all 15 contracts (wildcard-free
//! tables in `variants.rs`) x every role x {before, after}. Engine variant "canon" uses seed 0 throughout.
//!
//! Monitors (property as stated, evaluated against an independent spec table, not the model):
//!   unauthorised_rejected   privileged variant /\ role not designated  =>  the call fails
//!   rejected_unchanged      failed call => raw storage of ALL contracts + all balances byte-identical
//!   authorised_not_blocked  permissionless variant or designated role   =>  not refused as unauthorised
//!   ownership_transfer      after UpdateConfig{owner:=new}: old owner refused, new owner admitted, on every
//!                           owner-guarded variant of every contract with an owner (+ the transfer calls succeed)
//!   matrix_complete         the pass enumerates every name of the compile-time tables and every payload
//!                           builder yields exactly the variant it was asked for
mod hub;
mod payloads;
mod variants;

use crate::common::{Engine, Monitor, Rng};
use cosmwasm_std::{Addr, WasmMsg};
use cw_multi_test::Executor;
use hub::Hub;
use std::panic::{catch_unwind, AssertUnwindSafe};

/// roles relative to the target contract (the property's vocabulary) …
pub const REL_ROLES: [&str; 15] = [
    "owner",
    "newOwner",
    "user",
    "wasmAdmin",
    "flowCreator",
    "self",
    "factory",
    "sibling",
    "feeDistributor",
    "registeredVault",
    "minter",
    "lpToken",
    "assetToken",
    "trioLp",
    "vaultLp",
];
/// … plus EVERY hub contract as a caller (`c:<contract>`): "sibling" is not a sample
pub fn roles() -> Vec<String> {
    let mut r: Vec<String> = REL_ROLES.iter().map(|s| s.to_string()).collect();
    r.extend(variants::CONTRACTS.iter().map(|c| format!("c:{c}")));
    r
}
pub const PHASES: [&str; 2] = ["before", "after"];

/// what the property statement demands of the sender (independent of the Lean table)
#[derive(Clone, Copy, Debug, PartialEq)]
enum Spec {
    Owner,
    SelfOnly,
    WasmAdmin,
    Minter,
    Nobody,
    FeeDistributor,
    RegisteredVault,
    LpToken,
    PoolAssetToken,
    FlowCreatorOrFactoryOwner,
}

/// Privileged operations per the property text: configuration changes, pool / vault / incentive creation and
/// removal, migrations of children, route management, hook management, fee and toggle updates => owner (children:
/// their factory, i.e. the configured owner); internal callbacks => the designated contract; cw20 hooks => the
/// token concerned; cw20 minting => the minter. Everything else is permissionless.
fn spec_rule(contract: &str, variant: &str) -> Option<Spec> {
    use Spec::*;
    match (contract, variant) {
        ("terraswap_factory", _) | ("incentive_factory", _) | ("vault_factory", _) => Some(Owner),
        ("terraswap_pair", "UpdateConfig") | ("stableswap_3pool", "UpdateConfig") => Some(Owner),
        ("terraswap_pair", "Receive.Swap") | ("stableswap_3pool", "Receive.Swap") => Some(PoolAssetToken),
        ("terraswap_pair", "Receive.WithdrawLiquidity") | ("stableswap_3pool", "Receive.WithdrawLiquidity") => Some(LpToken),
        ("terraswap_router", "ExecuteSwapOperation") => Some(SelfOnly),
        ("terraswap_router", "AssertMinimumReceive") => Some(SelfOnly),
        ("terraswap_router", "AddSwapRoutes") | ("terraswap_router", "RemoveSwapRoutes") => Some(WasmAdmin),
        ("terraswap_token", "Mint") | ("terraswap_token", "UpdateMinter") => Some(Minter),
        ("terraswap_token", "UpdateMarketing") | ("terraswap_token", "UploadLogo") => Some(Nobody),
        ("incentive", "CloseFlow") => Some(FlowCreatorOrFactoryOwner),
        ("frontend_helper", "UpdateConfig") => Some(Owner),
        ("vault", "UpdateConfig") => Some(Owner),
        ("vault", "Receive.Withdraw") => Some(LpToken),
        ("vault", "Callback.AfterTrade") => Some(SelfOnly),
        ("vault_router", "UpdateConfig") => Some(Owner),
        ("vault_router", "NextLoan") => Some(RegisteredVault),
        ("vault_router", "CompleteLoan") => Some(SelfOnly),
        ("fee_collector", "UpdateConfig") => Some(Owner),
        ("fee_collector", "ForwardFees") => Some(FeeDistributor),
        ("fee_distributor", "UpdateConfig") => Some(Owner),
        ("whale_lair", "UpdateConfig") => Some(Owner),
        ("epoch_manager", "AddHook") | ("epoch_manager", "RemoveHook") | ("epoch_manager", "UpdateConfig") => Some(Owner),
        _ => None,
    }
}

/// contracts that store a transferable owner
const OWNED: [&str; 12] = [
    "terraswap_factory",
    "terraswap_pair",
    "stableswap_3pool",
    "incentive_factory",
    "frontend_helper",
    "vault_factory",
    "vault",
    "vault_router",
    "fee_collector",
    "fee_distributor",
    "whale_lair",
    "epoch_manager",
];

fn expected_owner(h: &Hub, contract: &str, after: bool) -> Addr {
    if after {
        return h.n.clone();
    }
    match contract {
        "terraswap_pair" | "stableswap_3pool" => h.pool_factory.clone(),
        "vault" => h.vault_factory.clone(),
        _ => h.o.clone(),
    }
}

fn spec_authorised(h: &Hub, rule: Spec, contract: &str, sender: &Addr, after: bool) -> bool {
    match rule {
        Spec::Owner => *sender == expected_owner(h, contract, after),
        Spec::SelfOnly => *sender == h.target(contract),
        Spec::WasmAdmin => *sender == h.a,
        Spec::Minter => *sender == h.pair,
        Spec::Nobody => false,
        Spec::FeeDistributor => *sender == h.distributor,
        Spec::RegisteredVault => *sender == h.vault,
        Spec::LpToken => *sender == h.lp_of(contract),
        Spec::PoolAssetToken => *sender == h.asset_token,
        Spec::FlowCreatorOrFactoryOwner => *sender == h.f || *sender == expected_owner(h, "incentive_factory", after),
    }
}

/// the contracts' "not authorised" errors (Display text of the error variant); used ONLY to classify
fn is_auth_text(t: &str) -> bool {
    let l = t.to_lowercase();
    l.contains("unauthorized")                                         // ContractError::Unauthorized, StdError "unauthorized"
        || l.contains("sender is not authorized")                      // incentive_factory / frontend_helper ContractError::Unauthorized
        || l.contains("caller is not admin")                           // cw_controllers::AdminError::NotAdmin (epoch-manager)
        || l.contains("attempt to call callback function outside contract") // VaultError::ExternalCallback
        || l.contains("account not permitted to close flow") // incentive UnauthorizedFlowClose
}

#[derive(Debug, PartialEq, Clone, Copy)]
enum Class {
    Ok,
    Unauth,
    NestedUnauth,
    Other,
    Panic,
}

pub struct AuthMatrix {
    canon: bool,
    matrix: Vec<(String, String, String, String)>,
    hubs: [Option<Hub>; 2],
    op_counter: u64,
    self_checked: bool,
    /// (monitor, tag) already reported: a failing cell is reported once, later repeats are only counted
    /// (the Monitor keeps at most 200 failures; the known finding must not crowd out a new one)
    reported: std::collections::BTreeSet<(String, String)>,
}

impl AuthMatrix {
    pub fn new(variant: &str) -> Self {
        let mut matrix = vec![];
        for phase in PHASES {
            for c in variants::CONTRACTS {
                for v in variants::full_names(c) {
                    for r in roles() {
                        matrix.push((c.to_string(), v.clone(), r, phase.to_string()));
                    }
                }
            }
        }
        AuthMatrix { canon: variant == "canon", matrix, hubs: [None, None], op_counter: 0, self_checked: false, reported: Default::default() }
    }

    fn hub(&mut self, after: bool, mon: &mut Monitor) -> Result<&mut Hub, String> {
        let i = after as usize;
        if self.hubs[i].is_none() {
            mon.stat("hub_builds");
            let mut h = Hub::build()?;
            if after {
                for (contract, r) in h.transfer_ownership() {
                    mon.check_tag("C16", "ownership_transfer", &format!("{contract}:transfer"), r.is_ok(), || {
                        format!("the genesis owner's ownership transfer of {contract} failed: {r:?}")
                    });
                }
            }
            self.hubs[i] = Some(h);
        }
        Ok(self.hubs[i].as_mut().unwrap())
    }

    /// every name of the compile-time tables has a payload builder that yields exactly that variant
    fn self_check(&mut self, mon: &mut Monitor) {
        if self.self_checked {
            return;
        }
        self.self_checked = true;
        let h = match Hub::build() {
            Ok(h) => h,
            Err(e) => {
                mon.check("C16", "matrix_complete", false, || format!("hub does not build: {e}"));
                return;
            }
        };
        let mut n = 0u64;
        for c in variants::CONTRACTS {
            for v in variants::full_names(c) {
                for seed in 0..4u64 {
                    let mut cx = payloads::Ctx { hub: &h, sender: &h.u, rng: Rng::new(seed), canon: seed == 0 };
                    let p = payloads::build(c, &v, &mut cx);
                    let ok = p.as_ref().map(|p| p.name == v).unwrap_or(false);
                    mon.check_tag("C16", "matrix_complete", &format!("{c}:{v}"), ok, || {
                        format!("no payload / wrong variant for {c} {v}: got {:?}", p.as_ref().map(|p| p.name.clone()))
                    });
                }
                n += 1;
            }
        }
        // constants of the enumeration, written into the key (the check sums counters over shards)
        mon.stat(&format!(
            "matrix: {} contracts, {} ExecuteMsg variants ({} with Receive/Callback sub-variants), {} roles, {} phases = {} cells per pass [shards reporting]",
            variants::CONTRACTS.len(),
            variants::top_level_count(),
            n,
            roles().len(),
            PHASES.len(),
            self.matrix.len()
        ));
    }
}

fn report(
    reported: &mut std::collections::BTreeSet<(String, String)>,
    mon: &mut Monitor,
    monitor: &str,
    tag: &str,
    ok: bool,
    what: impl FnOnce() -> String,
) {
    if !ok {
        mon.stat(&format!("failing:{monitor}:{tag}"));
    }
    let first = ok || reported.insert((monitor.to_string(), tag.to_string()));
    mon.check_tag("C16", monitor, tag, ok || !first, what);
}

fn describe_diff(a: &[(String, Vec<(Vec<u8>, Vec<u8>)>)], b: &[(String, Vec<(Vec<u8>, Vec<u8>)>)]) -> String {
    let mut out = vec![];
    for ((na, ra), (_, rb)) in a.iter().zip(b.iter()) {
        if ra != rb {
            let changed: Vec<String> = rb
                .iter()
                .filter(|kv| !ra.contains(kv))
                .take(3)
                .map(|(k, v)| format!("{}={}", String::from_utf8_lossy(k), String::from_utf8_lossy(v).chars().take(80).collect::<String>()))
                .collect();
            out.push(format!("{na} [{}]", changed.join("; ")));
        }
    }
    if a.len() != b.len() {
        out.push("contract set changed".into());
    }
    out.join(" | ")
}

impl Engine for AuthMatrix {
    fn exec(&mut self, line: &str, mon: &mut Monitor) -> String {
        // every op line is its own case: the replay of a failure is the single line
        mon.case = self.op_counter;
        mon.step = 0;
        self.op_counter += 1;
        self.self_check(mon);
        let ws: Vec<&str> = line.split_whitespace().collect();
        if ws.len() != 6 || ws[0] != "auth" {
            return "bad-op".into();
        }
        let (contract, variant, role, phase) = (ws[1], ws[2], ws[3], ws[4]);
        let seed: u64 = match ws[5].parse() {
            Ok(s) => s,
            Err(_) => return "bad-op".into(),
        };
        if !variants::CONTRACTS.contains(&contract) || !roles().iter().any(|r| r == role) || !PHASES.contains(&phase) {
            return "bad-op".into();
        }
        if !variants::full_names(contract).iter().any(|n| n == variant) {
            return "bad-op".into();
        }
        let after = phase == "after";
        let tag = format!("{contract}:{variant}");
        let mut reported = std::mem::take(&mut self.reported);
        let h = match self.hub(after, mon) {
            Ok(h) => h,
            Err(e) => {
                mon.check("C16", "matrix_complete", false, || format!("hub does not build: {e}"));
                return "bad-op".into();
            }
        };
        let sender = h.role_addr(contract, role).unwrap();
        let target = h.target(contract);
        let p = {
            let mut cx = payloads::Ctx { hub: h, sender: &sender, rng: Rng::new(seed), canon: seed == 0 };
            match payloads::build(contract, variant, &mut cx) {
                Some(p) => p,
                None => return "bad-op".into(),
            }
        };
        let before = h.dump();
        let msg = WasmMsg::Execute { contract_addr: target.to_string(), msg: p.msg.clone(), funds: p.funds.clone() };
        let res = catch_unwind(AssertUnwindSafe(|| {
            h.app.execute(sender.clone(), msg.into()).map(|_| ()).map_err(|e| {
                let chain: Vec<String> = e.chain().map(|c| c.to_string()).collect();
                let depth = chain.iter().filter(|c| c.starts_with("error executing WasmMsg")).count();
                (depth, chain.last().cloned().unwrap_or_default())
            })
        }));
        let (class, errtext) = match res {
            Ok(Ok(())) => (Class::Ok, String::new()),
            Ok(Err((depth, root))) => {
                if is_auth_text(&root) {
                    if depth <= 1 {
                        (Class::Unauth, root)
                    } else {
                        (Class::NestedUnauth, root)
                    }
                } else {
                    (Class::Other, root)
                }
            }
            Err(e) => {
                let m = e.downcast_ref::<String>().cloned().or_else(|| e.downcast_ref::<&str>().map(|s| s.to_string())).unwrap_or_default();
                (Class::Panic, format!("panic: {m}"))
            }
        };
        let failed = class != Class::Ok;
        if std::env::var("AUTH_DEBUG").is_ok() {
            eprintln!("{line} => {class:?} {errtext}");
        }
        let after_dump = catch_unwind(AssertUnwindSafe(|| h.dump())).unwrap_or_default();
        let mut unchanged = after_dump == before;

        // ---- monitors (spec table, real observations)
        let rule = spec_rule(contract, variant);
        let authorised = rule.map(|r| spec_authorised(h, r, contract, &sender, after)).unwrap_or(true);
        let what = |s: &str| {
            format!(
                "{s}: {contract}::{variant} called by role {role} ({sender}) in phase {phase}, payload seed {seed}: outcome {class:?} {}",
                errtext.chars().take(160).collect::<String>()
            )
        };
        if let Some(_r) = rule {
            if !authorised {
                report(&mut reported, mon, "unauthorised_rejected", &tag, failed, || {
                    what("privileged call by a sender that is not the designated one SUCCEEDED")
                });
            }
        }
        if failed {
            report(&mut reported, mon, "rejected_unchanged", &tag, unchanged, || {
                what(&format!("rejected call changed state [{}]", describe_diff(&before, &after_dump)))
            });
        }
        if authorised {
            report(&mut reported, mon, "authorised_not_blocked", &tag, class != Class::Unauth, || {
                what("designated sender / permissionless entry point was refused as unauthorised")
            });
        }
        if after && rule == Some(Spec::Owner) && OWNED.contains(&contract) {
            if sender == h.o {
                report(&mut reported, mon, "ownership_transfer", &tag, failed, || what("the PREVIOUS owner is still accepted after the transfer"));
            }
            if sender == h.n {
                report(&mut reported, mon, "ownership_transfer", &tag, class != Class::Unauth, || {
                    what("the NEW owner is refused after the transfer")
                });
            }
        }
        if !after && rule == Some(Spec::Owner) && OWNED.contains(&contract) && sender == h.n {
            report(&mut reported, mon, "ownership_transfer", &tag, failed, || what("the future owner is accepted BEFORE the transfer"));
        }
        if class == Class::Panic {
            // a panic aborts the transaction like an error does; it happens past the sender check, so for C16 it
            // counts as "admitted, failed later". Recorded for the properties that own the arithmetic.
            mon.stat(&format!("panicked:{tag}"));
        }

        // ---- stats: input distribution / what the matrix exercised
        mon.stat(&format!("outcome:{class:?}"));
        mon.stat(&format!("phase:{phase}"));
        mon.stat(&format!("role:{role}"));
        mon.stat(if rule.is_some() { "cell:privileged" } else { "cell:permissionless" });
        if rule.is_some() {
            mon.stat(if authorised { "privileged:designated_sender" } else { "privileged:other_sender" });
            if authorised && class == Class::Ok {
                mon.stat(&format!("designated_ok:{tag}"));
            }
        }
        if class == Class::Ok {
            mon.stat(&format!("succeeded:{tag}"));
        }
        if seed == 0 {
            mon.stat("payload:canonical");
        } else {
            mon.stat("payload:randomised");
        }

        // a call that changed anything (or panicked) spoils the cached hub: rebuild it for the next op
        if class == Class::Panic {
            unchanged = false; // never reuse an App that unwound
        }
        if !unchanged {
            self.hubs[after as usize] = None;
        }
        self.reported = reported;
        let (tok, nested, real) = match class {
            Class::Ok => ("ok", 0, "ok"),
            Class::Other => ("ok", 0, "other"),
            Class::NestedUnauth => ("ok", 1, "nested_unauth"),
            Class::Unauth => ("err", 0, "unauth"),
            Class::Panic => ("ok", 0, "panic"),
        };
        format!("{tok} nested={nested} real={real}")
    }

    fn next_op(&mut self, rng: &mut Rng, step: u64) -> Option<String> {
        let (c, v, r, p) = self.matrix.get(step as usize)?;
        let seed = if self.canon { 0 } else { 1 + rng.below(1_000_000_000) };
        Some(format!("auth {c} {v} {r} {p} {seed}"))
    }
}
