//! C16 — authorisation matrix on the real contracts.
//!
//! Op line (self-contained, stateless):  `auth <contract> <Variant> <role> <phase> <payload-seed> [<object>]`
//!   phase `before` = hub as instantiated; `after` = every configured owner handed to `newowner`;
//!         `inloan` = hub as instantiated, and the call is made from INSIDE a flash-loan callback of the hub's
//!         vault (LOAN_COUNTER = 1, loaned coins out), with the role's address as the sender of the nested call
//!         (hub.rs: borrower mock + Injector module). Transient state must not change who is admitted.
//!   seed 0 = canonical payload, anything else seeds the payload randomiser.
//!   <object> (7th token, only for variants listed in `variants::objects`): WHICH stored object the message
//!         names when the designated sender depends on stored data — incentive CloseFlow: `id1..id4`, `id9`
//!         (no such flow), `labShared`, `labLate`; the hub holds four flows of two creators whose labels
//!         collide (hub::FLOW_WORLD), and roles `flowCreator` / `otherFlowCreator`.
//! Observation:  `ok|err nested=<0|1> real=<ok|other|unauth|nested_unauth|panic|reverted>`
//!   `err`      the call was refused by the TARGET's own sender check (handler error of the called contract whose
//!              text is the contract's unauthorised error — the only place an error text is looked at);
//!   `ok`       the sender got past the target's check (the call succeeded, or failed later for another reason;
//!              a panic past the sender check = `real=panic`; `real=reverted` = the nested call of an `inloan`
//!              cell succeeded but the enclosing loan transaction failed afterwards);
//!   `nested=1` a contract the target called as itself refused the target (e.g. factory -> transferred pair,
//!              vault router -> vault with a loan in flight).
//!   `bad-loan` the in-loan scaffold itself did not work (never expected; also fails monitor inloan_scaffold).
//! The model (lean/WW/Model/Auth.lean) predicts the first token and `nested`; `real=` is informative.
//!
//! One generated "case" is ONE FULL PASS over  every ExecuteMsg variant of all 15 contracts (wildcard-free
//! tables in `variants.rs`; one cell per object selector where a variant names a stored object) x every role x
//! {before, after, inloan}. Engine variant "canon" uses seed 0 throughout.
//!
//! Monitors (property as stated, evaluated against an independent spec table, not the model):
//!   unauthorised_rejected   privileged variant /\ role not designated  =>  the call fails (in every phase: a loan in
//!                           flight admits nobody new); for a call that names a stored object: whatever object
//!                           was removed, the sender was its creator or the factory owner
//!   rejected_unchanged      failed call => raw storage of ALL contracts + all balances byte-identical (inloan: the
//!                           loan around a refused nested call completes and leaves no trace either)
//!   authorised_not_blocked  permissionless variant or designated role   =>  not refused as unauthorised
//!                           (except vault FlashLoan inside a loan: nested loans are refused for everybody)
//!   close_flow_exact        a successful CloseFlow removes exactly ONE flow, one that the identifier names; every
//!                           other flow (the other creator's in particular) is byte-identical; the remainder is
//!                           paid to the removed flow's creator and to nobody else
//!   inloan_scaffold         the in-loan scaffold works: a loan without nested call succeeds and is state-neutral;
//!                           the nested call is dispatched; a refused nested call does not fail the loan
//!   ownership_transfer      after UpdateConfig{owner:=new}: old owner refused, new owner admitted, on every
//!                           owner-guarded variant of every contract with an owner (+ the transfer calls succeed)
//!   matrix_complete         the pass enumerates every name of the compile-time tables and every payload
//!                           builder yields exactly the variant it was asked for
mod hub;
mod payloads;
mod variants;

use crate::common::{Engine, Monitor, Rng};
use cosmwasm_std::{Addr, Uint128, WasmMsg};
use cw_multi_test::Executor;
use hub::{Hub, InjectMsg, InnerOutcome};
use std::panic::{catch_unwind, AssertUnwindSafe};
use white_whale_std::pool_network::incentive as inc;

/// roles relative to the target contract (the property's vocabulary) …
pub const REL_ROLES: [&str; 17] = [
    "owner",
    "newOwner",
    "user",
    "wasmAdmin",
    "flowCreator",
    "self",
    "factory",
    "sibling",
    "feeDistributor",
    "registeredVault",
    "minter",
    "lpToken",
    "assetToken",
    "trioLp",
    "vaultLp",
    // owner of OTHER stored objects of the same kind (flows 2 and 4, sharing their labels with flows 1 and 3)
    "otherFlowCreator",
    // the borrower mock contract itself (the realistic sender of a call nested in a flash loan)
    "borrower",
];
/// … plus EVERY hub contract as a caller (`c:<contract>`): "sibling" is not a sample
pub fn roles() -> Vec<String> {
    let mut r: Vec<String> = REL_ROLES.iter().map(|s| s.to_string()).collect();
    r.extend(variants::CONTRACTS.iter().map(|c| format!("c:{c}")));
    r
}
pub const PHASES: [&str; 3] = ["before", "after", "inloan"];

/// what the property statement demands of the sender (independent of the Lean table)
#[derive(Clone, Copy, Debug, PartialEq)]
enum Spec {
    Owner,
    SelfOnly,
    WasmAdmin,
    Minter,
    Nobody,
    FeeDistributor,
    RegisteredVault,
    LpToken,
    PoolAssetToken,
    FlowCreatorOrFactoryOwner,
}

/// Privileged operations per the property text: configuration changes, pool / vault / incentive creation and
/// removal, migrations of children, route management, hook management, fee and toggle updates => owner (children:
/// their factory, i.e. the configured owner); internal callbacks => the designated contract; cw20 hooks => the
/// token concerned; cw20 minting => the minter. Everything else is permissionless.
fn spec_rule(contract: &str, variant: &str) -> Option<Spec> {
    use Spec::*;
    match (contract, variant) {
        ("terraswap_factory", _) | ("incentive_factory", _) | ("vault_factory", _) => Some(Owner),
        ("terraswap_pair", "UpdateConfig") | ("stableswap_3pool", "UpdateConfig") => Some(Owner),
        ("terraswap_pair", "Receive.Swap") | ("stableswap_3pool", "Receive.Swap") => Some(PoolAssetToken),
        ("terraswap_pair", "Receive.WithdrawLiquidity") | ("stableswap_3pool", "Receive.WithdrawLiquidity") => Some(LpToken),
        ("terraswap_router", "ExecuteSwapOperation") => Some(SelfOnly),
        ("terraswap_router", "AssertMinimumReceive") => Some(SelfOnly),
        ("terraswap_router", "AddSwapRoutes") | ("terraswap_router", "RemoveSwapRoutes") => Some(WasmAdmin),
        ("terraswap_token", "Mint") | ("terraswap_token", "UpdateMinter") => Some(Minter),
        ("terraswap_token", "UpdateMarketing") | ("terraswap_token", "UploadLogo") => Some(Nobody),
        ("incentive", "CloseFlow") => Some(FlowCreatorOrFactoryOwner),
        ("frontend_helper", "UpdateConfig") => Some(Owner),
        ("vault", "UpdateConfig") => Some(Owner),
        ("vault", "Receive.Withdraw") => Some(LpToken),
        ("vault", "Callback.AfterTrade") => Some(SelfOnly),
        ("vault_router", "UpdateConfig") => Some(Owner),
        ("vault_router", "NextLoan") => Some(RegisteredVault),
        ("vault_router", "CompleteLoan") => Some(SelfOnly),
        ("fee_collector", "UpdateConfig") => Some(Owner),
        ("fee_collector", "ForwardFees") => Some(FeeDistributor),
        ("fee_distributor", "UpdateConfig") => Some(Owner),
        ("whale_lair", "UpdateConfig") => Some(Owner),
        ("epoch_manager", "AddHook") | ("epoch_manager", "RemoveHook") | ("epoch_manager", "UpdateConfig") => Some(Owner),
        _ => None,
    }
}

/// Entry points that a vault refuses for EVERY sender while one of its loans is in flight, reporting it with its
/// `Unauthorized` error (nested loans, property C06). Not a C16 clause; needed so that `authorised_not_blocked`
/// does not take that refusal for a sender check.
fn spec_refused_in_loan(contract: &str, variant: &str) -> bool {
    matches!((contract, variant), ("vault", "FlashLoan"))
}

/// contracts that store a transferable owner
const OWNED: [&str; 12] = [
    "terraswap_factory",
    "terraswap_pair",
    "stableswap_3pool",
    "incentive_factory",
    "frontend_helper",
    "vault_factory",
    "vault",
    "vault_router",
    "fee_collector",
    "fee_distributor",
    "whale_lair",
    "epoch_manager",
];

fn expected_owner(h: &Hub, contract: &str, after: bool) -> Addr {
    if after {
        return h.n.clone();
    }
    match contract {
        "terraswap_pair" | "stableswap_3pool" => h.pool_factory.clone(),
        "vault" => h.vault_factory.clone(),
        _ => h.o.clone(),
    }
}

/// is the sender the designated one? `ByOutcome`: the message names a stored object ambiguously (a label carried
/// by objects of several owners, the sender owning some of them) — then the property is evaluated on what the
/// call actually did (whatever was removed must have been the sender's).
#[derive(Clone, Copy, Debug, PartialEq)]
enum Designated {
    Yes,
    No,
    ByOutcome,
}

fn flow_matches(fl: &inc::Flow, id: &inc::FlowIdentifier) -> bool {
    match id {
        inc::FlowIdentifier::Id(i) => fl.flow_id == *i,
        inc::FlowIdentifier::Label(l) => fl.flow_label.as_ref() == Some(l),
    }
}

fn spec_designated(h: &Hub, rule: Spec, contract: &str, sender: &Addr, after: bool, object: Option<&str>, flows: &[inc::Flow]) -> Designated {
    let yes = |b: bool| if b { Designated::Yes } else { Designated::No };
    match rule {
        Spec::Owner => yes(*sender == expected_owner(h, contract, after)),
        Spec::SelfOnly => yes(*sender == h.target(contract)),
        Spec::WasmAdmin => yes(*sender == h.a),
        Spec::Minter => yes(*sender == h.pair),
        Spec::Nobody => Designated::No,
        Spec::FeeDistributor => yes(*sender == h.distributor),
        Spec::RegisteredVault => yes(*sender == h.vault),
        Spec::LpToken => yes(*sender == h.lp_of(contract)),
        Spec::PoolAssetToken => yes(*sender == h.asset_token),
        Spec::FlowCreatorOrFactoryOwner => {
            if *sender == expected_owner(h, "incentive_factory", after) {
                return Designated::Yes;
            }
            let Some(id) = object.and_then(hub::flow_identifier) else { return Designated::No };
            let named: Vec<&inc::Flow> = flows.iter().filter(|fl| flow_matches(fl, &id)).collect();
            let own = named.iter().filter(|fl| fl.flow_creator == *sender).count();
            if own == 0 {
                Designated::No
            } else if own == named.len() {
                Designated::Yes
            } else {
                Designated::ByOutcome
            }
        }
    }
}

/// the contracts' "not authorised" errors (Display text of the error variant); used ONLY to classify
fn is_auth_text(t: &str) -> bool {
    let l = t.to_lowercase();
    l.contains("unauthorized")                                         // ContractError::Unauthorized, StdError "unauthorized"
        || l.contains("sender is not authorized")                      // incentive_factory / frontend_helper ContractError::Unauthorized
        || l.contains("caller is not admin")                           // cw_controllers::AdminError::NotAdmin (epoch-manager)
        || l.contains("attempt to call callback function outside contract") // VaultError::ExternalCallback
        || l.contains("account not permitted to close flow") // incentive UnauthorizedFlowClose
}

#[derive(Debug, PartialEq, Clone, Copy)]
enum Class {
    Ok,
    Unauth,
    NestedUnauth,
    Other,
    Panic,
    /// inloan only: the nested call succeeded, the enclosing loan transaction failed afterwards
    Reverted,
    /// inloan only: the scaffold did not behave (no nested call dispatched / loan failed around a refused call)
    BadLoan,
}

fn classify_err(depth: usize, root: &str) -> Class {
    if is_auth_text(root) {
        if depth <= 1 {
            Class::Unauth
        } else {
            Class::NestedUnauth
        }
    } else {
        Class::Other
    }
}

type Cell = (String, String, String, String, Option<String>);

pub struct AuthMatrix {
    canon: bool,
    matrix: Vec<Cell>,
    /// [genesis ownership (phases before, inloan), after the transfer]
    hubs: [Option<Hub>; 2],
    op_counter: u64,
    self_checked: bool,
    scaffold_checked: bool,
    /// (monitor, tag) already reported: a failing cell is reported once, later repeats are only counted
    /// (the Monitor keeps at most 200 failures; the known finding must not crowd out a new one)
    reported: std::collections::BTreeSet<(String, String)>,
}

/// `[None]` for a variant that names no stored object, else one entry per object selector
fn object_cells(contract: &str, variant: &str) -> Vec<Option<String>> {
    let o = variants::objects(contract, variant);
    if o.is_empty() {
        vec![None]
    } else {
        o.iter().map(|s| Some(s.to_string())).collect()
    }
}

impl AuthMatrix {
    pub fn new(variant: &str) -> Self {
        let mut matrix = vec![];
        for phase in PHASES {
            for c in variants::CONTRACTS {
                for v in variants::full_names(c) {
                    for obj in object_cells(c, &v) {
                        for r in roles() {
                            matrix.push((c.to_string(), v.clone(), r, phase.to_string(), obj.clone()));
                        }
                    }
                }
            }
        }
        AuthMatrix {
            canon: variant == "canon",
            matrix,
            hubs: [None, None],
            op_counter: 0,
            self_checked: false,
            scaffold_checked: false,
            reported: Default::default(),
        }
    }

    fn hub(&mut self, after: bool, mon: &mut Monitor) -> Result<&mut Hub, String> {
        let i = after as usize;
        if self.hubs[i].is_none() {
            mon.stat("hub_builds");
            let mut h = Hub::build()?;
            if after {
                let rich = !self.canon;
                for (contract, r) in h.transfer_ownership(rich) {
                    mon.check_tag("C16", "ownership_transfer", &format!("{contract}:transfer"), r.is_ok(), || {
                        format!("the genesis owner's ownership transfer of {contract} failed: {r:?}")
                    });
                }
            }
            self.hubs[i] = Some(h);
        }
        Ok(self.hubs[i].as_mut().unwrap())
    }

    /// every name of the compile-time tables has a payload builder that yields exactly that variant
    fn self_check(&mut self, mon: &mut Monitor) {
        if self.self_checked {
            return;
        }
        self.self_checked = true;
        let h = match Hub::build() {
            Ok(h) => h,
            Err(e) => {
                mon.check("C16", "matrix_complete", false, || format!("hub does not build: {e}"));
                return;
            }
        };
        let mut n = 0u64;
        let mut n_obj = 0u64;
        for c in variants::CONTRACTS {
            for v in variants::full_names(c) {
                let cells = object_cells(c, &v);
                for obj in &cells {
                    for seed in 0..4u64 {
                        let mut cx = payloads::Ctx { hub: &h, sender: &h.u, rng: Rng::new(seed), canon: seed == 0, object: obj.as_deref(), inloan: false };
                        let p = payloads::build(c, &v, &mut cx);
                        let ok = p.as_ref().map(|p| p.name == v).unwrap_or(false);
                        mon.check_tag("C16", "matrix_complete", &format!("{c}:{v}"), ok, || {
                            format!("no payload / wrong variant for {c} {v} {obj:?}: got {:?}", p.as_ref().map(|p| p.name.clone()))
                        });
                    }
                }
                n += 1;
                n_obj += cells.len() as u64;
            }
        }
        // constants of the enumeration, written into the key (the check sums counters over shards)
        mon.stat(&format!(
            "matrix: {} contracts, {} ExecuteMsg variants ({} with Receive/Callback sub-variants, {} with one cell per named object), {} roles, {} phases = {} cells per pass [shards reporting]",
            variants::CONTRACTS.len(),
            variants::top_level_count(),
            n,
            n_obj,
            roles().len(),
            PHASES.len(),
            self.matrix.len()
        ));
    }

    /// a loan WITHOUT nested call succeeds and leaves every contract and balance byte-identical
    fn scaffold_check(&mut self, mon: &mut Monitor) {
        if self.scaffold_checked {
            return;
        }
        self.scaffold_checked = true;
        let res = match self.hub(false, mon) {
            Ok(h) => {
                let before = h.dump();
                let r = catch_unwind(AssertUnwindSafe(|| h.loan_with(None)));
                let after = catch_unwind(AssertUnwindSafe(|| h.dump())).unwrap_or_default();
                match r {
                    Ok((None, Ok(()))) if after == before => Ok(()),
                    Ok((None, Ok(()))) => Err(format!("a loan without nested call changed state [{}]", describe_diff(&before, &after))),
                    Ok(other) => Err(format!("a loan without nested call did not complete: {other:?}")),
                    Err(_) => Err("a loan without nested call panicked".to_string()),
                }
            }
            Err(e) => Err(format!("hub does not build: {e}")),
        };
        if res.is_err() {
            self.hubs[0] = None;
        }
        mon.check_tag("C16", "inloan_scaffold", "empty_loan", res.is_ok(), || res.clone().unwrap_err());
    }
}

fn report(
    reported: &mut std::collections::BTreeSet<(String, String)>,
    mon: &mut Monitor,
    monitor: &str,
    tag: &str,
    ok: bool,
    what: impl FnOnce() -> String,
) {
    if !ok {
        mon.stat(&format!("failing:{monitor}:{tag}"));
    }
    let first = ok || reported.insert((monitor.to_string(), tag.to_string()));
    mon.check_tag("C16", monitor, tag, ok || !first, what);
}

fn describe_diff(a: &[(String, Vec<(Vec<u8>, Vec<u8>)>)], b: &[(String, Vec<(Vec<u8>, Vec<u8>)>)]) -> String {
    let mut out = vec![];
    for ((na, ra), (_, rb)) in a.iter().zip(b.iter()) {
        if ra != rb {
            let changed: Vec<String> = rb
                .iter()
                .filter(|kv| !ra.contains(kv))
                .take(3)
                .map(|(k, v)| format!("{}={}", String::from_utf8_lossy(k), String::from_utf8_lossy(v).chars().take(80).collect::<String>()))
                .collect();
            let gone = ra.iter().filter(|(k, _)| !rb.iter().any(|(k2, _)| k2 == k)).count();
            out.push(format!("{na} [{}{}]", changed.join("; "), if gone > 0 { format!("; {gone} key(s) removed") } else { String::new() }));
        }
    }
    if a.len() != b.len() {
        out.push("contract set changed".into());
    }
    out.join(" | ")
}

fn panic_text(e: Box<dyn std::any::Any + Send>) -> String {
    e.downcast_ref::<String>().cloned().or_else(|| e.downcast_ref::<&str>().map(|s| s.to_string())).unwrap_or_default()
}

impl Engine for AuthMatrix {
    fn exec(&mut self, line: &str, mon: &mut Monitor) -> String {
        // every op line is its own case: the replay of a failure is the single line
        mon.case = self.op_counter;
        mon.step = 0;
        self.op_counter += 1;
        self.self_check(mon);
        let ws: Vec<&str> = line.split_whitespace().collect();
        if !(ws.len() == 6 || ws.len() == 7) || ws[0] != "auth" {
            return "bad-op".into();
        }
        let (contract, variant, role, phase) = (ws[1], ws[2], ws[3], ws[4]);
        let object: Option<&str> = ws.get(6).copied();
        let seed: u64 = match ws[5].parse() {
            Ok(s) => s,
            Err(_) => return "bad-op".into(),
        };
        if !variants::CONTRACTS.contains(&contract) || !roles().iter().any(|r| r == role) || !PHASES.contains(&phase) {
            return "bad-op".into();
        }
        if !variants::full_names(contract).iter().any(|n| n == variant) {
            return "bad-op".into();
        }
        // the object token is present exactly for the variants that name a stored object, and is a known selector
        let selectors = variants::objects(contract, variant);
        match object {
            None if !selectors.is_empty() => return "bad-op".into(),
            Some(o) if !selectors.contains(&o) => return "bad-op".into(),
            _ => {}
        }
        let after = phase == "after";
        let inloan = phase == "inloan";
        if inloan {
            self.scaffold_check(mon);
        }
        let tag = format!("{contract}:{variant}");
        let mut reported = std::mem::take(&mut self.reported);
        let h = match self.hub(after, mon) {
            Ok(h) => h,
            Err(e) => {
                mon.check("C16", "matrix_complete", false, || format!("hub does not build: {e}"));
                self.reported = reported;
                return "bad-op".into();
            }
        };
        let sender = h.role_addr(contract, role).unwrap();
        let target = h.target(contract);
        let p = {
            let mut cx = payloads::Ctx { hub: h, sender: &sender, rng: Rng::new(seed), canon: seed == 0, object, inloan };
            match payloads::build(contract, variant, &mut cx) {
                Some(p) => p,
                None => {
                    self.reported = reported;
                    return "bad-op".into();
                }
            }
        };
        let before = h.dump();
        let is_close_flow = contract == "incentive" && variant == "CloseFlow";
        let flows_before = if is_close_flow { h.flows() } else { vec![] };
        let flow_denom = "uusdc";
        let bal = |h: &Hub, a: &Addr| h.app.wrap().query_balance(a, flow_denom).map(|c| c.amount).unwrap_or_default();
        let bals_before = if is_close_flow { vec![bal(h, &h.incentive), bal(h, &h.f), bal(h, &h.g)] } else { vec![] };

        // ---- the call: at top level, or nested in a flash loan of the hub's vault
        let res: Result<(Class, String), Box<dyn std::any::Any + Send>> = if !inloan {
            let msg = WasmMsg::Execute { contract_addr: target.to_string(), msg: p.msg.clone(), funds: p.funds.clone() };
            catch_unwind(AssertUnwindSafe(|| match h.app.execute(sender.clone(), msg.into()) {
                Ok(_) => (Class::Ok, String::new()),
                Err(e) => {
                    let (depth, root) = hub::error_depth_and_root(&e);
                    (classify_err(depth, &root), root)
                }
            }))
        } else {
            let inner = InjectMsg { sender: sender.to_string(), contract_addr: target.to_string(), msg: p.msg.clone(), funds: p.funds.clone() };
            catch_unwind(AssertUnwindSafe(|| match h.loan_with(Some(inner)) {
                (Some(InnerOutcome::Ok), Ok(())) => (Class::Ok, String::new()),
                (Some(InnerOutcome::Ok), Err((_, root))) => (Class::Reverted, format!("nested call ok; loan then failed: {root}")),
                (Some(InnerOutcome::Err(depth, root)), Ok(())) => (classify_err(depth, &root), root),
                (Some(InnerOutcome::Err(_, root)), Err((_, outer))) => {
                    (Class::BadLoan, format!("nested call refused ({root}) and the loan around it failed: {outer}"))
                }
                (None, outer) => (Class::BadLoan, format!("the nested call was never dispatched; loan result {outer:?}")),
            }))
        };
        let (class, errtext) = match res {
            Ok(x) => x,
            Err(e) => (Class::Panic, format!("panic: {}", panic_text(e))),
        };
        // `admitted`: the target ran the operation for this sender (whatever became of the enclosing transaction)
        let admitted = matches!(class, Class::Ok | Class::Reverted);
        let failed = !admitted;
        if std::env::var("AUTH_DEBUG").is_ok() {
            eprintln!("{line} => {class:?} {errtext}");
        }
        let after_dump = catch_unwind(AssertUnwindSafe(|| h.dump())).unwrap_or_default();
        let mut unchanged = after_dump == before;

        // ---- monitors (spec table, real observations)
        let rule = spec_rule(contract, variant);
        let designated = rule.map(|r| spec_designated(h, r, contract, &sender, after, object, &flows_before)).unwrap_or(Designated::Yes);
        let refused_in_loan = inloan && spec_refused_in_loan(contract, variant);
        let what = |s: &str| {
            format!(
                "{s}: {contract}::{variant}{} called by role {role} ({sender}) in phase {phase}, payload seed {seed}: outcome {class:?} {}",
                object.map(|o| format!("[{o}]")).unwrap_or_default(),
                errtext.chars().take(200).collect::<String>()
            )
        };
        if class == Class::BadLoan {
            report(&mut reported, mon, "inloan_scaffold", &tag, false, || what("the in-loan scaffold did not work"));
        } else if inloan {
            report(&mut reported, mon, "inloan_scaffold", &tag, true, String::new);
        }
        if rule.is_some() && designated == Designated::No && class != Class::BadLoan {
            report(&mut reported, mon, "unauthorised_rejected", &tag, failed, || {
                what("privileged call by a sender that is not the designated one SUCCEEDED")
            });
        }
        if class != Class::Ok && class != Class::BadLoan {
            report(&mut reported, mon, "rejected_unchanged", &tag, unchanged, || {
                what(&format!("rejected call changed state [{}]", describe_diff(&before, &after_dump)))
            });
        }
        if designated == Designated::Yes && !refused_in_loan {
            report(&mut reported, mon, "authorised_not_blocked", &tag, class != Class::Unauth, || {
                what("designated sender / permissionless entry point was refused as unauthorised")
            });
        }
        if refused_in_loan {
            mon.stat(if failed { "inloan:nested_loan_refused" } else { "inloan:nested_loan_NOT_refused" });
        }
        if after && rule == Some(Spec::Owner) && OWNED.contains(&contract) {
            if sender == h.o {
                report(&mut reported, mon, "ownership_transfer", &tag, failed, || what("the PREVIOUS owner is still accepted after the transfer"));
            }
            if sender == h.n {
                report(&mut reported, mon, "ownership_transfer", &tag, class != Class::Unauth, || {
                    what("the NEW owner is refused after the transfer")
                });
            }
        }
        if !after && rule == Some(Spec::Owner) && OWNED.contains(&contract) && sender == h.n && class != Class::BadLoan {
            report(&mut reported, mon, "ownership_transfer", &tag, failed, || what("the future owner is accepted BEFORE the transfer"));
        }
        // ---- a call that names a stored object: WHICH object was touched, and whose was it
        if is_close_flow && class == Class::Ok {
            let flows_after = catch_unwind(AssertUnwindSafe(|| h.flows())).unwrap_or_default();
            let removed: Vec<&inc::Flow> = flows_before.iter().filter(|b| !flows_after.iter().any(|a| a.flow_id == b.flow_id)).collect();
            let factory_owner = expected_owner(h, "incentive_factory", after);
            let show = |fl: &inc::Flow| format!("flow {} (label {:?}, creator {})", fl.flow_id, fl.flow_label, fl.flow_creator);
            let removed_txt = removed.iter().map(|fl| show(fl)).collect::<Vec<_>>().join(", ");
            // the property, on what the call did: every flow that was removed belonged to the sender (or the
            // sender is the incentive factory's owner)
            let rightful = sender == factory_owner || removed.iter().all(|fl| fl.flow_creator == sender);
            report(&mut reported, mon, "unauthorised_rejected", &tag, rightful, || {
                what(&format!("CloseFlow by a sender that is neither the creator of the flow it closed nor the factory owner SUCCEEDED; closed: {removed_txt}"))
            });
            let id = object.and_then(hub::flow_identifier);
            let named_ok = removed.len() == 1 && id.as_ref().map(|id| flow_matches(removed[0], id)).unwrap_or(false);
            let others_same = flows_before
                .iter()
                .filter(|b| !removed.iter().any(|r| r.flow_id == b.flow_id))
                .all(|b| flows_after.iter().any(|a| a == b))
                && flows_after.len() + removed.len() == flows_before.len();
            let bals_after = vec![bal(h, &h.incentive), bal(h, &h.f), bal(h, &h.g)];
            let paid = |i: usize| bals_after[i].checked_sub(bals_before[i]).unwrap_or(Uint128::MAX);
            let lost = bals_before[0].checked_sub(bals_after[0]).unwrap_or(Uint128::MAX);
            let refund_ok = removed.len() == 1 && {
                let (to_f, to_g) = (paid(1), paid(2));
                if removed[0].flow_creator == h.f {
                    to_f == lost && to_g.is_zero() && !lost.is_zero()
                } else {
                    to_g == lost && to_f.is_zero() && !lost.is_zero()
                }
            };
            report(&mut reported, mon, "close_flow_exact", &tag, named_ok && others_same && refund_ok, || {
                what(&format!(
                    "a successful CloseFlow must remove exactly the one flow it names, leave every other flow untouched and pay the remainder to that flow's creator; removed: [{removed_txt}], other flows untouched: {others_same}, remainder to its creator only: {refund_ok}"
                ))
            });
            for fl in &removed {
                mon.stat(&format!("closeflow:closed:flow{}:{}", fl.flow_id, object.unwrap_or("-")));
            }
        }
        if class == Class::Panic {
            // a panic aborts the transaction like an error does; it happens past the sender check, so for C16 it
            // counts as "admitted, failed later". Recorded for the properties that own the arithmetic.
            mon.stat(&format!("panicked:{tag}"));
        }

        // ---- stats: input distribution / what the matrix exercised
        mon.stat(&format!("outcome:{class:?}"));
        mon.stat(&format!("phase:{phase}"));
        mon.stat(&format!("role:{role}"));
        if inloan {
            mon.stat(&format!("inloan:{class:?}"));
        }
        if let Some(o) = object {
            mon.stat(&format!("object:{contract}:{variant}:{o}"));
            mon.stat(&format!("object_designation:{designated:?}"));
        }
        mon.stat(if rule.is_some() { "cell:privileged" } else { "cell:permissionless" });
        if rule.is_some() {
            mon.stat(if designated == Designated::No { "privileged:other_sender" } else { "privileged:designated_sender" });
            if designated != Designated::No && class == Class::Ok {
                mon.stat(&format!("designated_ok:{tag}"));
                if inloan {
                    mon.stat("inloan:designated_ok");
                }
            }
        }
        if class == Class::Ok {
            mon.stat(&format!("succeeded:{tag}"));
        }
        if seed == 0 {
            mon.stat("payload:canonical");
        } else {
            mon.stat("payload:randomised");
        }

        // a call that changed anything (or panicked) spoils the cached hub: rebuild it for the next op
        if class == Class::Panic || class == Class::BadLoan {
            unchanged = false; // never reuse an App that unwound
        }
        if !unchanged {
            self.hubs[after as usize] = None;
        }
        self.reported = reported;
        let (tok, nested, real) = match class {
            Class::Ok => ("ok", 0, "ok"),
            Class::Other => ("ok", 0, "other"),
            Class::NestedUnauth => ("ok", 1, "nested_unauth"),
            Class::Unauth => ("err", 0, "unauth"),
            Class::Panic => ("ok", 0, "panic"),
            Class::Reverted => ("ok", 0, "reverted"),
            Class::BadLoan => return "bad-loan".into(),
        };
        format!("{tok} nested={nested} real={real}")
    }

    fn next_op(&mut self, rng: &mut Rng, step: u64) -> Option<String> {
        let (c, v, r, p, obj) = self.matrix.get(step as usize)?;
        let seed = if self.canon { 0 } else { 1 + rng.below(1_000_000_000) };
        Some(match obj {
            Some(o) => format!("auth {c} {v} {r} {p} {seed} {o}"),
            None => format!("auth {c} {v} {r} {p} {seed}"),
        })
    }
}
