//! Engine `weight` (C13, pure clauses): the real `incentive::weight::calculate_weight` through the
//! cfg(wwcore_verif) hook. `call weight d a` and `call weight2 d1 a1 d2 a2` (two points for the
//! monotonicity monitors).
use crate::common::*;
use cosmwasm_std::Uint128;
use incentive::verif_hooks::calculate_weight;

const MIN_D: u64 = 86_400;
const MAX_D: u64 = 31_556_926;
const HALF_D: u64 = 15_778_463;

#[derive(Default)]
pub struct Weight {
    n: u64,
}

fn run(d: u128, a: u128) -> Outcome<u128> {
    if d > u64::MAX as u128 {
        return Outcome::Err("duration does not fit u64".into());
    }
    guarded(|| calculate_weight(d as u64, Uint128::new(a)).map(|w| w.u128()))
}

fn show(o: &Outcome<u128>) -> String {
    match o {
        Outcome::Ok(w) => format!("ok {w}"),
        Outcome::Err(_) => "err".into(),
        Outcome::Panic => "panic".into(),
    }
}

fn in_range(d: u128) -> bool {
    d >= MIN_D as u128 && d <= MAX_D as u128
}

/// C13 pure clauses on one point
fn monitor_point(mon: &mut Monitor, d: u128, a: u128, o: &Outcome<u128>) {
    let desc = || format!("weight {d} {a} -> {}", show(o));
    mon.check("C13", "weight_never_panics", !matches!(o, Outcome::Panic), desc);
    if !in_range(d) {
        mon.check("C13", "weight_rejects_out_of_range", matches!(o, Outcome::Err(_)), desc);
        mon.stat("weight_out_of_range");
        return;
    }
    match o {
        Outcome::Ok(w) => {
            mon.check("C13", "weight_ge_amount", *w >= a, desc);
            // the multiplier is at most 16 (+ rounding): weight <= 16*amount + 1 whenever that fits
            if let Some(b) = a.checked_mul(16) {
                mon.check("C13", "weight_le_16x", *w <= b.saturating_add(1), desc);
            }
            mon.stat("weight_ok");
            if *w > a {
                mon.stat("weight_gt_amount");
            }
        }
        Outcome::Err(_) => {
            // in range an error is only acceptable when the result does not fit 128 bits,
            // i.e. for amounts above 2^128/16.0000001
            mon.check("C13", "weight_err_only_on_overflow", a > u128::MAX / 17, desc);
            mon.stat("weight_err_overflow");
        }
        Outcome::Panic => {}
    }
}

fn dur(rng: &mut Rng) -> u128 {
    (match rng.below(12) {
        0 => MIN_D,
        1 => MAX_D,
        2 => HALF_D,
        3 => MIN_D + rng.below(3),
        4 => MAX_D - rng.below(3),
        5 => MIN_D - 1 - rng.below(2),
        6 => MAX_D + 1 + rng.below(2),
        7 => HALF_D - 2 + rng.below(5),
        8 => rng.range(0, 40_000_000),
        9 => 1_000_000,
        _ => rng.range(MIN_D, MAX_D),
    }) as u128
}

impl Engine for Weight {
    fn exec(&mut self, line: &str, mon: &mut Monitor) -> String {
        let ws: Vec<&str> = line.split_whitespace().collect();
        if ws.len() < 2 || ws[0] != "call" {
            return "bad-op".into();
        }
        let a = match parse_u128s(&ws[2..]) {
            Some(a) => a,
            None => return "bad-op".into(),
        };
        match (ws[1], a.len()) {
            ("weight", 2) => {
                let o = run(a[0], a[1]);
                monitor_point(mon, a[0], a[1], &o);
                mon.stat(&format!("weight_amount_mag_{}", mag_bucket(a[1])));
                show(&o)
            }
            ("weight2", 4) => {
                let o1 = run(a[0], a[1]);
                let o2 = run(a[2], a[3]);
                monitor_point(mon, a[0], a[1], &o1);
                monitor_point(mon, a[2], a[3], &o2);
                if let (Outcome::Ok(w1), Outcome::Ok(w2)) = (&o1, &o2) {
                    let desc = || format!("weight2 {:?} -> {w1} | {w2}", a);
                    if a[0] == a[2] && a[1] <= a[3] {
                        mon.check("C13", "weight_mono_amount", w1 <= w2, desc);
                    }
                    if a[1] == a[3] && a[0] <= a[2] {
                        mon.check("C13", "weight_mono_duration", w1 <= w2, desc);
                    }
                    if a[0] <= a[2] && a[1] <= a[3] {
                        mon.check("C13", "weight_mono_both", w1 <= w2, desc);
                    }
                }
                format!("{} | {}", show(&o1), show(&o2))
            }
            _ => "bad-op".into(),
        }
    }

    fn next_op(&mut self, rng: &mut Rng, step: u64) -> Option<String> {
        if step >= 1 {
            return None;
        }
        self.n += 1;
        let amt = |rng: &mut Rng| -> u128 {
            match rng.below(6) {
                0 => rng.amount(128),
                1 => rng.log_uniform(100),
                2 => rng.log_uniform(128),
                3 => rng.below(200) as u128,
                4 => u128::MAX / 16 - 5 + rng.below(10) as u128,
                _ => rng.log_uniform(64),
            }
        };
        if rng.chance(1, 2) {
            Some(format!("call weight {} {}", dur(rng), amt(rng)))
        } else {
            let d1 = dur(rng);
            let a1 = amt(rng);
            match rng.below(3) {
                0 => {
                    // same duration, amount + small / large step
                    let step = if rng.chance(1, 2) { rng.below(3) as u128 } else { rng.log_uniform(100) };
                    Some(format!("call weight2 {d1} {a1} {d1} {}", a1.saturating_add(step)))
                }
                1 => {
                    let step = if rng.chance(1, 2) { rng.below(3) as u128 } else { rng.below(20_000_000) as u128 };
                    Some(format!("call weight2 {d1} {a1} {} {a1}", d1 + step))
                }
                _ => {
                    let (d2, a2) = (dur(rng), amt(rng));
                    Some(format!("call weight2 {} {} {} {}", d1.min(d2), a1.min(a2), d1.max(d2), a1.max(a2)))
                }
            }
        }
    }
}
