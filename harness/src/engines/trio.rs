//! Engine `trio` (C04, and the 3pool's share of C07 / C14 / C15).
//!
//! * `call trio_*` lines: the real `stableswap_3pool` curve / helper functions through the
//!   cfg(wwcore_verif) hook, bit for bit (ok / err(=None or Err) / panic and every output field).
//! * history lines: the real 3pool contract in cw-multi-test (4 users + collector + owner, native and
//!   cw20 assets, cw20 LP token), one observation after every operation.
//!
//! History op lines: `<height> <time> <sender 0..5> <op> <args…>` with the ops
//!   provide <d0> <d1> <d2> <slip|-> <recv|->      withdraw <lp>      collect      donate <i> <amt>
//!   swap <offer> <ask> <amt> <belief|-> <maxspread|-> <to|->      config <owner|-> <collector|-> <p,s,b|-> <tog|-> <a,block|->
//! and the entry points a cw20-LP pool has to refuse (the model answers `err`):
//!   wdirect <sel> <amt>   ExecuteMsg::WithdrawLiquidity {} sent directly; attached coins by `sel`:
//!                         0|1|2 = one coin of pool asset i's denom, 3 = one coin "ujunk", 4 = none,
//!                         5 = two coins (ujunk + ux), 6 = two coins (first native pool denom + ujunk)
//!   wfake <i> <amt>       cw20 `Send` of pool asset i (if it is a cw20) carrying the WithdrawLiquidity hook
//!   sfake <ask> <amt>     cw20 `Send` of the LP token carrying the Swap hook (ask asset `ask`)
//!   sdirect <o*3+a> <amt> ExecuteMsg::Swap sent directly naming offer asset `o` and ask asset `a` with NOTHING
//!                         attached: a cw20 offer may only arrive through the token's Send hook, a native
//!                         offer must be attached (amt > 0)
//!
//! Monitors evaluate the properties as stated on the real observations, independent of the Lean
//! model. `d_exact` is a TEST ORACLE: an exact integer bisection solver for the pool's own invariant,
//! written here and sharing no code with the contract.
use crate::common::*;
use cosmwasm_std::{
    coin, to_json_binary, Addr, Coin, Decimal, Uint128, Uint256, Uint512,
};
use cw20::{BalanceResponse, Cw20Coin, Cw20ExecuteMsg, Cw20QueryMsg, TokenInfoResponse};
use cw_multi_test::{App, AppBuilder, AppResponse, ContractWrapper, Executor};
use stableswap_3pool::verif_hooks::{assert_slippage_tolerance, compute_offer_amount, compute_swap, StableSwap, SwapComputation};
use std::collections::VecDeque;
use std::str::FromStr;
use white_whale_std::fee::Fee;
use white_whale_std::pool_network::asset::{Asset, AssetInfo};
use white_whale_std::pool_network::trio as t;

const E18: u128 = 1_000_000_000_000_000_000;
const ACCTS: [&str; 6] = ["user0", "user1", "user2", "user3", "collector", "owner"];
const DENOMS: [&str; 3] = ["ua", "ub", "uc"];
/// denom triples the history worlds are built with (chosen by `(amp + h) % 5`, a function of the init
/// line, so the line format is unchanged): plain denoms, IBC vouchers (upper-case hex), a token-factory
/// denom whose last segment is another asset's denom, denoms that are prefixes of each other, denoms differing only in case
const DENOM_SETS: [[&str; 3]; 5] = [
    ["ua", "ub", "uc"],
    ["ibc/27394FB092D2ECCD56123C74F36E4C1F926001CEADA9CA97EA622B25F41E5EB2", "uusd", "ibc/B3504E092456BA618CC28AC671A71FB08C6CA0FD0BE7C8A5B5A3E2DD933CC9E4"],
    ["uwhale", "factory/migaloo1creator/uwhale", "uwhalex"],
    ["uusd", "uusdc", "factory/migaloo1creator/uusd"],
    ["uusd", "UUSD", "uUsd"],
];
const FOREIGN: &str = "ux";
/// a denom unrelated to the pool, held by every account (attached to foreign entry points)
const JUNK: &str = "ujunk";
// pinned here on purpose (monitor side): the property's own numbers
const P_MIN_AMP: u64 = 1;
const P_MAX_AMP: u64 = 1_000_000;
const P_MAX_CHANGE: u64 = 10;
const P_MIN_RAMP_BLOCKS: u64 = 10_000;
const P_COLLECT_THRESHOLD: u128 = 1_000;

// ------------------------------------------------------------------------------------------
// test oracle: exact integer solver for the invariant
//   D^4 / (27 x y z) + (ann - 1) D = ann S ,  ann = 3 * amp
// `d_exact` = the largest integer D with  D^4 + (ann-1) D P <= ann S P,  P = 27xyz  (floor of the root)
// ------------------------------------------------------------------------------------------
fn u512(x: u128) -> Uint512 {
    Uint512::from(x)
}

pub fn d_exact(amp: u64, r: [u128; 3]) -> Option<u128> {
    if r[0] == 0 || r[1] == 0 || r[2] == 0 || amp == 0 {
        return None;
    }
    let s = r[0].checked_add(r[1])?.checked_add(r[2])?;
    if s >= 1u128 << 120 {
        return None; // keep D^4 inside 512 bits
    }
    let ann = u512(amp as u128 * 3);
    let p = u512(27) * u512(r[0]) * u512(r[1]) * u512(r[2]);
    let rhs = ann * u512(s) * p;
    let holds = |d: u128| -> bool {
        let dd = u512(d);
        dd * dd * dd * dd + (ann - Uint512::one()) * dd * p <= rhs
    };
    // invariant: holds(lo), !holds(hi)
    let (mut lo, mut hi) = (0u128, s + 1);
    if holds(s) {
        return Some(s);
    }
    while hi - lo > 1 {
        let mid = lo + (hi - lo) / 2;
        if holds(mid) {
            lo = mid
        } else {
            hi = mid
        }
    }
    Some(lo)
}

/// closed form of the effective amplification (monitor side, independent of the hook)
fn amp_closed(init: u64, target: u64, start: u64, stop: u64, h: u64) -> Option<u64> {
    if h >= stop {
        return Some(target);
    }
    if h < start || stop <= start {
        return None;
    }
    let (dt, range) = ((h - start) as u128, (stop - start) as u128);
    if target >= init {
        Some(init + ((target - init) as u128 * dt / range) as u64)
    } else {
        Some(init - ((init - target) as u128 * dt / range) as u64)
    }
}

// ------------------------------------------------------------------------------------------
// pure calls
// ------------------------------------------------------------------------------------------
fn opt_outcome<T>(f: impl FnOnce() -> Option<T>) -> Outcome<T> {
    guarded(|| f().ok_or("None"))
}

fn show1<T: std::fmt::Display>(o: &Outcome<T>) -> String {
    match o {
        Outcome::Ok(v) => format!("ok {v}"),
        Outcome::Err(_) => "err".into(),
        Outcome::Panic => "panic".into(),
    }
}

fn show_comp(c: &SwapComputation) -> String {
    format!(
        "{} {} {} {} {}",
        c.return_amount, c.spread_amount, c.swap_fee_amount, c.protocol_fee_amount, c.burn_fee_amount
    )
}

fn show_comp_out(o: &Outcome<SwapComputation>) -> String {
    match o {
        Outcome::Ok(c) => format!("ok {}", show_comp(c)),
        Outcome::Err(_) => "err".into(),
        Outcome::Panic => "panic".into(),
    }
}

fn pool_fee(p: u128, s: u128, b: u128) -> t::PoolFee {
    t::PoolFee {
        protocol_fee: Fee { share: Decimal::raw(p) },
        swap_fee: Fee { share: Decimal::raw(s) },
        burn_fee: Fee { share: Decimal::raw(b) },
    }
}

fn parse_u256s(ws: &[&str]) -> Option<Vec<Uint256>> {
    ws.iter().map(|w| Uint256::from_str(w).ok()).collect()
}
fn as128(x: &Uint256) -> Option<u128> {
    Uint128::try_from(*x).ok().map(|v| v.u128())
}
fn as64(x: &Uint256) -> Option<u64> {
    as128(x).and_then(|v| u64::try_from(v).ok())
}

fn run_cswap(inv: StableSwap, a: &[u128]) -> Outcome<SwapComputation> {
    guarded(|| {
        compute_swap(
            Uint128::new(a[0]),
            Uint128::new(a[1]),
            Uint128::new(a[2]),
            Uint128::new(a[3]),
            pool_fee(a[4], a[5], a[6]),
            inv,
        )
    })
}

/// C04 on one computed swap: proceeds + fees = curve output, exact fee split
fn monitor_cswap(mon: &mut Monitor, inv: StableSwap, a: &[u128], out: &Outcome<SwapComputation>) {
    let (p, s, b) = (a[4], a[5], a[6]);
    if !(p < E18 && s < E18 && b < E18 && p + s + b < E18) {
        mon.stat("cswap_invalid_fees");
        return;
    }
    if let Outcome::Ok(c) = out {
        let curve = guarded(|| {
            inv.swap_to(Uint128::new(a[3]), Uint128::new(a[0]), Uint128::new(a[1]), Uint128::new(a[2])).ok_or("None")
        });
        if let Outcome::Ok(r) = curve {
            let g = r.amount_swapped.u128();
            let sum = c.return_amount.u128() + c.swap_fee_amount.u128() + c.protocol_fee_amount.u128() + c.burn_fee_amount.u128();
            let desc = || format!("trio_cswap {:?} -> {} curve {}", a, show_comp(c), g);
            mon.check("C04", "proceeds_plus_fees_eq_curve_output", sum == g, desc);
            let fee = |sh: u128| (Uint256::from(g) * Uint256::from(sh) / Uint256::from(E18)).to_string();
            mon.check(
                "C04",
                "fee_split_exact",
                c.swap_fee_amount.to_string() == fee(s) && c.protocol_fee_amount.to_string() == fee(p) && c.burn_fee_amount.to_string() == fee(b),
                desc,
            );
            mon.check("C04", "curve_output_lt_ask_reserve", g < a[1], desc);
        } else {
            mon.check("C04", "proceeds_plus_fees_eq_curve_output", false, || format!("compute_swap ok but swap_to not: {:?}", a));
        }
    }
}

fn imbalance_bits(res: &[u128]) -> u32 {
    let mx = *res.iter().max().unwrap();
    let mn = (*res.iter().min().unwrap()).max(1);
    127 - (mx / mn).max(1).leading_zeros()
}

/// classification of a there-and-back profit: ("dust" = at most 16 base units,
/// "imbalanced" = largest/smallest reserve >= 2^8), and log2 of the reserve ratio
fn rt_tag(res: &[u128], offer: u128, back: u128) -> (&'static str, u32) {
    let bits = imbalance_bits(res);
    let tag = if back <= offer {
        ""
    } else if back - offer <= 16 {
        "dust"
    } else if bits >= 8 {
        "imbalanced"
    } else {
        "other"
    };
    (tag, bits)
}

fn pure_call(fn_: &str, ws: &[&str], mon: &mut Monitor) -> String {
    if fn_ == "trio_slip" {
        if ws.len() != 9 {
            return "bad-op".into();
        }
        let slip = if ws[0] == "-" { None } else { match ws[0].parse::<u128>() { Ok(v) => Some(Decimal::raw(v)), _ => return "bad-op".into() } };
        let a = match parse_u128s(&ws[1..]) {
            Some(a) => a,
            None => return "bad-op".into(),
        };
        let pools = [0, 1, 2].map(|i| Asset { info: AssetInfo::NativeToken { denom: DENOMS[i].into() }, amount: Uint128::new(a[3 + i]) });
        let deposits = [Uint128::new(a[0]), Uint128::new(a[1]), Uint128::new(a[2])];
        let out = guarded(|| assert_slippage_tolerance(&slip, &deposits, &pools, Uint128::new(a[6]), Uint128::new(a[7])));
        mon.stat(match &out { Outcome::Ok(_) => "slip_ok", Outcome::Err(_) => "slip_err", Outcome::Panic => "slip_panic" });
        return match out {
            Outcome::Ok(_) => "ok".into(),
            Outcome::Err(_) => "err".into(),
            Outcome::Panic => "panic".into(),
        };
    }
    let v = match parse_u256s(ws) {
        Some(v) if v.len() >= 5 => v,
        _ => return "bad-op".into(),
    };
    let hdr: Option<Vec<u64>> = v[..5].iter().map(as64).collect();
    let hdr = match hdr {
        Some(h) => h,
        None => return "bad-op".into(),
    };
    let (init, target, cur, start, stop) = (hdr[0], hdr[1], hdr[2], hdr[3], hdr[4]);
    let inv = StableSwap::new(init, target, cur, start, stop);
    let rest = &v[5..];
    let r128: Option<Vec<u128>> = rest.iter().map(as128).collect();
    match (fn_, rest.len()) {
        ("trio_amp", 0) => {
            let out = opt_outcome(|| inv.compute_amp_factor());
            // C04 amp clauses on the pure function, for the heights of a well-formed ramp
            if start < stop && cur >= start && init >= 1 && target >= 1 && init <= P_MAX_AMP && target <= P_MAX_AMP {
                let desc = || format!("amp {init}->{target} [{start},{stop}] at {cur}: {}", show1(&out));
                match &out {
                    Outcome::Ok(a) => {
                        mon.check("C04", "amp_between", *a >= init.min(target) && *a <= init.max(target), desc);
                        mon.check("C04", "amp_linear", Some(*a) == amp_closed(init, target, start, stop, cur), desc);
                        if cur < stop {
                            mon.stat("amp_ramp_in_progress");
                        }
                    }
                    _ => mon.check("C04", "amp_between", false, desc),
                }
            }
            show1(&out)
        }
        ("trio_d", 3) => match r128 {
            Some(a) => {
                let out = opt_outcome(|| inv.compute_d(Uint128::new(a[0]), Uint128::new(a[1]), Uint128::new(a[2])));
                if let (Outcome::Ok(d), Outcome::Ok(amp)) = (&out, opt_outcome(|| inv.compute_amp_factor())) {
                    if let Some(de) = d_exact(amp, [a[0], a[1], a[2]]) {
                        // statistic only: distance of the code's D from the exact floor
                        let dd = Uint256::from(de);
                        let diff = if *d > dd { *d - dd } else { dd - *d };
                        mon.stat(&format!("d_vs_exact_diff_{}", if diff > Uint256::from(3u8) { ">3".to_string() } else { diff.to_string() }));
                    }
                }
                mon.stat(match &out { Outcome::Ok(_) => "d_ok", Outcome::Err(_) => "d_none", Outcome::Panic => "d_panic" });
                show1(&out)
            }
            None => "bad-op".into(),
        },
        ("trio_yraw", 3) | ("trio_y", 3) => {
            let (x, n) = match (as128(&rest[0]), as128(&rest[1])) {
                (Some(x), Some(n)) => (x, n),
                _ => return "bad-op".into(),
            };
            let d = rest[2];
            if fn_ == "trio_yraw" {
                show1(&opt_outcome(|| inv.compute_y_raw(Uint128::new(x), Uint128::new(n), d)))
            } else {
                show1(&opt_outcome(|| inv.compute_y(Uint128::new(x), Uint128::new(n), d)))
            }
        }
        ("trio_swap_to", 4) => match r128 {
            Some(a) => {
                let out = opt_outcome(|| inv.swap_to(Uint128::new(a[0]), Uint128::new(a[1]), Uint128::new(a[2]), Uint128::new(a[3])));
                match &out {
                    Outcome::Ok(r) => {
                        mon.stat("swap_to_ok");
                        format!("ok {} {} {}", r.new_source_amount, r.new_destination_amount, r.amount_swapped)
                    }
                    Outcome::Err(_) => "err".into(),
                    Outcome::Panic => {
                        mon.stat("swap_to_panic");
                        "panic".into()
                    }
                }
            }
            None => "bad-op".into(),
        },
        ("trio_mint", 7) => match r128 {
            Some(a) => {
                let u = |i: usize| Uint128::new(a[i]);
                let out = opt_outcome(|| inv.compute_mint_amount_for_deposit(u(0), u(1), u(2), u(3), u(4), u(5), u(6)));
                if let Outcome::Ok(m) = &out {
                    // C04 mint_le on the code's own D: mint * D0 <= S * (D1 - D0)
                    let d0 = opt_outcome(|| inv.compute_d(u(3), u(4), u(5)));
                    let d1 = opt_outcome(|| inv.compute_d(u(0) + u(3), u(1) + u(4), u(2) + u(5)));
                    if let (Outcome::Ok(d0), Outcome::Ok(d1)) = (d0, d1) {
                        let lhs = Uint512::from(m.u128()) * Uint512::from(d0);
                        let rhs = Uint512::from(a[6]) * Uint512::from(d1 - d0);
                        mon.check("C04", "mint_le", lhs <= rhs, || format!("trio_mint {:?} -> {m}", a));
                    }
                    mon.stat("mint_ok");
                }
                show1(&out)
            }
            None => "bad-op".into(),
        },
        ("trio_cswap", 7) => match r128 {
            Some(a) => {
                let out = run_cswap(inv, &a);
                monitor_cswap(mon, inv, &a, &out);
                mon.stat(match &out { Outcome::Ok(_) => "cswap_ok", Outcome::Err(_) => "cswap_err", Outcome::Panic => "cswap_panic" });
                show_comp_out(&out)
            }
            None => "bad-op".into(),
        },
        ("trio_rt", 7) => match r128 {
            Some(a) => {
                let out = run_cswap(inv, &a);
                monitor_cswap(mon, inv, &a, &out);
                match &out {
                    Outcome::Ok(c) => {
                        let leave = c.return_amount.u128() + c.protocol_fee_amount.u128() + c.burn_fee_amount.u128();
                        match (a[0].checked_add(a[3]), a[1].checked_sub(leave)) {
                            (Some(op2), Some(ap2)) => {
                                let b = [ap2, op2, a[2], c.return_amount.u128(), a[4], a[5], a[6]];
                                let back = run_cswap(inv, &b);
                                if let Outcome::Ok(c2) = &back {
                                    let valid = a[4] < E18 && a[5] < E18 && a[6] < E18 && a[4] + a[5] + a[6] < E18;
                                    if valid {
                                        let gross2 = c2.return_amount.u128() + c2.swap_fee_amount.u128() + c2.protocol_fee_amount.u128() + c2.burn_fee_amount.u128();
                                        // the property as stated: what the trader holds afterwards vs what he put in
                                        let net = c2.return_amount.u128();
                                        let (tag, ratio_bits) = rt_tag(&a[..3], a[3], net);
                                        mon.check_tag("C04", "round_trip_no_profit", tag, net <= a[3], || {
                                            format!("trio_rt {:?} amp {init}->{target}@{cur}[{start},{stop}]: in {} out {} back net {} (gross {})", a, a[3], c.return_amount, net, gross2)
                                        });
                                        if net > a[3] {
                                            mon.stat(&format!("rt_profit_imbalance2^{}_profit_{}", ratio_bits / 10 * 10, mag_bucket(net - a[3])));
                                            mon.stat(&format!("rt_profit_tag_{tag}"));
                                        }
                                        // stricter, statistic only: even gross of the way back's fees
                                        if gross2 > a[3] {
                                            mon.stat("rt_gross_back_exceeds_offer");
                                        }
                                        mon.stat("rt_both_ok");
                                    }
                                }
                                format!("ok {} | {}", show_comp(c), show_comp_out(&back))
                            }
                            _ => format!("ok {} | skip", show_comp(c)),
                        }
                    }
                    _ => show_comp_out(&out),
                }
            }
            None => "bad-op".into(),
        },
        _ => "bad-op".into(),
    }
}

// ------------------------------------------------------------------------------------------
// history engine
// ------------------------------------------------------------------------------------------
#[derive(Clone, Debug, PartialEq)]
struct Snap {
    r: [Option<u128>; 3],
    lps: u128,
    pend: [u128; 3],
    all: [u128; 3],
    burned: [u128; 3],
    amp: (u64, u64, u64, u64),
    own: usize,
    col: usize,
    fees: (u128, u128, u128),
    tog: (bool, bool, bool),
    pb: [u128; 3],
    lpp: u128,
    users: [[u128; 4]; 6],
    sup: [u128; 3],
}

impl Snap {
    fn show(&self) -> String {
        let rs = |x: Option<u128>| x.map(|v| v.to_string()).unwrap_or("panic".into());
        let c3 = |v: [u128; 3]| format!("{},{},{}", v[0], v[1], v[2]);
        let b = |x: bool| if x { "1" } else { "0" };
        let us: Vec<String> = (0..6).map(|a| format!("u{}={},{},{},{}", a, self.users[a][0], self.users[a][1], self.users[a][2], self.users[a][3])).collect();
        format!(
            "r={},{},{} lps={} pend={} all={} burned={} amp={},{},{},{} own={} col={} fees={},{},{} tog={}{}{} pb={} lpp={} {} sup={}",
            rs(self.r[0]), rs(self.r[1]), rs(self.r[2]), self.lps, c3(self.pend), c3(self.all), c3(self.burned),
            self.amp.0, self.amp.1, self.amp.2, self.amp.3, self.own, self.col, self.fees.0, self.fees.1, self.fees.2,
            b(self.tog.0), b(self.tog.1), b(self.tog.2), c3(self.pb), self.lpp, us.join(" "), c3(self.sup)
        )
    }
    fn reserves(&self) -> Option<[u128; 3]> {
        Some([self.r[0]?, self.r[1]?, self.r[2]?])
    }
}

struct World {
    app: App,
    pool: Addr,
    lp: Addr,
    infos: [AssetInfo; 3],
    native: [bool; 3],
    denoms: [&'static str; 3],
    sup0: [u128; 3],
    // monitor-side ghost sums (from events / balance deltas)
    charged: [u128; 3],
    sent: [u128; 3],
    burned_sum: [u128; 3],
    // last successful swap, for the in-history there-and-back monitor
    last_swap: Option<(usize, usize, usize, u128, u128, (u64, u64, u64, u64), u64)>,
}

#[derive(Default)]
pub struct Trio {
    w: Option<World>,
    // generator state
    height: u64,
    queue: VecDeque<String>,
    len: u64,
    pure_n: u64,
    pub variant: String,
}

fn acct(i: usize) -> Addr {
    Addr::unchecked(ACCTS[i])
}

fn acct_id(a: &str) -> usize {
    ACCTS.iter().position(|x| *x == a).unwrap_or(99)
}

fn opt_u128(w: &str) -> Option<Option<u128>> {
    if w == "-" {
        Some(None)
    } else {
        w.parse::<u128>().ok().map(Some)
    }
}

fn kv<'a>(ws: &[&'a str], k: &str) -> Option<&'a str> {
    ws.iter().find_map(|w| w.strip_prefix(k).and_then(|r| r.strip_prefix('=')))
}

fn attr(resp: &AppResponse, key: &str) -> Option<u128> {
    for e in &resp.events {
        if e.ty == "wasm" && e.attributes.iter().any(|a| a.key == "action" && a.value == "swap") {
            if let Some(a) = e.attributes.iter().find(|a| a.key == key) {
                return a.value.parse().ok();
            }
        }
    }
    None
}

impl World {
    fn new(kinds: &str, p: u128, s: u128, b: u128, amp: u64, h: u64, fund: u128) -> Option<World> {
        let native: Vec<bool> = kinds.chars().map(|c| c == 'n').collect();
        if native.len() != 3 || !kinds.chars().all(|c| c == 'n' || c == 'c') {
            return None;
        }
        let dset: [&'static str; 3] = DENOM_SETS[((amp.wrapping_add(h)) % DENOM_SETS.len() as u64) as usize];
        let mut app = AppBuilder::new().build(|router, _api, storage| {
            for a in ACCTS {
                let mut cs: Vec<Coin> = vec![];
                for i in 0..3 {
                    if native[i] && fund > 0 {
                        cs.push(coin(fund, dset[i]));
                    }
                }
                cs.push(coin(1u128 << 100, FOREIGN));
                cs.push(coin(1u128 << 100, JUNK));
                router.bank.init_balance(storage, &Addr::unchecked(a), cs).unwrap();
            }
        });
        app.update_block(|bl| bl.height = h);
        let trio_id = app.store_code(Box::new(
            ContractWrapper::new(stableswap_3pool::contract::execute, stableswap_3pool::contract::instantiate, stableswap_3pool::contract::query)
                .with_reply(stableswap_3pool::contract::reply),
        ));
        let token_id = app.store_code(Box::new(ContractWrapper::new(
            terraswap_token::contract::execute,
            terraswap_token::contract::instantiate,
            terraswap_token::contract::query,
        )));
        let owner = acct(5);
        let mut infos: Vec<AssetInfo> = vec![];
        for i in 0..3 {
            if native[i] {
                infos.push(AssetInfo::NativeToken { denom: dset[i].into() });
            } else {
                let addr = app
                    .instantiate_contract(
                        token_id,
                        owner.clone(),
                        &white_whale_std::pool_network::token::InstantiateMsg {
                            name: format!("token{}", ["A", "B", "C"][i]),
                            symbol: format!("TK{}", ["A", "B", "C"][i]),
                            decimals: 6,
                            initial_balances: ACCTS.iter().map(|a| Cw20Coin { address: a.to_string(), amount: Uint128::new(fund) }).collect(),
                            mint: None,
                        },
                        &[],
                        "asset",
                        None,
                    )
                    .ok()?;
                infos.push(AssetInfo::Token { contract_addr: addr.to_string() });
            }
        }
        let infos: [AssetInfo; 3] = [infos[0].clone(), infos[1].clone(), infos[2].clone()];
        // the property's quantifier starts from a pool that instantiated: invalid fees / amp are rejected there
        let pool = app
            .instantiate_contract(
                trio_id,
                owner.clone(),
                &t::InstantiateMsg {
                    // how the DEPLOYER spells the cw20 assets' addresses (derived from the init line like the denom
                    // set; addresses are case-insensitive and the pool stores the canonical form, so the pool must
                    // behave the same; the harness itself keeps using the canonical spelling): plain / upper / mixed
                    asset_infos: {
                        let sp = amp.wrapping_mul(3).wrapping_add(h) % 4;
                        let spell = |i: &AssetInfo| match i {
                            AssetInfo::Token { contract_addr } => AssetInfo::Token {
                                contract_addr: match sp {
                                    2 => contract_addr.to_uppercase(),
                                    3 => contract_addr.chars().enumerate().map(|(k, c)| if k % 2 == 0 { c.to_ascii_uppercase() } else { c }).collect(),
                                    _ => contract_addr.clone(),
                                },
                            },
                            n => n.clone(),
                        };
                        [spell(&infos[0]), spell(&infos[1]), spell(&infos[2])]
                    },
                    token_code_id: token_id,
                    asset_decimals: [6, 6, 6],
                    pool_fees: pool_fee(p, s, b),
                    fee_collector_addr: ACCTS[4].into(),
                    amp_factor: amp,
                    token_factory_lp: false,
                },
                &[],
                "trio",
                None,
            )
            .ok()?;
        let ti: white_whale_std::pool_network::asset::TrioInfo = app.wrap().query_wasm_smart(&pool, &t::QueryMsg::Trio {}).ok()?;
        let lp = match ti.liquidity_token {
            AssetInfo::Token { contract_addr } => Addr::unchecked(contract_addr),
            _ => return None,
        };
        // unlimited allowances for the pool on every cw20 asset
        for i in 0..3 {
            if let AssetInfo::Token { contract_addr } = &infos[i] {
                for a in 0..6 {
                    app.execute_contract(
                        acct(a),
                        Addr::unchecked(contract_addr),
                        &Cw20ExecuteMsg::IncreaseAllowance { spender: pool.to_string(), amount: Uint128::MAX, expires: None },
                        &[],
                    )
                    .ok()?;
                }
            }
        }
        let native = [native[0], native[1], native[2]];
        Some(World {
            app,
            pool,
            lp,
            infos,
            native,
            denoms: dset,
            sup0: [6 * fund; 3],
            charged: [0; 3],
            sent: [0; 3],
            burned_sum: [0; 3],
            last_swap: None,
        })
    }

    fn balance(&self, who: &Addr, i: usize) -> u128 {
        match &self.infos[i] {
            AssetInfo::NativeToken { denom } => self.app.wrap().query_balance(who, denom).unwrap().amount.u128(),
            AssetInfo::Token { contract_addr } => self.cw20_balance(contract_addr, who),
        }
    }
    fn cw20_balance(&self, token: &str, who: &Addr) -> u128 {
        let r: BalanceResponse = self.app.wrap().query_wasm_smart(token, &Cw20QueryMsg::Balance { address: who.to_string() }).unwrap();
        r.balance.u128()
    }

    fn amounts(&self, v: &[Asset]) -> [u128; 3] {
        let mut out = [0u128; 3];
        for i in 0..3 {
            out[i] = v.iter().find(|a| a.info == self.infos[i]).map(|a| a.amount.u128()).unwrap_or(u128::MAX);
        }
        out
    }

    fn snap(&self) -> Snap {
        let q = self.app.wrap();
        let pool: Outcome<t::PoolResponse> = guarded(|| q.query_wasm_smart(&self.pool, &t::QueryMsg::Pool {}));
        let lps = {
            let ti: TokenInfoResponse = q.query_wasm_smart(&self.lp, &Cw20QueryMsg::TokenInfo {}).unwrap();
            ti.total_supply.u128()
        };
        let r = match &pool {
            Outcome::Ok(p) => {
                let a = self.amounts(&p.assets);
                assert_eq!(p.total_share.u128(), lps);
                [Some(a[0]), Some(a[1]), Some(a[2])]
            }
            _ => [None; 3],
        };
        let pf: t::ProtocolFeesResponse = q.query_wasm_smart(&self.pool, &t::QueryMsg::ProtocolFees { asset_id: None, all_time: None }).unwrap();
        let af: t::ProtocolFeesResponse = q.query_wasm_smart(&self.pool, &t::QueryMsg::ProtocolFees { asset_id: None, all_time: Some(true) }).unwrap();
        let bf: t::ProtocolFeesResponse = q.query_wasm_smart(&self.pool, &t::QueryMsg::BurnedFees { asset_id: None }).unwrap();
        let cfg: t::Config = q.query_wasm_smart(&self.pool, &t::QueryMsg::Config {}).unwrap();
        let mut users = [[0u128; 4]; 6];
        let mut sup = [0u128; 3];
        let mut pb = [0u128; 3];
        for i in 0..3 {
            pb[i] = self.balance(&self.pool, i);
            for a in 0..6 {
                users[a][i] = self.balance(&acct(a), i);
            }
            sup[i] = match &self.infos[i] {
                AssetInfo::Token { contract_addr } => {
                    let ti: TokenInfoResponse = q.query_wasm_smart(contract_addr, &Cw20QueryMsg::TokenInfo {}).unwrap();
                    ti.total_supply.u128()
                }
                // bank supply of a native coin over the closed cast of this world
                AssetInfo::NativeToken { .. } => pb[i] + (0..6).map(|a| users[a][i]).sum::<u128>(),
            };
        }
        for a in 0..6 {
            users[a][3] = self.cw20_balance(self.lp.as_str(), &acct(a));
        }
        Snap {
            r,
            lps,
            pend: self.amounts(&pf.fees),
            all: self.amounts(&af.fees),
            burned: self.amounts(&bf.fees),
            amp: (cfg.initial_amp, cfg.future_amp, cfg.initial_amp_block, cfg.future_amp_block),
            own: acct_id(cfg.owner.as_str()),
            col: acct_id(cfg.fee_collector_addr.as_str()),
            fees: (cfg.pool_fees.protocol_fee.share.atomics().u128(), cfg.pool_fees.swap_fee.share.atomics().u128(), cfg.pool_fees.burn_fee.share.atomics().u128()),
            tog: (cfg.feature_toggle.deposits_enabled, cfg.feature_toggle.withdrawals_enabled, cfg.feature_toggle.swaps_enabled),
            pb,
            lpp: self.cw20_balance(self.lp.as_str(), &self.pool),
            users,
            sup,
        }
    }

    fn info_of(&self, i: usize) -> AssetInfo {
        if i < 3 {
            self.infos[i].clone()
        } else {
            AssetInfo::NativeToken { denom: FOREIGN.into() }
        }
    }

    fn simulate(&self, offer: usize, ask: usize, amt: u128) -> Outcome<t::SimulationResponse> {
        let q = self.app.wrap();
        guarded(|| {
            q.query_wasm_smart::<t::SimulationResponse>(
                &self.pool,
                &t::QueryMsg::Simulation {
                    offer_asset: Asset { info: self.info_of(offer), amount: Uint128::new(amt) },
                    ask_asset: Asset { info: self.info_of(ask), amount: Uint128::zero() },
                },
            )
        })
    }
}

fn show_sim(o: &Outcome<t::SimulationResponse>) -> String {
    match o {
        Outcome::Ok(c) => format!("ok:{}:{}:{}:{}:{}", c.return_amount, c.spread_amount, c.swap_fee_amount, c.protocol_fee_amount, c.burn_fee_amount),
        Outcome::Err(_) => "err".into(),
        Outcome::Panic => "panic".into(),
    }
}

enum ParsedOp {
    Provide([u128; 3], Option<u128>, Option<usize>),
    Withdraw(u128),
    Swap(usize, usize, u128, Option<u128>, Option<u128>, Option<usize>),
    Collect,
    Config(Option<usize>, Option<usize>, Option<(u128, u128, u128)>, Option<(bool, bool, bool)>, Option<(u64, u64)>),
    Donate(usize, u128),
    /// kind 0 = wdirect (sel, amt), 1 = wfake (asset, amt), 2 = sfake (ask, amt)
    Foreign(u8, usize, u128),
}

fn parse_op(ws: &[&str]) -> Option<(u64, usize, ParsedOp)> {
    if ws.len() < 4 {
        return None;
    }
    let h: u64 = ws[0].parse().ok()?;
    let _t: u64 = ws[1].parse().ok()?;
    let u: usize = ws[2].parse().ok()?;
    if u >= 6 {
        return None;
    }
    let a = &ws[4..];
    let acct_opt = |w: &str| -> Option<Option<usize>> {
        match opt_u128(w)? {
            None => Some(None),
            Some(v) if v < 6 => Some(Some(v as usize)),
            _ => None,
        }
    };
    let op = match (ws[3], a.len()) {
        ("provide", 5) => ParsedOp::Provide([a[0].parse().ok()?, a[1].parse().ok()?, a[2].parse().ok()?], opt_u128(a[3])?, acct_opt(a[4])?),
        ("withdraw", 1) => ParsedOp::Withdraw(a[0].parse().ok()?),
        ("swap", 6) => ParsedOp::Swap(a[0].parse().ok()?, a[1].parse().ok()?, a[2].parse().ok()?, opt_u128(a[3])?, opt_u128(a[4])?, acct_opt(a[5])?),
        ("collect", 0) => ParsedOp::Collect,
        ("config", 5) => {
            let fees = if a[2] == "-" {
                None
            } else {
                let v: Vec<u128> = a[2].split(',').map(|x| x.parse().ok()).collect::<Option<Vec<_>>>()?;
                if v.len() != 3 {
                    return None;
                }
                Some((v[0], v[1], v[2]))
            };
            let tog = if a[3] == "-" {
                None
            } else {
                let c: Vec<char> = a[3].chars().collect();
                if c.len() != 3 || !c.iter().all(|x| *x == '0' || *x == '1') {
                    return None;
                }
                Some((c[0] == '1', c[1] == '1', c[2] == '1'))
            };
            let ramp = if a[4] == "-" {
                None
            } else {
                let v: Vec<u64> = a[4].split(',').map(|x| x.parse().ok()).collect::<Option<Vec<_>>>()?;
                if v.len() != 2 {
                    return None;
                }
                Some((v[0], v[1]))
            };
            ParsedOp::Config(acct_opt(a[0])?, acct_opt(a[1])?, fees, tog, ramp)
        }
        ("donate", 2) => {
            let i: usize = a[0].parse().ok()?;
            if i >= 3 {
                return None;
            }
            ParsedOp::Donate(i, a[1].parse().ok()?)
        }
        ("wdirect", 2) => {
            let sel: usize = a[0].parse().ok()?;
            if sel > 6 {
                return None;
            }
            ParsedOp::Foreign(0, sel, a[1].parse().ok()?)
        }
        ("sdirect", 2) => {
            let k: usize = a[0].parse().ok()?;
            let amt: u128 = a[1].parse().ok()?;
            if k >= 9 || amt == 0 {
                return None;
            }
            ParsedOp::Foreign(3, k, amt)
        }
        ("wfake", 2) | ("sfake", 2) => {
            let i: usize = a[0].parse().ok()?;
            if i >= 3 {
                return None;
            }
            ParsedOp::Foreign(if ws[3] == "wfake" { 1 } else { 2 }, i, a[1].parse().ok()?)
        }
        _ => return None,
    };
    Some((h, u, op))
}

impl Trio {
    fn exec_op(&mut self, ws0: &[&str], mon: &mut Monitor) -> String {
        // `<h> <t> <u> fund <i> <amt> collect|config …`: a message that takes no funds sent with `amt` of the
        // (native) pool asset `i` attached; the coins land on the pool like a donation, nothing else follows
        let mut joined: Vec<&str> = vec![];
        let stray: Option<(usize, u128)> = if ws0.len() >= 7 && ws0[3] == "fund" {
            match (ws0[4].parse::<usize>(), ws0[5].parse::<u128>()) {
                (Ok(i), Ok(a)) if i < 3 && a > 0 && matches!(ws0[6], "collect" | "config") => {
                    joined.extend_from_slice(&ws0[..3]);
                    joined.extend_from_slice(&ws0[6..]);
                    Some((i, a))
                }
                _ => return "bad-op".into(),
            }
        } else {
            None
        };
        let ws: &[&str] = if stray.is_some() { &joined } else { ws0 };
        let (h, u, op) = match parse_op(ws) {
            Some(x) => x,
            None => return "bad-op".into(),
        };
        let w = match self.w.as_mut() {
            Some(w) => w,
            None => return "bad-op".into(),
        };
        w.app.update_block(|b| b.height = h);
        let before0 = w.snap();
        let mut before = before0.clone();
        let mut sf: Vec<Coin> = vec![];
        if let Some((i, a)) = stray {
            if !w.native[i] {
                return "bad-op".into();
            }
            sf.push(coin(a, w.denoms[i]));
            // what the bank does first: the coins move from the sender to the pool
            if before.users[u][i] >= a {
                before.users[u][i] -= a;
                before.pb[i] += a;
                before.r[i] = before.r[i].and_then(|r| r.checked_add(a));
            }
            mon.stat("stray_funds_attached");
        }
        let sender = acct(u);
        let pool = w.pool.clone();
        let mut sim: Option<Outcome<t::SimulationResponse>> = None;
        let dec = |x: Option<u128>| x.map(Decimal::raw);
        let res: Outcome<AppResponse> = match &op {
            ParsedOp::Provide(d, slip, recv) => {
                // the order in which the caller lists the three assets must not matter: rotate / reverse
                // it as a deterministic function of the amounts
                let perm: [usize; 3] = match (d[0] ^ d[1] ^ d[2]) % 6 {
                    0 => [0, 1, 2],
                    1 => [1, 2, 0],
                    2 => [2, 0, 1],
                    3 => [2, 1, 0],
                    4 => [0, 2, 1],
                    _ => [1, 0, 2],
                };
                let assets = perm.map(|i| Asset { info: w.infos[i].clone(), amount: Uint128::new(d[i]) });
                let funds: Vec<Coin> = (0..3).filter(|i| w.native[*i] && d[*i] > 0).map(|i| coin(d[i], w.denoms[i])).collect();
                let msg = t::ExecuteMsg::ProvideLiquidity { assets, slippage_tolerance: dec(*slip), receiver: recv.map(|r| ACCTS[r].to_string()) };
                let app = &mut w.app;
                guarded(|| app.execute_contract(sender.clone(), pool.clone(), &msg, &funds))
            }
            ParsedOp::Withdraw(amt) => {
                let msg = Cw20ExecuteMsg::Send { contract: pool.to_string(), amount: Uint128::new(*amt), msg: to_json_binary(&t::Cw20HookMsg::WithdrawLiquidity {}).unwrap() };
                let lp = w.lp.clone();
                let app = &mut w.app;
                guarded(|| app.execute_contract(sender.clone(), lp, &msg, &[]))
            }
            ParsedOp::Swap(offer, ask, amt, bp, ms, to) => {
                sim = Some(w.simulate(*offer, *ask, *amt));
                let to_s = to.map(|r| ACCTS[r].to_string());
                let ask_info = w.info_of(*ask);
                let offer_info = w.info_of(*offer);
                match &offer_info {
                    AssetInfo::NativeToken { denom } => {
                        let funds: Vec<Coin> = if *amt > 0 { vec![coin(*amt, denom.clone())] } else { vec![] };
                        let msg = t::ExecuteMsg::Swap {
                            offer_asset: Asset { info: offer_info.clone(), amount: Uint128::new(*amt) },
                            ask_asset: ask_info,
                            belief_price: dec(*bp),
                            max_spread: dec(*ms),
                            to: to_s,
                        };
                        let app = &mut w.app;
                        guarded(|| app.execute_contract(sender.clone(), pool.clone(), &msg, &funds))
                    }
                    AssetInfo::Token { contract_addr } => {
                        let hook = t::Cw20HookMsg::Swap { ask_asset: ask_info, belief_price: dec(*bp), max_spread: dec(*ms), to: to_s };
                        let msg = Cw20ExecuteMsg::Send { contract: pool.to_string(), amount: Uint128::new(*amt), msg: to_json_binary(&hook).unwrap() };
                        let token = Addr::unchecked(contract_addr);
                        let app = &mut w.app;
                        guarded(|| app.execute_contract(sender.clone(), token, &msg, &[]))
                    }
                }
            }
            ParsedOp::Collect => {
                let app = &mut w.app;
                guarded(|| app.execute_contract(sender.clone(), pool.clone(), &t::ExecuteMsg::CollectProtocolFees {}, &sf))
            }
            ParsedOp::Config(owner, col, fees, tog, ramp) => {
                let msg = t::ExecuteMsg::UpdateConfig {
                    owner: owner.map(|o| ACCTS[o].to_string()),
                    fee_collector_addr: col.map(|o| ACCTS[o].to_string()),
                    pool_fees: fees.map(|(p, s, b)| pool_fee(p, s, b)),
                    feature_toggle: tog.map(|(d, wd, sw)| t::FeatureToggle { deposits_enabled: d, withdrawals_enabled: wd, swaps_enabled: sw }),
                    amp_factor: ramp.map(|(a, b)| t::RampAmp { future_a: a, future_block: b }),
                };
                let app = &mut w.app;
                guarded(|| app.execute_contract(sender.clone(), pool.clone(), &msg, &sf))
            }
            ParsedOp::Donate(i, amt) => match &w.infos[*i] {
                AssetInfo::NativeToken { denom } => {
                    let c = [coin(*amt, denom.clone())];
                    let app = &mut w.app;
                    guarded(|| app.send_tokens(sender.clone(), pool.clone(), &c))
                }
                AssetInfo::Token { contract_addr } => {
                    let msg = Cw20ExecuteMsg::Transfer { recipient: pool.to_string(), amount: Uint128::new(*amt) };
                    let token = Addr::unchecked(contract_addr);
                    let app = &mut w.app;
                    guarded(|| app.execute_contract(sender.clone(), token, &msg, &[]))
                }
            },
            ParsedOp::Foreign(0, sel, amt) => {
                let first_native = (0..3).find(|i| w.native[*i]).map(|i| w.denoms[i]).unwrap_or(FOREIGN);
                let funds: Vec<Coin> = match *sel {
                    i @ 0..=2 => vec![coin(*amt, w.denoms[i])],
                    3 => vec![coin(*amt, JUNK)],
                    4 => vec![],
                    5 => vec![coin(*amt, JUNK), coin(*amt, FOREIGN)],
                    _ => vec![coin(*amt, first_native), coin(*amt, JUNK)],
                };
                let app = &mut w.app;
                guarded(|| app.execute_contract(sender.clone(), pool.clone(), &t::ExecuteMsg::WithdrawLiquidity {}, &funds))
            }
            ParsedOp::Foreign(1, i, amt) => match &w.infos[*i] {
                AssetInfo::Token { contract_addr } => {
                    let msg = Cw20ExecuteMsg::Send { contract: pool.to_string(), amount: Uint128::new(*amt), msg: to_json_binary(&t::Cw20HookMsg::WithdrawLiquidity {}).unwrap() };
                    let token = Addr::unchecked(contract_addr);
                    let app = &mut w.app;
                    guarded(|| app.execute_contract(sender.clone(), token, &msg, &[]))
                }
                AssetInfo::NativeToken { .. } => guarded(|| Err::<AppResponse, _>("a native asset has no Send")),
            },
            ParsedOp::Foreign(3, k, amt) => {
                let msg = t::ExecuteMsg::Swap {
                    offer_asset: Asset { info: w.info_of(*k / 3), amount: Uint128::new(*amt) },
                    ask_asset: w.info_of(*k % 3),
                    belief_price: None,
                    max_spread: Some(Decimal::percent(50)),
                    to: None,
                };
                let app = &mut w.app;
                guarded(|| app.execute_contract(sender.clone(), pool.clone(), &msg, &[]))
            }
            ParsedOp::Foreign(_, ask, amt) => {
                let hook = t::Cw20HookMsg::Swap { ask_asset: w.info_of(*ask), belief_price: None, max_spread: Some(Decimal::percent(50)), to: None };
                let msg = Cw20ExecuteMsg::Send { contract: pool.to_string(), amount: Uint128::new(*amt), msg: to_json_binary(&hook).unwrap() };
                let lp = w.lp.clone();
                let app = &mut w.app;
                guarded(|| app.execute_contract(sender.clone(), lp, &msg, &[]))
            }
        };
        let after = w.snap();
        let oc = match &res {
            Outcome::Ok(_) => "ok",
            Outcome::Err(e) => {
                // error *kinds* are only counted, never compared
                let k = if e.contains("Spread limit") || e.contains("MaxSlippage") {
                    "err_slippage"
                } else if e.contains("Unauthorized") || e.contains("unauthorized") {
                    "err_unauthorized"
                } else if e.contains("AssetMismatch") || e.contains("doesn't match") {
                    "err_asset_mismatch"
                } else if e.contains("disabled") {
                    "err_disabled"
                } else if e.contains("Amp") || e.contains("amp") {
                    "err_ramp_rejected"
                } else if e.contains("verflow") || e.contains("Cannot Sub") || e.contains("nsufficient") {
                    "err_funds_or_overflow"
                } else {
                    "err_other"
                };
                mon.stat(k);
                "err"
            }
            Outcome::Panic => {
                mon.stat(&format!("panic_in_{}", ws[3]));
                "panic"
            }
        };
        if let ParsedOp::Foreign(k, a, amt) = &op {
            // how often each foreign entry point ran, with what, and what the real code answered
            mon.stat(&format!("{}_{oc}", ws[3]));
            match k {
                0 => mon.stat(&format!("wdirect_coins_{}", ["asset0", "asset1", "asset2", "junk", "none", "junk+ux", "native+junk"][*a])),
                1 => mon.stat(if w.native.get(*a).copied().unwrap_or(true) { "wfake_native_asset" } else { "wfake_cw20_asset" }),
                3 => mon.stat(&format!("sdirect_{}_offer_{}_ask", if w.native.get(*a / 3).copied().unwrap_or(true) { "native" } else { "cw20" }, if w.native.get(*a % 3).copied().unwrap_or(true) { "native" } else { "cw20" })),
                _ => mon.stat("sfake_lp_send"),
            }
            if *k == 0 && (*a <= 2 && w.native.get(*a).copied().unwrap_or(false) || *a == 3) && *amt > 0 && *amt <= before.lpp {
                mon.stat("wdirect_one_held_coin_amount_within_locked_lp");
            }
            mon.stat(&format!("foreign_amount_{}", match *amt { 0 => "0", 1 => "1", 999 => "999", 1000 => "1000", 3000 => "3000", x if x == before.users[u][3] => "own_lp_balance", _ => "other" }));
        }
        let ok_res = matches!(res, Outcome::Ok(_));
        monitors(w, mon, h, u, &op, &res, if ok_res { &before } else { &before0 }, &after, sim.as_ref());
        let mut line = format!("{oc} {}", after.show());
        if let Some(s) = &sim {
            line.push_str(&format!(" sim={}", show_sim(s)));
        }
        line
    }
}

/// |D_after * S_before - D_before * S_after| test with the sub-unit slack of the floor:
/// a failure of `(D_after + 1) * S_before >= D_before * S_after` implies the real-valued
/// invariant per LP token strictly fell.
fn d_per_lp_ok(d_before: u128, s_before: u128, d_after: u128, s_after: u128, slack: u128) -> bool {
    Uint256::from(d_after + slack) * Uint256::from(s_before) >= Uint256::from(d_before) * Uint256::from(s_after)
}

#[allow(clippy::too_many_arguments)]
fn monitors(
    w: &mut World,
    mon: &mut Monitor,
    h: u64,
    u: usize,
    op: &ParsedOp,
    res: &Outcome<AppResponse>,
    a: &Snap,
    b: &Snap,
    sim: Option<&Outcome<t::SimulationResponse>>,
) {
    let ok = matches!(res, Outcome::Ok(_));
    // ---- atomicity: a failed transaction leaves every observable as it was
    if !ok {
        mon.check("C04", "failed_op_changes_nothing", a == b, || format!("before {} after {}", a.show(), b.show()));
    }
    // ---- entry points outside the pool's operations (direct WithdrawLiquidity on a cw20-LP pool, hooks
    //      arriving from the wrong token) are refused: nothing but an LP `Send` withdraws, nothing but a
    //      pool asset swaps
    if let ParsedOp::Foreign(k, _, _) = op {
        let name = ["withdraw_only_through_lp_token", "withdraw_only_through_lp_token", "swap_hook_only_from_pool_asset", "direct_swap_needs_its_funds"][(*k as usize).min(3)];
        mon.check("C04", name, !ok, || format!("foreign entry point accepted: before {} after {}", a.show(), b.show()));
    }
    // ---- C14, observation point `ReverseSimulation`: the query answers what the pool's own reverse formula
    //      gives on the REPORTED reserves (balance − pending protocol fees, each asset under its own name),
    //      the stored fees and the amplification in force at this block. (What that formula should be is not
    //      part of any listed property; the plumbing around it is.)
    if let (Some(r0), Some(r1), Some(r2)) = (b.r[0], b.r[1], b.r[2]) {
        let rs = [r0, r1, r2];
        let (o, k) = [(0usize, 1usize), (1, 0), (0, 2), (2, 0), (1, 2), (2, 1)][(h as usize + u) % 6];
        let un = 3 - o - k;
        let amt = (rs[k] / (3 + (h as u128 % 7))).max(1);
        let pool = w.pool.clone();
        let (ia, io) = (w.info_of(k), w.info_of(o));
        let app = &w.app;
        let q: Outcome<t::ReverseSimulationResponse> = guarded(|| {
            app.wrap().query_wasm_smart(
                &pool,
                &t::QueryMsg::ReverseSimulation { ask_asset: Asset { info: ia.clone(), amount: Uint128::new(amt) }, offer_asset: Asset { info: io.clone(), amount: Uint128::zero() } },
            )
        });
        let fees = pool_fee(b.fees.0, b.fees.1, b.fees.2);
        let amp = b.amp;
        let hook = guarded(|| {
            compute_offer_amount(Uint128::new(rs[o]), Uint128::new(rs[k]), Uint128::new(rs[un]), Uint128::new(amt), fees.clone(), StableSwap::new(amp.0, amp.1, h, amp.2, amp.3))
                .map_err(|e| e.to_string())
        });
        let same = match (&q, &hook) {
            (Outcome::Ok(x), Outcome::Ok(y)) => {
                mon.stat("reverse_simulation_answered");
                x.offer_amount == y.offer_amount
                    && x.spread_amount == y.spread_amount
                    && x.swap_fee_amount == y.swap_fee_amount
                    && x.protocol_fee_amount == y.protocol_fee_amount
                    && x.burn_fee_amount == y.burn_fee_amount
            }
            (Outcome::Ok(_), _) | (_, Outcome::Ok(_)) => false,
            _ => {
                mon.stat("reverse_simulation_refused");
                true
            }
        };
        mon.check("C14", "trio_reverse_simulation_on_reported_reserves", same, || {
            format!("ReverseSimulation ask {amt} of asset {k} for asset {o}: query {:?}, the pool's formula on reported reserves {rs:?} {:?}", q.as_ok().map(|x| x.offer_amount), hook.as_ok().map(|x| x.offer_amount))
        });
    }
    // ---- C04 solvency: balance >= reported reserve + pending protocol fee, per asset
    for i in 0..3 {
        let solvent = match b.r[i] {
            Some(r) => r.checked_add(b.pend[i]).map(|x| b.pb[i] >= x).unwrap_or(false),
            None => false,
        };
        mon.check("C04", "solvent", solvent, || format!("asset {i}: balance {} reserve {:?} pending {}", b.pb[i], b.r[i], b.pend[i]));
    }
    // ---- C04 amp clauses on the stored configuration
    {
        let (init, target, start, stop) = b.amp;
        mon.check("C04", "amp_stored_in_range", init >= P_MIN_AMP && init <= P_MAX_AMP && target >= P_MIN_AMP && target <= P_MAX_AMP, || format!("amp cfg {:?}", b.amp));
        let eff = opt_outcome(|| StableSwap::new(init, target, h, start, stop).compute_amp_factor());
        match eff {
            Outcome::Ok(e) => {
                mon.check("C04", "amp_between", e >= init.min(target) && e <= init.max(target), || format!("amp cfg {:?} at {h}: {e}", b.amp));
                mon.check("C04", "amp_linear", Some(e) == amp_closed(init, target, start, stop, h), || format!("amp cfg {:?} at {h}: {e}", b.amp));
                if h < stop {
                    mon.stat("hist_ops_during_ramp");
                }
            }
            _ => mon.check("C04", "amp_between", false, || format!("amp cfg {:?} at {h}: no value", b.amp)),
        }
    }
    // ---- C04 ramp acceptance rule
    if let ParsedOp::Config(_o, _c, fees, _t, Some((fa, fb))) = op {
        let fees_ok = fees.map(|(p, s, bb)| p < E18 && s < E18 && bb < E18 && p + s + bb < E18).unwrap_or(true);
        if let Some(cur) = amp_closed(a.amp.0, a.amp.1, a.amp.2, a.amp.3, h) {
            let rule = u == a.own
                && *fa >= P_MIN_AMP
                && *fa <= P_MAX_AMP
                && *fa <= cur * P_MAX_CHANGE
                && cur <= *fa * P_MAX_CHANGE
                && *fb >= h + P_MIN_RAMP_BLOCKS;
            if fees_ok {
                let tag = if *fa < cur { "ramp_down" } else { "ramp_up" };
                mon.check_tag("C04", "ramp_accept_iff_rule", tag, ok == rule, || {
                    format!("ramp current {cur} -> {fa} by block {fb} at {h} sender {u} owner {}: accepted={ok} rule={rule}", a.own)
                });
                mon.stat(if ok { "ramp_accepted" } else { "ramp_rejected" });
            }
            if ok {
                mon.check("C04", "ramp_stored_from_current", b.amp == (cur, *fa, h, *fb), || format!("stored {:?} expected {:?}", b.amp, (cur, fa, h, fb)));
            }
        }
    }
    // ---- C04 LP value: exact D per LP token does not fall across any successful operation
    //      (both sides evaluated at the amplification in effect at this block)
    if ok && !matches!(op, ParsedOp::Config(..)) {
        if let (Some(ra), Some(rb), Some(amp)) = (a.reserves(), b.reserves(), amp_closed(b.amp.0, b.amp.1, b.amp.2, b.amp.3, h)) {
            if a.lps > 0 && b.lps > 0 {
                if let (Some(da), Some(db)) = (d_exact(amp, ra), d_exact(amp, rb)) {
                    let opname = match op {
                        ParsedOp::Provide(..) => "provide",
                        ParsedOp::Withdraw(..) => "withdraw",
                        ParsedOp::Swap(..) => "swap",
                        ParsedOp::Collect => "collect",
                        ParsedOp::Donate(..) => "donate",
                        ParsedOp::Config(..) => "config",
                        ParsedOp::Foreign(..) => "foreign",
                    };
                    let strict = d_per_lp_ok(da, a.lps, db, b.lps, 1);
                    // how many base units of D are missing for the per-LP value to be unchanged
                    let need = Uint256::from(da) * Uint256::from(b.lps);
                    let deficit = if strict { 0u128 } else {
                        let q = (need + Uint256::from(a.lps) - Uint256::one()) / Uint256::from(a.lps);
                        Uint128::try_from(q - Uint256::from(db)).map(|x| x.u128()).unwrap_or(u128::MAX)
                    };
                    let bits = imbalance_bits(&ra).max(imbalance_bits(&rb));
                    let tag = if strict { "" } else if deficit <= 16 { "dust" } else if bits >= 8 { "imbalanced" } else { "other" };
                    mon.check_tag("C04", "d_per_lp_non_decreasing", tag, strict, || {
                        format!("{opname} at amp {amp}: reserves {:?} -> {:?}, exact D {da} -> {db}, LP supply {} -> {}: short by {deficit} units of D, imbalance 2^{bits}", ra, rb, a.lps, b.lps)
                    });
                    if !strict {
                        mon.stat(&format!("d_per_lp_fell_{opname}_{tag}"));
                    }
                    mon.stat(&format!("d_per_lp_checked_{opname}"));
                }
            }
        }
    }
    // ---- swaps: curve output, direction, C14 quote, C07 charge
    if let ParsedOp::Swap(offer, ask, amt, _bp, ms, to) = op {
        if let (true, Outcome::Ok(resp)) = (ok, res) {
            let (offer, ask, amt) = (*offer, *ask, *amt);
            let unsw = 3 - offer - ask;
            let recv = to.unwrap_or(u);
            // realised amounts from balance / ledger deltas
            let ret = b.users[recv][ask] - a.users[recv][ask];
            let pf = b.pend[ask] - a.pend[ask];
            let bf = b.burned[ask] - a.burned[ask];
            let sf_rec = attr(resp, "swap_fee_amount").unwrap_or(u128::MAX);
            let spread_rec = attr(resp, "spread_amount").unwrap_or(u128::MAX);
            let ret_rec = attr(resp, "return_amount").unwrap_or(u128::MAX);
            let pf_rec = attr(resp, "protocol_fee_amount").unwrap_or(u128::MAX);
            w.charged[ask] += pf_rec;
            mon.stat(&format!("swap_dir_{offer}{ask}_{}", if w.native[offer] { "native" } else { "cw20" }));
            if let Some(ra) = a.reserves() {
                let inv = StableSwap::new(a.amp.0, a.amp.1, h, a.amp.2, a.amp.3);
                let curve = opt_outcome(|| inv.swap_to(Uint128::new(amt), Uint128::new(ra[offer]), Uint128::new(ra[ask]), Uint128::new(ra[unsw])));
                let desc = || format!("swap {offer}->{ask} {amt} on {:?}: ret {ret} sf {sf_rec} pf {pf} bf {bf}", ra);
                match curve {
                    Outcome::Ok(c) => {
                        let g = c.amount_swapped.u128();
                        mon.check("C04", "proceeds_plus_fees_eq_curve_output", ret + sf_rec + pf + bf == g, desc);
                        let fee = |sh: u128| (Uint256::from(g) * Uint256::from(sh) / Uint256::from(E18)).to_string();
                        mon.check("C04", "fee_split_exact", sf_rec.to_string() == fee(a.fees.1) && pf.to_string() == fee(a.fees.0) && bf.to_string() == fee(a.fees.2), desc);
                    }
                    _ => mon.check("C04", "proceeds_plus_fees_eq_curve_output", false, desc),
                }
                // direction: offer pool grows by the offer, ask pool pays proceeds + burn, third pool untouched
                let dir_ok = b.pb[offer] == a.pb[offer] + amt && b.pb[ask] + ret + bf == a.pb[ask] && b.pb[unsw] == a.pb[unsw] && b.pend[offer] == a.pend[offer] && b.pend[unsw] == a.pend[unsw];
                mon.check("C04", "swap_moves_the_named_pools_only", dir_ok, desc);
            }
            // C14: the quote taken just before equals what the swap transferred and recorded
            if let Some(s) = sim {
                let desc = || format!("swap {offer}->{ask} {amt}: sim {} exec ret {ret} spread {spread_rec} sf {sf_rec} pf {pf} bf {bf}", show_sim(s));
                match s {
                    Outcome::Ok(q) => mon.check(
                        "C14",
                        "trio_sim_eq_exec",
                        q.return_amount.u128() == ret && q.return_amount.u128() == ret_rec && q.spread_amount.u128() == spread_rec && q.swap_fee_amount.u128() == sf_rec && q.protocol_fee_amount.u128() == pf && q.burn_fee_amount.u128() == bf,
                        desc,
                    ),
                    _ => mon.check("C14", "trio_sim_eq_exec", false, desc),
                }
            }
            // C07: burned amount left the asset's supply
            mon.check("C07", "trio_burn_leaves_supply", a.sup[ask].checked_sub(b.sup[ask]) == Some(bf), || format!("supply {} -> {} burn fee {bf}", a.sup[ask], b.sup[ask]));
            w.burned_sum[ask] += a.sup[ask].saturating_sub(b.sup[ask]);
            // C15: an accepted swap WITH a belief price got at least expected·(1 − limit), where
            // expected = offer · ⌊10^36 / belief⌋ / 10^18 and limit = min(max_spread ?? 1%, 50%)
            if let Some(bp) = _bp {
                if *bp > 0 {
                    let gross = ret + sf_rec + pf + bf;
                    let lim = ms.unwrap_or(E18 / 100).min(E18 / 2);
                    let inv = Uint256::from(E18) * Uint256::from(E18) / Uint256::from(*bp);
                    let expected = Uint256::from(amt) * inv / Uint256::from(E18);
                    if Uint256::from(gross) < expected {
                        let short = expected - Uint256::from(gross);
                        let ratio = short * Uint256::from(E18) / expected;
                        mon.check("C15", "trio_belief_price_respected", ratio <= Uint256::from(lim), || {
                            format!("swap {offer}->{ask} {amt} belief {bp} max_spread {ms:?}: gross {gross} expected {expected} limit {lim}")
                        });
                    }
                    mon.stat("trio_swap_ok_with_belief");
                }
            }
            // C15: an accepted swap without belief price respects min(max_spread ?? 1%, 50%)
            if _bp.is_none() {
                let gross = ret + sf_rec + pf + bf;
                let lim = ms.unwrap_or(E18 / 100).min(E18 / 2);
                if gross + spread_rec > 0 {
                    let ratio = Uint256::from(spread_rec) * Uint256::from(E18) / Uint256::from(gross + spread_rec);
                    mon.check("C15", "trio_max_spread_respected", ratio <= Uint256::from(lim), || format!("spread {spread_rec} gross {gross} limit {lim}"));
                }
            }
            // there-and-back inside a history: same user, reverse direction, offering exactly the proceeds, same block and config
            if let Some((lu, lo, la, lamt, lret, lamp, lh)) = w.last_swap {
                if lu == u && lo == ask && la == offer && amt == lret && to.is_none() && lamp == a.amp && lh == h {
                    let tag = a.reserves().map(|r| rt_tag(&r, lamt, ret).0).unwrap_or("other");
                    mon.check_tag("C04", "round_trip_no_profit", tag, ret <= lamt, || format!("there {lo}->{la} {lamt} got {lret}; back got {ret}; reserves before the way back {:?}", a.r));
                    if ret > lamt {
                        mon.stat(&format!("hist_rt_profit_tag_{tag}"));
                    }
                    mon.stat("hist_round_trips");
                }
            }
            w.last_swap = if to.is_none() { Some((u, offer, ask, amt, ret, a.amp, h)) } else { None };
        } else if ok {
            unreachable!();
        }
    } else if ok {
        w.last_swap = None;
    }
    // ---- C15 (rejection side): a swap that the pool quoted (Simulation answered), that the sender could
    // fund, with swaps enabled, distinct pool assets and no receiver, can only have been refused by the
    // spread assertion — then the documented limit must really have been exceeded
    if let (ParsedOp::Swap(offer, ask, amt, bp, ms, to), false, Some(Outcome::Ok(q))) = (op, ok, sim) {
        let funded = *offer < 3 && *ask < 3 && offer != ask && *amt > 0 && a.users[u][*offer] >= *amt && a.tog.2 && to.is_none();
        let panicked = matches!(res, Outcome::Panic);
        if funded && !panicked {
            let gross = q.return_amount.u128() + q.swap_fee_amount.u128() + q.protocol_fee_amount.u128() + q.burn_fee_amount.u128();
            let spread = q.spread_amount.u128();
            let lim = ms.unwrap_or(E18 / 100).min(E18 / 2);
            let exceeded = match bp {
                Some(b) if *b > 0 => {
                    let inv = Uint256::from(E18) * Uint256::from(E18) / Uint256::from(*b);
                    let expected = Uint256::from(*amt) * inv / Uint256::from(E18);
                    Uint256::from(gross) < expected && (expected - Uint256::from(gross)) * Uint256::from(E18) / expected > Uint256::from(lim)
                }
                Some(_) => true, // a zero belief price is refused outright
                None => gross + spread > 0 && Uint256::from(spread) * Uint256::from(E18) / Uint256::from(gross + spread) > Uint256::from(lim),
            };
            mon.check("C15", "trio_within_limit_not_rejected", exceeded, || {
                format!("swap {offer}->{ask} {amt} belief {bp:?} max_spread {ms:?} was refused although quoted gross {gross} spread {spread} is within the limit {lim}")
            });
            mon.stat("trio_swap_refused_by_spread_check");
        }
    }
    // ---- C07 collect: exactly the entries above the threshold, to the configured collector only
    if let (ParsedOp::Collect, true) = (op, ok) {
        let col = a.col;
        for i in 0..3 {
            let above = a.pend[i] > P_COLLECT_THRESHOLD;
            let got = b.users[col][i] - a.users[col][i];
            let exp = if above { a.pend[i] } else { 0 };
            let left = if above { 0 } else { a.pend[i] };
            w.sent[i] += got;
            mon.check("C07", "trio_collect_exact", got == exp && b.pend[i] == left && a.pb[i] - b.pb[i] == exp, || {
                format!("asset {i}: pending {} -> {}, collector got {got}, pool balance {} -> {}", a.pend[i], b.pend[i], a.pb[i], b.pb[i])
            });
            mon.stat(&format!(
                "collect_at_pending_{}",
                match a.pend[i] {
                    0 => "0".to_string(),
                    1 => "1".to_string(),
                    999 => "999".to_string(),
                    1000 => "1000".to_string(),
                    1001 => "1001".to_string(),
                    x if x < 1000 => "2..998".to_string(),
                    _ => ">1001".to_string(),
                }
            ));
        }
        let others_same = (0..6).filter(|x| *x != col).all(|x| a.users[x] == b.users[x]);
        mon.check("C07", "trio_collect_to_collector_only", others_same && a.users[col][3] == b.users[col][3], || "another account's balance moved during collect".to_string());
        mon.check("C07", "trio_collect_leaves_reserves", a.r == b.r && a.lps == b.lps, || format!("reserves {:?} -> {:?}", a.r, b.r));
    }
    // ---- C07 ledgers after every operation
    for i in 0..3 {
        mon.check("C07", "trio_ledger_eq", w.sent[i] <= w.charged[i] && b.pend[i] == w.charged[i] - w.sent[i].min(w.charged[i]), || format!("asset {i}: pending {} charged {} sent {}", b.pend[i], w.charged[i], w.sent[i]));
        mon.check("C07", "trio_all_time_eq", b.all[i] == w.charged[i] && b.all[i] >= a.all[i], || format!("asset {i}: all_time {} charged {}", b.all[i], w.charged[i]));
        mon.check("C07", "trio_burned_eq", b.burned[i] == w.burned_sum[i] && b.burned[i] >= a.burned[i] && w.sup0[i].checked_sub(b.sup[i]) == Some(b.burned[i]), || {
            format!("asset {i}: burned {} sum {} supply {} of {}", b.burned[i], w.burned_sum[i], b.sup[i], w.sup0[i])
        });
    }
}

impl Engine for Trio {
    fn exec(&mut self, line: &str, mon: &mut Monitor) -> String {
        let ws: Vec<&str> = line.split_whitespace().collect();
        if ws.is_empty() {
            return "bad-op".into();
        }
        if ws[0] == "call" {
            if ws.len() < 2 {
                return "bad-op".into();
            }
            return pure_call(ws[1], &ws[2..], mon);
        }
        if ws[0] == "init" {
            if ws.get(1) != Some(&"trio") {
                return "bad-op".into();
            }
            let g = |k: &str| kv(&ws, k).and_then(|v| v.parse::<u128>().ok());
            let kinds = kv(&ws, "kinds").unwrap_or("");
            return match (g("p"), g("s"), g("b"), g("amp"), g("h"), g("fund")) {
                (Some(p), Some(s), Some(b), Some(amp), Some(h), Some(fund)) => match World::new(kinds, p, s, b, amp as u64, h as u64, fund) {
                    Some(w) => {
                        let o = format!("ok {}", w.snap().show());
                        self.w = Some(w);
                        mon.stat(&format!("init_kinds_{kinds}"));
                        o
                    }
                    None => {
                        self.w = None;
                        "bad-op".into()
                    }
                },
                _ => "bad-op".into(),
            };
        }
        self.exec_op(&ws, mon)
    }

    fn next_op(&mut self, rng: &mut Rng, step: u64) -> Option<String> {
        match crate::engines::trio_gen::next(self, rng, step) {
            Some(l) => Some(l),
            None => None,
        }
    }
}

impl Trio {
    pub fn new(variant: &str) -> Self {
        Trio { variant: variant.to_string(), ..Default::default() }
    }
}

// accessors for the generator (kept in a sibling module to keep this file readable)
impl Trio {
    pub(crate) fn gen_state(&mut self) -> (&mut u64, &mut VecDeque<String>, &mut u64, &mut u64) {
        (&mut self.height, &mut self.queue, &mut self.len, &mut self.pure_n)
    }
    /// current public state of the real pool, for a state-aware generator
    pub(crate) fn peek(&self) -> Option<GenView> {
        let w = self.w.as_ref()?;
        let s = w.snap();
        Some(GenView { r: s.reserves()?, lps: s.lps, pend: s.pend, amp: s.amp, own: s.own, users: s.users, fees: s.fees, native: w.native })
    }
    /// smallest offer whose simulated protocol fee is at least `want` (Simulation query; monotone search)
    pub(crate) fn offer_for_protocol_fee(&self, offer: usize, ask: usize, want: u128, hi: u128) -> Option<u128> {
        let w = self.w.as_ref()?;
        let pf = |amt: u128| -> Option<u128> {
            match w.simulate(offer, ask, amt) {
                Outcome::Ok(s) => Some(s.protocol_fee_amount.u128()),
                _ => None,
            }
        };
        let (mut lo, mut hi) = (1u128, hi);
        if pf(hi)? < want {
            return None;
        }
        while lo < hi {
            let mid = lo + (hi - lo) / 2;
            match pf(mid) {
                Some(v) if v >= want => hi = mid,
                Some(_) => lo = mid + 1,
                None => lo = mid + 1,
            }
        }
        if pf(lo)? == want {
            Some(lo)
        } else {
            None
        }
    }
    /// proceeds of the last successful swap if it was `u`'s swap `offer -> ask`
    pub(crate) fn last_return(&self, u: usize, offer: usize, ask: usize) -> Option<u128> {
        match self.w.as_ref()?.last_swap {
            Some((lu, lo, la, _amt, ret, _, _)) if lu == u && lo == offer && la == ask => Some(ret),
            _ => None,
        }
    }
    pub(crate) fn set_block_for_gen(&mut self, h: u64) {
        if let Some(w) = self.w.as_mut() {
            w.app.update_block(|b| b.height = h);
        }
    }
}

pub(crate) struct GenView {
    pub r: [u128; 3],
    pub lps: u128,
    pub pend: [u128; 3],
    pub amp: (u64, u64, u64, u64),
    pub own: usize,
    pub users: [[u128; 4]; 6],
    pub fees: (u128, u128, u128),
    pub native: [bool; 3],
}
