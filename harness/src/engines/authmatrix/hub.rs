//! The whole liquidity hub in one cw-multi-test App, wired as in production:
//! pool factory -> pair [uwhale, TOK] + trio [uusdc, uusdt, TOK] (cw20 LP tokens), pool router (wasm admin set,
//! routes), vault factory -> vault [uwhale], vault router, fee collector <-> fee distributor <-> whale lair,
//! incentive factory -> incentive on the pair's LP token, frontend helper, epoch manager (+ a hook sink).
//! Everything is funded so that payload-valid calls can succeed.
//!
//! Transient state (phase `inloan`): a BORROWER mock contract takes a flash loan from the hub's vault and,
//! inside the loan callback (LOAN_COUNTER = 1, the loaned coins out of the vault), makes the call under test.
//! The call is made through the App's custom-message module (`Injector`): `CosmosMsg::Custom(InjectMsg)` is
//! routed as `WasmMsg::Execute` with the sender named in the message, so that EVERY role address can be the
//! sender of a call nested in the loan (a top-level `app.execute(sender, ..)` can impersonate anybody; a
//! message sent by a contract cannot, hence the module). The module writes the nested call's own result
//! (ok / depth / root error text) to a log outside the transactional storage; the borrower catches the
//! error of the nested call (`reply_always`), pays the loan back and the transaction completes. The loan is
//! small enough for all its fees to floor to zero, so a loan whose nested call was refused must leave every
//! contract and balance byte-identical (checked once per hub on a loan without nested call).
use cosmwasm_schema::cw_serde;
use cosmwasm_std::{
    coin, to_json_binary, Addr, Api, BankMsg, Binary, BlockInfo, Coin, CosmosMsg, CustomQuery, Decimal, Empty, Querier,
    Reply, Response, StdError, Storage, SubMsg, Uint128, Uint64, WasmMsg,
};
use cw_multi_test::{
    App, AppResponse, BankKeeper, BasicAppBuilder, ContractWrapper, CosmosRouter, Executor, Module, WasmKeeper,
};
use std::cell::RefCell;
use std::rc::Rc;
use white_whale_std::epoch_manager::epoch_manager as em;
use white_whale_std::epoch_manager::hooks::EpochChangedHookMsg;
use white_whale_std::fee::{Fee, VaultFee};
use white_whale_std::fee_collector as fc;
use white_whale_std::fee_distributor as fd;
use white_whale_std::pool_network::asset::{Asset, AssetInfo, PairInfo, PairType, TrioInfo};
use white_whale_std::pool_network::{
    factory as pf, frontend_helper as fh, incentive as inc, incentive_factory as incf, pair, router, trio,
};
use white_whale_std::vault_network::{vault as vmsg, vault_factory as vf, vault_router as vr};
use white_whale_std::whale_lair as wl;

pub const DAY_NS: u64 = 86_400_000_000_000;
pub const HELPER_ALLOWANCE: u128 = 7_777;
pub const DENOMS: [&str; 4] = ["uwhale", "uusdc", "uusdt", "bwhale"];

/// amount the borrower mock borrows: every fee share of the hub's vault (1 permille) floors to zero on it
pub const LOAN_AMOUNT: u128 = 500;

/// the flows of the hub's incentive contract, in creation order: (flow id, creator is `flowCreator` (else
/// `otherFlowCreator`), label, starts one epoch later). Storage order (start_epoch, flow_id) is 1, 2, 4, 3:
/// label "shared" denotes flow 1 (flowCreator's) although otherFlowCreator owns a flow carrying it too, and
/// label "late" denotes flow 4 (otherFlowCreator's) although flowCreator owns flow 3 carrying it too.
pub const FLOW_WORLD: [(u64, bool, &str, bool); 4] =
    [(1, true, "shared", false), (2, false, "shared", false), (3, true, "late", true), (4, false, "late", false)];
/// object selectors of the op line for messages that name a flow
pub const FLOW_SELECTORS: [&str; 7] = ["id1", "id2", "id3", "id4", "labShared", "labLate", "id9"];
pub fn flow_identifier(sel: &str) -> Option<inc::FlowIdentifier> {
    Some(match sel {
        "id1" => inc::FlowIdentifier::Id(1),
        "id2" => inc::FlowIdentifier::Id(2),
        "id3" => inc::FlowIdentifier::Id(3),
        "id4" => inc::FlowIdentifier::Id(4),
        "id9" => inc::FlowIdentifier::Id(9),
        "labShared" => inc::FlowIdentifier::Label("shared".into()),
        "labLate" => inc::FlowIdentifier::Label("late".into()),
        _ => return None,
    })
}

/// custom message of the hub's App: "execute this wasm message with THAT sender" (see module docs)
#[cw_serde]
pub struct InjectMsg {
    pub sender: String,
    pub contract_addr: String,
    pub msg: Binary,
    pub funds: Vec<Coin>,
}
impl cosmwasm_std::CustomMsg for InjectMsg {}

/// result of the nested call itself, as seen by the module that dispatched it
#[derive(Clone, Debug, PartialEq)]
pub enum InnerOutcome {
    Ok,
    /// (number of `WasmMsg` levels in the error chain: 1 = refused by the called contract itself, root error text)
    Err(usize, String),
}

pub type InjectLog = Rc<RefCell<Vec<InnerOutcome>>>;

pub struct Injector {
    pub log: InjectLog,
}

pub fn error_depth_and_root(e: &anyhow::Error) -> (usize, String) {
    let chain: Vec<String> = e.chain().map(|c| c.to_string()).collect();
    let depth = chain.iter().filter(|c| c.starts_with("error executing WasmMsg")).count();
    (depth, chain.last().cloned().unwrap_or_default())
}

impl Module for Injector {
    type ExecT = InjectMsg;
    type QueryT = Empty;
    type SudoT = Empty;

    fn execute<ExecC, QueryC>(
        &self,
        api: &dyn Api,
        storage: &mut dyn Storage,
        router: &dyn CosmosRouter<ExecC = ExecC, QueryC = QueryC>,
        block: &BlockInfo,
        _sender: Addr,
        msg: InjectMsg,
    ) -> anyhow::Result<AppResponse>
    where
        ExecC: std::fmt::Debug + Clone + PartialEq + schemars::JsonSchema + serde::de::DeserializeOwned + 'static,
        QueryC: CustomQuery + serde::de::DeserializeOwned + 'static,
    {
        let InjectMsg { sender, contract_addr, msg, funds } = msg;
        let r = router.execute(
            api,
            storage,
            block,
            Addr::unchecked(sender),
            CosmosMsg::Wasm(WasmMsg::Execute { contract_addr, msg, funds }),
        );
        self.log.borrow_mut().push(match &r {
            Ok(_) => InnerOutcome::Ok,
            Err(e) => {
                let (d, root) = error_depth_and_root(e);
                InnerOutcome::Err(d, root)
            }
        });
        r
    }

    fn sudo<ExecC, QueryC>(
        &self,
        _api: &dyn Api,
        _storage: &mut dyn Storage,
        _router: &dyn CosmosRouter<ExecC = ExecC, QueryC = QueryC>,
        _block: &BlockInfo,
        _msg: Empty,
    ) -> anyhow::Result<AppResponse>
    where
        ExecC: std::fmt::Debug + Clone + PartialEq + schemars::JsonSchema + serde::de::DeserializeOwned + 'static,
        QueryC: CustomQuery + serde::de::DeserializeOwned + 'static,
    {
        anyhow::bail!("injector: no sudo")
    }

    fn query(
        &self,
        _api: &dyn Api,
        _storage: &dyn Storage,
        _querier: &dyn Querier,
        _block: &BlockInfo,
        _request: Empty,
    ) -> anyhow::Result<Binary> {
        anyhow::bail!("injector: no query")
    }
}

pub type HubApp = App<BankKeeper, cosmwasm_std::testing::MockApi, cosmwasm_std::testing::MockStorage, Injector, WasmKeeper<InjectMsg, Empty>>;

/// the borrower mock: `Start` borrows `amount` from `vault`; the vault calls back `Loaned` with the coins;
/// there the borrower makes the nested call (if any), swallows its error, and pays back exactly what it got
#[cw_serde]
pub enum BorrowerMsg {
    Start { vault: String, amount: Uint128, inner: Option<InjectMsg> },
    Loaned { inner: Option<InjectMsg> },
}

fn borrower_execute(
    _d: cosmwasm_std::DepsMut,
    _e: cosmwasm_std::Env,
    info: cosmwasm_std::MessageInfo,
    msg: BorrowerMsg,
) -> Result<Response<InjectMsg>, StdError> {
    match msg {
        BorrowerMsg::Start { vault, amount, inner } => Ok(Response::new().add_message(WasmMsg::Execute {
            contract_addr: vault,
            msg: to_json_binary(&vmsg::ExecuteMsg::FlashLoan { amount, msg: to_json_binary(&BorrowerMsg::Loaned { inner })? })?,
            funds: vec![],
        })),
        BorrowerMsg::Loaned { inner } => {
            let mut r = Response::new();
            if let Some(i) = inner {
                r = r.add_submessage(SubMsg::reply_always(CosmosMsg::Custom(i), 1));
            }
            Ok(r.add_message(BankMsg::Send { to_address: info.sender.into_string(), amount: info.funds }))
        }
    }
}

fn borrower_contract() -> Box<dyn cw_multi_test::Contract<InjectMsg>> {
    Box::new(
        ContractWrapper::new(
            borrower_execute,
            |_d, _e, _i, _m: Empty| -> Result<Response<InjectMsg>, StdError> { Ok(Response::new()) },
            |_d, _e, _m: Empty| -> Result<Binary, StdError> { Err(StdError::generic_err("no query")) },
        )
        .with_reply(|_d, _e, _r: Reply| -> Result<Response<InjectMsg>, StdError> { Ok(Response::new()) }),
    )
}

#[cw_serde]
pub enum SinkMsg {
    EpochChangedHook(EpochChangedHookMsg),
}

fn sink_contract() -> Box<dyn cw_multi_test::Contract<InjectMsg>> {
    Box::new(ContractWrapper::new_with_empty(
        |_d, _e, _i, _m: SinkMsg| -> Result<Response, StdError> { Ok(Response::new()) },
        |_d, _e, _i, _m: Empty| -> Result<Response, StdError> { Ok(Response::new()) },
        |_d, _e, _m: Empty| -> Result<Binary, StdError> { Err(StdError::generic_err("no query")) },
    ))
}

pub fn nat(d: &str) -> AssetInfo {
    AssetInfo::NativeToken { denom: d.into() }
}
pub fn tok(a: &Addr) -> AssetInfo {
    AssetInfo::Token { contract_addr: a.to_string() }
}
pub fn fee(permille: u64) -> Fee {
    Fee { share: Decimal::permille(permille) }
}

pub struct Codes {
    pub token: u64,
    pub pair: u64,
    pub trio: u64,
    pub vault: u64,
    pub incentive: u64,
}

pub struct Hub {
    pub app: HubApp,
    /// results of nested calls dispatched by the Injector module (survives reverts)
    pub inject_log: InjectLog,
    // accounts
    pub o: Addr,
    pub n: Addr,
    pub u: Addr,
    pub a: Addr,
    pub f: Addr,
    /// `otherFlowCreator`: owns flows 2 and 4, which share their labels with flowCreator's flows 1 and 3
    pub g: Addr,
    // contracts
    pub pool_factory: Addr,
    pub pair: Addr,
    pub trio: Addr,
    pub router: Addr,
    pub lp: Addr, // the pair's LP token = the terraswap_token instance under test
    pub trio_lp: Addr,
    pub asset_token: Addr,
    pub inc_factory: Addr,
    pub incentive: Addr,
    pub helper: Addr,
    pub vault_factory: Addr,
    pub vault: Addr,
    pub vault_lp: Addr,
    pub vault_router: Addr,
    pub collector: Addr,
    pub distributor: Addr,
    pub lair: Addr,
    pub epoch_manager: Addr,
    pub sink: Addr,
    pub borrower: Addr,
    pub codes: Codes,
    pub transferred: bool,
}

type R<T> = Result<T, String>;
fn s<E: std::fmt::Display>(what: &'static str) -> impl Fn(E) -> String {
    move |e| format!("{what}: {e:#}")
}

impl Hub {
    pub fn build() -> R<Hub> {
        let o = Addr::unchecked("owner");
        let n = Addr::unchecked("newowner");
        let u = Addr::unchecked("user");
        let a = Addr::unchecked("wasmadmin");
        let f = Addr::unchecked("flowcreator");
        let g = Addr::unchecked("otherflowcreator");
        let eoas = [o.clone(), n.clone(), u.clone(), a.clone(), f.clone(), g.clone()];
        let big = 10u128.pow(13);
        let bals: Vec<(Addr, Vec<Coin>)> =
            eoas.iter().map(|e| (e.clone(), DENOMS.iter().map(|d| coin(big, *d)).collect())).collect();
        let inject_log: InjectLog = Rc::new(RefCell::new(vec![]));
        let mut app: HubApp = BasicAppBuilder::<InjectMsg, Empty>::new_custom()
            .with_custom(Injector { log: inject_log.clone() })
            .build(|router, _api, storage| {
                for (a, c) in bals {
                    router.bank.init_balance(storage, &a, c).unwrap();
                }
            });
        let t0 = app.block_info().time;
        let adm = Some(a.to_string());

        let token_id = app.store_code(Box::new(ContractWrapper::new_with_empty(
            terraswap_token::contract::execute,
            terraswap_token::contract::instantiate,
            terraswap_token::contract::query,
        )));
        let pair_id = app.store_code(Box::new(
            ContractWrapper::new_with_empty(
                terraswap_pair::contract::execute,
                terraswap_pair::contract::instantiate,
                terraswap_pair::contract::query,
            )
            .with_reply_empty(terraswap_pair::contract::reply)
            .with_migrate_empty(child_migrate_accepts),
        ));
        let trio_id = app.store_code(Box::new(
            ContractWrapper::new_with_empty(
                stableswap_3pool::contract::execute,
                stableswap_3pool::contract::instantiate,
                stableswap_3pool::contract::query,
            )
            .with_reply_empty(stableswap_3pool::contract::reply)
            .with_migrate_empty(child_migrate_accepts),
        ));
        let pfac_id = app.store_code(Box::new(
            ContractWrapper::new_with_empty(
                terraswap_factory::contract::execute,
                terraswap_factory::contract::instantiate,
                terraswap_factory::contract::query,
            )
            .with_reply_empty(terraswap_factory::contract::reply),
        ));
        let router_id = app.store_code(Box::new(ContractWrapper::new_with_empty(
            terraswap_router::contract::execute,
            terraswap_router::contract::instantiate,
            terraswap_router::contract::query,
        )));
        let incf_id = app.store_code(Box::new(
            ContractWrapper::new_with_empty(
                incentive_factory::contract::execute,
                incentive_factory::contract::instantiate,
                incentive_factory::contract::query,
            )
            .with_reply_empty(incentive_factory::contract::reply),
        ));
        let inc_id = app.store_code(Box::new(
            ContractWrapper::new_with_empty(incentive::contract::execute, incentive::contract::instantiate, incentive::contract::query)
                .with_migrate_empty(child_migrate_accepts),
        ));
        let helper_id = app.store_code(Box::new(
            ContractWrapper::new_with_empty(
                frontend_helper::contract::execute,
                frontend_helper::contract::instantiate,
                frontend_helper::contract::query,
            )
            .with_reply_empty(frontend_helper::contract::reply),
        ));
        let vfac_id = app.store_code(Box::new(
            ContractWrapper::new_with_empty(
                vault_factory::contract::execute,
                vault_factory::contract::instantiate,
                vault_factory::contract::query,
            )
            .with_reply_empty(vault_factory::reply::reply),
        ));
        let vault_id = app.store_code(Box::new(
            ContractWrapper::new_with_empty(vault::contract::execute, vault::contract::instantiate, vault::contract::query)
                .with_reply_empty(vault::reply::reply)
                .with_migrate_empty(child_migrate_accepts),
        ));
        let vrouter_id = app.store_code(Box::new(ContractWrapper::new_with_empty(
            vault_router::contract::execute,
            vault_router::contract::instantiate,
            vault_router::contract::query,
        )));
        let col_id = app.store_code(Box::new(
            ContractWrapper::new_with_empty(
                fee_collector::contract::execute,
                fee_collector::contract::instantiate,
                fee_collector::contract::query,
            )
            .with_reply_empty(fee_collector::contract::reply),
        ));
        let dist_id = app.store_code(Box::new(
            ContractWrapper::new_with_empty(
                fee_distributor::contract::execute,
                fee_distributor::contract::instantiate,
                fee_distributor::contract::query,
            )
            .with_reply_empty(fee_distributor::contract::reply),
        ));
        let lair_id = app.store_code(Box::new(ContractWrapper::new_with_empty(
            whale_lair::contract::execute,
            whale_lair::contract::instantiate,
            whale_lair::contract::query,
        )));
        let em_id = app.store_code(Box::new(ContractWrapper::new_with_empty(
            epoch_manager::contract::execute,
            epoch_manager::contract::instantiate,
            epoch_manager::contract::query,
        )));
        let sink_id = app.store_code(sink_contract());

        // fee pipeline
        let collector = app
            .instantiate_contract(col_id, o.clone(), &fc::InstantiateMsg {}, &[], "collector", adm.clone())
            .map_err(s("collector"))?;
        let lair = app
            .instantiate_contract(
                lair_id,
                o.clone(),
                &wl::InstantiateMsg {
                    unbonding_period: Uint64::new(1_000_000_000),
                    growth_rate: Decimal::zero(),
                    bonding_assets: vec![nat("bwhale")],
                },
                &[],
                "lair",
                adm.clone(),
            )
            .map_err(s("lair"))?;
        let epoch_config = em::EpochConfig { duration: Uint64::new(DAY_NS), genesis_epoch: Uint64::new(t0.nanos()) };
        let distributor = app
            .instantiate_contract(
                dist_id,
                o.clone(),
                &fd::InstantiateMsg {
                    bonding_contract_addr: lair.to_string(),
                    fee_collector_addr: collector.to_string(),
                    grace_period: Uint64::new(2),
                    epoch_config: epoch_config.clone(),
                    distribution_asset: nat("uwhale"),
                },
                &[],
                "distributor",
                adm.clone(),
            )
            .map_err(s("distributor"))?;
        app.execute_contract(
            o.clone(),
            lair.clone(),
            &wl::ExecuteMsg::UpdateConfig {
                owner: None,
                unbonding_period: None,
                growth_rate: None,
                fee_distributor_addr: Some(distributor.to_string()),
            },
            &[],
        )
        .map_err(s("lair cfg"))?;

        // cw20 asset token
        let asset_token = app
            .instantiate_contract(
                token_id,
                o.clone(),
                &white_whale_std::pool_network::token::InstantiateMsg {
                    name: "asset token".into(),
                    symbol: "TOK".into(),
                    decimals: 6,
                    initial_balances: eoas
                        .iter()
                        .map(|e| cw20::Cw20Coin { address: e.to_string(), amount: Uint128::new(big) })
                        .collect(),
                    mint: Some(cw20::MinterResponse { minter: o.to_string(), cap: None }),
                },
                &[],
                "tok",
                adm.clone(),
            )
            .map_err(s("tok"))?;

        // pool network
        let pool_factory = app
            .instantiate_contract(
                pfac_id,
                o.clone(),
                &pf::InstantiateMsg {
                    pair_code_id: pair_id,
                    trio_code_id: trio_id,
                    token_code_id: token_id,
                    fee_collector_addr: collector.to_string(),
                },
                &[],
                "pool_factory",
                adm.clone(),
            )
            .map_err(s("pool factory"))?;
        for d in ["uwhale", "uusdc", "uusdt"] {
            app.execute_contract(
                o.clone(),
                pool_factory.clone(),
                &pf::ExecuteMsg::AddNativeTokenDecimals { denom: d.into(), decimals: 6 },
                &[],
            )
            .map_err(s("decimals"))?;
        }
        let pair_assets = [nat("uwhale"), tok(&asset_token)];
        let trio_assets = [nat("uusdc"), nat("uusdt"), tok(&asset_token)];
        app.execute_contract(
            o.clone(),
            pool_factory.clone(),
            &pf::ExecuteMsg::CreatePair {
                asset_infos: pair_assets.clone(),
                pool_fees: pair::PoolFee { protocol_fee: fee(10), swap_fee: fee(2), burn_fee: fee(0) },
                pair_type: PairType::ConstantProduct,
                token_factory_lp: false,
            },
            &[],
        )
        .map_err(s("create pair"))?;
        app.execute_contract(
            o.clone(),
            pool_factory.clone(),
            &pf::ExecuteMsg::CreateTrio {
                asset_infos: trio_assets.clone(),
                pool_fees: trio::PoolFee { protocol_fee: fee(10), swap_fee: fee(2), burn_fee: fee(0) },
                amp_factor: 100,
                token_factory_lp: false,
            },
            &[],
        )
        .map_err(s("create trio"))?;
        let pi: PairInfo = app
            .wrap()
            .query_wasm_smart(&pool_factory, &pf::QueryMsg::Pair { asset_infos: pair_assets.clone() })
            .map_err(s("pair info"))?;
        let ti: TrioInfo = app
            .wrap()
            .query_wasm_smart(&pool_factory, &pf::QueryMsg::Trio { asset_infos: trio_assets.clone() })
            .map_err(s("trio info"))?;
        let pair = Addr::unchecked(pi.contract_addr);
        let trio = Addr::unchecked(ti.contract_addr);
        let lp = match pi.liquidity_token {
            AssetInfo::Token { contract_addr } => Addr::unchecked(contract_addr),
            _ => return Err("pair lp not cw20".into()),
        };
        let trio_lp = match ti.liquidity_token {
            AssetInfo::Token { contract_addr } => Addr::unchecked(contract_addr),
            _ => return Err("trio lp not cw20".into()),
        };
        let router = app
            .instantiate_contract(
                router_id,
                o.clone(),
                &router::InstantiateMsg { terraswap_factory: pool_factory.to_string() },
                &[],
                "router",
                adm.clone(),
            )
            .map_err(s("router"))?;

        // incentive network + helper
        let inc_factory = app
            .instantiate_contract(
                incf_id,
                o.clone(),
                &incf::InstantiateMsg {
                    fee_collector_addr: collector.to_string(),
                    fee_distributor_addr: distributor.to_string(),
                    create_flow_fee: Asset { info: nat("uwhale"), amount: Uint128::new(1_000) },
                    max_concurrent_flows: 7,
                    incentive_code_id: inc_id,
                    max_flow_epoch_buffer: 14,
                    min_unbonding_duration: 86_400,
                    max_unbonding_duration: 31_556_926,
                },
                &[],
                "inc_factory",
                adm.clone(),
            )
            .map_err(s("inc factory"))?;
        let helper = app
            .instantiate_contract(
                helper_id,
                o.clone(),
                &fh::InstantiateMsg { incentive_factory: inc_factory.to_string() },
                &[],
                "helper",
                adm.clone(),
            )
            .map_err(s("helper"))?;

        // allowances on the asset token, liquidity
        let allow = |app: &mut HubApp, owner: &Addr, token: &Addr, spender: &Addr, amount: u128| -> R<()> {
            app.execute_contract(
                owner.clone(),
                token.clone(),
                &cw20::Cw20ExecuteMsg::IncreaseAllowance {
                    spender: spender.to_string(),
                    amount: Uint128::new(amount),
                    expires: None,
                },
                &[],
            )
            .map(|_| ())
            .map_err(s("allowance"))
        };
        for e in &eoas {
            allow(&mut app, e, &asset_token, &pair, 10u128.pow(12))?;
            allow(&mut app, e, &asset_token, &trio, 10u128.pow(12))?;
            allow(&mut app, e, &asset_token, &helper, HELPER_ALLOWANCE)?;
        }
        let liq = 10u128.pow(10);
        app.execute_contract(
            o.clone(),
            pair.clone(),
            &pair::ExecuteMsg::ProvideLiquidity {
                assets: [
                    Asset { info: nat("uwhale"), amount: liq.into() },
                    Asset { info: tok(&asset_token), amount: liq.into() },
                ],
                slippage_tolerance: None,
                receiver: None,
            },
            &[coin(liq, "uwhale")],
        )
        .map_err(s("pair liquidity"))?;
        app.execute_contract(
            o.clone(),
            trio.clone(),
            &trio::ExecuteMsg::ProvideLiquidity {
                assets: [
                    Asset { info: nat("uusdc"), amount: liq.into() },
                    Asset { info: nat("uusdt"), amount: liq.into() },
                    Asset { info: tok(&asset_token), amount: liq.into() },
                ],
                slippage_tolerance: None,
                receiver: None,
            },
            &[coin(liq, "uusdc"), coin(liq, "uusdt")],
        )
        .map_err(s("trio liquidity"))?;
        app.execute_contract(
            a.clone(),
            router.clone(),
            &router::ExecuteMsg::AddSwapRoutes {
                swap_routes: vec![router::SwapRoute {
                    offer_asset_info: tok(&asset_token),
                    ask_asset_info: nat("uwhale"),
                    swap_operations: vec![router::SwapOperation::TerraSwap {
                        offer_asset_info: tok(&asset_token),
                        ask_asset_info: nat("uwhale"),
                    }],
                }],
            },
            &[],
        )
        .map_err(s("routes"))?;

        // vault network
        // contracts whose InstantiateMsg NAMES the owner are deployed by somebody else: the configured owner is
        // the one the message names, not whoever happened to send it
        let deployer = Addr::unchecked("deployer");
        let vault_factory = app
            .instantiate_contract(
                vfac_id,
                deployer.clone(),
                &vf::InstantiateMsg {
                    owner: o.to_string(),
                    vault_id,
                    token_id,
                    fee_collector_addr: collector.to_string(),
                },
                &[],
                "vault_factory",
                adm.clone(),
            )
            .map_err(s("vault factory"))?;
        app.execute_contract(
            o.clone(),
            vault_factory.clone(),
            &vf::ExecuteMsg::CreateVault {
                asset_info: nat("uwhale"),
                fees: VaultFee { protocol_fee: fee(1), flash_loan_fee: fee(1), burn_fee: fee(0) },
                token_factory_lp: false,
            },
            &[],
        )
        .map_err(s("create vault"))?;
        let vault_s: Option<String> = app
            .wrap()
            .query_wasm_smart(&vault_factory, &vf::QueryMsg::Vault { asset_info: nat("uwhale") })
            .map_err(s("vault addr"))?;
        let vault = Addr::unchecked(vault_s.ok_or("no vault")?);
        let vcfg: vmsg::Config =
            app.wrap().query_wasm_smart(&vault, &vmsg::QueryMsg::Config {}).map_err(s("vault cfg"))?;
        let vault_lp = match vcfg.lp_asset {
            AssetInfo::Token { contract_addr } => Addr::unchecked(contract_addr),
            _ => return Err("vault lp not cw20".into()),
        };
        let vault_router = app
            .instantiate_contract(
                vrouter_id,
                deployer.clone(),
                &vr::InstantiateMsg { owner: o.to_string(), vault_factory_addr: vault_factory.to_string() },
                &[],
                "vault_router",
                adm.clone(),
            )
            .map_err(s("vault router"))?;
        app.execute_contract(
            o.clone(),
            vault.clone(),
            &vmsg::ExecuteMsg::Deposit { amount: liq.into() },
            &[coin(liq, "uwhale")],
        )
        .map_err(s("vault deposit"))?;

        // LP tokens to everybody (and a little to the pools / vault themselves so that a hook call
        // made directly by the LP token has something to burn)
        for (token, holder) in [(&lp, &pair), (&trio_lp, &trio), (&vault_lp, &vault)] {
            for e in eoas.iter().skip(1).chain(std::iter::once(holder)) {
                app.execute_contract(
                    o.clone(),
                    token.clone(),
                    &cw20::Cw20ExecuteMsg::Transfer { recipient: e.to_string(), amount: Uint128::new(10_000_000) },
                    &[],
                )
                .map_err(s("lp transfer"))?;
            }
        }
        // the owner lets everybody in the cast spend some of its LP (TransferFrom / SendFrom / BurnFrom)
        for e in eoas.iter().skip(1) {
            allow(&mut app, &o, &lp, e, 1_000_000)?;
        }

        // collector wiring
        app.execute_contract(
            o.clone(),
            collector.clone(),
            &fc::ExecuteMsg::UpdateConfig {
                owner: None,
                pool_router: Some(router.to_string()),
                fee_distributor: Some(distributor.to_string()),
                pool_factory: Some(pool_factory.to_string()),
                vault_factory: Some(vault_factory.to_string()),
                take_rate: Some(Decimal::percent(10)),
                take_rate_dao_address: Some("dao".into()),
                is_take_rate_active: Some(true),
            },
            &[],
        )
        .map_err(s("collector cfg"))?;

        // first epoch, bonding
        app.execute_contract(u.clone(), distributor.clone(), &fd::ExecuteMsg::NewEpoch {}, &[])
            .map_err(s("first epoch"))?;
        app.execute_contract(
            u.clone(),
            lair.clone(),
            &wl::ExecuteMsg::Bond { asset: Asset { info: nat("bwhale"), amount: Uint128::new(1_000_000) } },
            &[coin(1_000_000, "bwhale")],
        )
        .map_err(s("bond"))?;

        // incentive on the pair's LP token, a position and a flow
        app.execute_contract(
            o.clone(),
            inc_factory.clone(),
            &incf::ExecuteMsg::CreateIncentive { lp_asset: tok(&lp) },
            &[],
        )
        .map_err(s("create incentive"))?;
        let ir: incf::IncentiveResponse = app
            .wrap()
            .query_wasm_smart(&inc_factory, &incf::QueryMsg::Incentive { lp_asset: tok(&lp) })
            .map_err(s("incentive addr"))?;
        let incentive = ir.ok_or("no incentive")?;
        for e in &eoas {
            allow(&mut app, e, &lp, &incentive, 1_000_000)?;
        }
        app.execute_contract(
            u.clone(),
            incentive.clone(),
            &inc::ExecuteMsg::OpenPosition { amount: Uint128::new(100_000), unbonding_duration: 86_400, receiver: None },
            &[],
        )
        .map_err(s("open position"))?;
        // four flows, two creators, two labels each carried by a flow of either creator (FLOW_WORLD)
        let epoch_now: fd::EpochResponse = app
            .wrap()
            .query_wasm_smart(&distributor, &fd::QueryMsg::CurrentEpoch {})
            .map_err(s("current epoch"))?;
        let e_now = epoch_now.epoch.id.u64();
        for (id, by_f, label, later) in FLOW_WORLD {
            let amount = 1_000_000 * id as u128;
            app.execute_contract(
                if by_f { f.clone() } else { g.clone() },
                incentive.clone(),
                &inc::ExecuteMsg::OpenFlow {
                    start_epoch: if later { Some(e_now + 1) } else { None },
                    end_epoch: Some(12),
                    curve: None,
                    flow_asset: Asset { info: nat("uusdc"), amount: Uint128::new(amount) },
                    flow_label: Some(label.into()),
                },
                &[coin(amount, "uusdc"), coin(1_000, "uwhale")],
            )
            .map_err(s("open flow"))?;
        }

        // epoch manager with one hook
        let epoch_manager = app
            .instantiate_contract(
                em_id,
                o.clone(),
                &em::InstantiateMsg {
                    start_epoch: em::EpochV2 { id: 1, start_time: t0 },
                    epoch_config: epoch_config.clone(),
                },
                &[],
                "epoch_manager",
                adm.clone(),
            )
            .map_err(s("epoch manager"))?;
        let sink = app
            .instantiate_contract(sink_id, o.clone(), &Empty {}, &[], "sink", None)
            .map_err(s("sink"))?;
        app.execute_contract(
            o.clone(),
            epoch_manager.clone(),
            &em::ExecuteMsg::AddHook { contract_addr: sink.to_string() },
            &[],
        )
        .map_err(s("add hook"))?;

        // trading so that protocol fees exist; routers hold a float so that internal callbacks invoked
        // directly have something to move
        app.execute_contract(
            u.clone(),
            pair.clone(),
            &pair::ExecuteMsg::Swap {
                offer_asset: Asset { info: nat("uwhale"), amount: Uint128::new(50_000_000) },
                belief_price: None,
                max_spread: Some(Decimal::percent(50)),
                to: None,
            },
            &[coin(50_000_000, "uwhale")],
        )
        .map_err(s("swap 1"))?;
        app.execute_contract(
            u.clone(),
            asset_token.clone(),
            &cw20::Cw20ExecuteMsg::Send {
                contract: pair.to_string(),
                amount: Uint128::new(30_000_000),
                msg: to_json_binary(&pair::Cw20HookMsg::Swap { belief_price: None, max_spread: Some(Decimal::percent(50)), to: None })
                    .unwrap(),
            },
            &[],
        )
        .map_err(s("swap 2"))?;
        app.execute_contract(
            u.clone(),
            trio.clone(),
            &trio::ExecuteMsg::Swap {
                offer_asset: Asset { info: nat("uusdc"), amount: Uint128::new(50_000_000) },
                ask_asset: nat("uusdt"),
                belief_price: None,
                max_spread: Some(Decimal::percent(50)),
                to: None,
            },
            &[coin(50_000_000, "uusdc")],
        )
        .map_err(s("swap 3"))?;
        for c in [&router, &vault_router] {
            app.send_tokens(o.clone(), c.clone(), &[coin(5_000_000, "uwhale")]).map_err(s("float"))?;
            app.execute_contract(
                o.clone(),
                asset_token.clone(),
                &cw20::Cw20ExecuteMsg::Transfer { recipient: c.to_string(), amount: Uint128::new(5_000_000) },
                &[],
            )
            .map_err(s("float tok"))?;
        }

        // the borrower mock (last, so that no other address depends on it)
        let borrower_id = app.store_code(borrower_contract());
        let borrower = app
            .instantiate_contract(borrower_id, u.clone(), &Empty {}, &[], "borrower", None)
            .map_err(s("borrower"))?;

        // exactly one epoch later: NewEpoch / CreateEpoch are due and bonding is still allowed
        app.update_block(|b| {
            b.time = b.time.plus_nanos(DAY_NS);
            b.height += 1;
        });

        let hub = Hub {
            app,
            inject_log,
            o,
            n,
            u,
            a,
            f,
            g,
            pool_factory,
            pair,
            trio,
            router,
            lp,
            trio_lp,
            asset_token,
            inc_factory,
            incentive,
            helper,
            vault_factory,
            vault,
            vault_lp,
            vault_router,
            collector,
            distributor,
            lair,
            epoch_manager,
            sink,
            borrower,
            codes: Codes { token: token_id, pair: pair_id, trio: trio_id, vault: vault_id, incentive: inc_id },
            transferred: false,
        };
        // the flow world is what the selectors (and the Lean model's initial state) say it is
        let flows = hub.flows();
        let want: Vec<(u64, Addr, Option<String>)> = [FLOW_WORLD[0], FLOW_WORLD[1], FLOW_WORLD[3], FLOW_WORLD[2]]
            .iter()
            .map(|(id, by_f, label, _)| (*id, if *by_f { hub.f.clone() } else { hub.g.clone() }, Some(label.to_string())))
            .collect();
        let got: Vec<(u64, Addr, Option<String>)> =
            flows.iter().map(|fl| (fl.flow_id, fl.flow_creator.clone(), fl.flow_label.clone())).collect();
        if got != want {
            return Err(format!("flow world: storage holds {got:?}, expected {want:?}"));
        }
        Ok(hub)
    }

    /// the incentive contract's flows decoded from its RAW storage (map namespace "flows"), in storage order
    pub fn flows(&self) -> Vec<inc::Flow> {
        let prefix: &[u8] = b"\x00\x05flows";
        self.app
            .dump_wasm_raw(&self.incentive)
            .into_iter()
            .filter(|(k, _)| k.starts_with(prefix))
            .filter_map(|(_, v)| cosmwasm_std::from_json::<inc::Flow>(&v).ok())
            .collect()
    }

    /// one transaction: the borrower mock borrows LOAN_AMOUNT from the hub's vault and makes the nested call
    /// `inner` (if any) inside the loan callback. Returns (result of the nested call as logged by the Injector,
    /// result of the whole transaction).
    pub fn loan_with(&mut self, inner: Option<InjectMsg>) -> (Option<InnerOutcome>, Result<(), (usize, String)>) {
        self.inject_log.borrow_mut().clear();
        let start = BorrowerMsg::Start { vault: self.vault.to_string(), amount: Uint128::new(LOAN_AMOUNT), inner };
        let outer = self
            .app
            .execute(
                self.u.clone(),
                WasmMsg::Execute { contract_addr: self.borrower.to_string(), msg: to_json_binary(&start).unwrap(), funds: vec![] }
                    .into(),
            )
            .map(|_| ())
            .map_err(|e| error_depth_and_root(&e));
        let inner = self.inject_log.borrow().last().cloned();
        (inner, outer)
    }

    /// hand every configured owner to `newowner`, sent by the genesis owner (children through their factory).
    /// Returns one entry per step: (contract whose owner moves, Ok / error text).
    /// `rich`: the hand-over message also writes other, valid fields where the message has them (seed C16-S:
    /// a 3pool `UpdateConfig` that schedules an amp ramp dropped the owner sent in the same message)
    pub fn transfer_ownership(&mut self, rich: bool) -> Vec<(&'static str, Result<(), String>)> {
        let ramp = if rich { Some(trio::RampAmp { future_a: 150, future_block: self.app.block_info().height + 20_000 }) } else { None };
        let n = Some(self.n.to_string());
        let o = self.o.clone();
        let mut out = vec![];
        let mut run = |app: &mut HubApp, name: &'static str, target: &Addr, msg: Binary| {
            let r = app
                .execute(
                    o.clone(),
                    cosmwasm_std::WasmMsg::Execute { contract_addr: target.to_string(), msg, funds: vec![] }.into(),
                )
                .map(|_| ())
                .map_err(|e| format!("{e:#}"));
            out.push((name, r));
        };
        let b = |m: &dyn erased::Ser| m.bin();
        run(
            &mut self.app,
            "terraswap_pair",
            &self.pool_factory,
            b(&pf::ExecuteMsg::UpdatePairConfig {
                pair_addr: self.pair.to_string(),
                owner: n.clone(),
                fee_collector_addr: None,
                pool_fees: None,
                feature_toggle: None,
            }),
        );
        run(
            &mut self.app,
            "stableswap_3pool",
            &self.pool_factory,
            b(&pf::ExecuteMsg::UpdateTrioConfig {
                trio_addr: self.trio.to_string(),
                owner: n.clone(),
                fee_collector_addr: None,
                pool_fees: None,
                feature_toggle: None,
                amp_factor: ramp,
            }),
        );
        run(
            &mut self.app,
            "vault",
            &self.vault_factory,
            b(&vf::ExecuteMsg::UpdateVaultConfig {
                vault_addr: self.vault.to_string(),
                params: vmsg::UpdateConfigParams {
                    flash_loan_enabled: None,
                    deposit_enabled: None,
                    withdraw_enabled: None,
                    new_owner: n.clone(),
                    new_vault_fees: None,
                    new_fee_collector_addr: None,
                },
            }),
        );
        run(
            &mut self.app,
            "terraswap_factory",
            &self.pool_factory,
            b(&pf::ExecuteMsg::UpdateConfig {
                owner: n.clone(),
                fee_collector_addr: None,
                token_code_id: None,
                pair_code_id: None,
                trio_code_id: None,
            }),
        );
        run(
            &mut self.app,
            "incentive_factory",
            &self.inc_factory,
            b(&incf::ExecuteMsg::UpdateConfig {
                owner: n.clone(),
                fee_collector_addr: None,
                fee_distributor_addr: None,
                create_flow_fee: None,
                max_concurrent_flows: None,
                incentive_code_id: None,
                max_flow_start_time_buffer: None,
                min_unbonding_duration: None,
                max_unbonding_duration: None,
            }),
        );
        run(
            &mut self.app,
            "frontend_helper",
            &self.helper,
            b(&fh::ExecuteMsg::UpdateConfig { incentive_factory_addr: None, owner: n.clone() }),
        );
        run(
            &mut self.app,
            "vault_factory",
            &self.vault_factory,
            b(&vf::ExecuteMsg::UpdateConfig { owner: n.clone(), fee_collector_addr: None, vault_id: None, token_id: None }),
        );
        run(
            &mut self.app,
            "vault_router",
            &self.vault_router,
            b(&vr::ExecuteMsg::UpdateConfig { owner: n.clone(), vault_factory_addr: None }),
        );
        run(
            &mut self.app,
            "fee_collector",
            &self.collector,
            b(&fc::ExecuteMsg::UpdateConfig {
                owner: n.clone(),
                pool_router: None,
                fee_distributor: None,
                pool_factory: None,
                vault_factory: None,
                take_rate: None,
                take_rate_dao_address: None,
                is_take_rate_active: None,
            }),
        );
        run(
            &mut self.app,
            "fee_distributor",
            &self.distributor,
            b(&fd::ExecuteMsg::UpdateConfig {
                owner: n.clone(),
                bonding_contract_addr: None,
                fee_collector_addr: None,
                grace_period: None,
                distribution_asset: None,
                epoch_config: None,
            }),
        );
        run(
            &mut self.app,
            "whale_lair",
            &self.lair,
            b(&wl::ExecuteMsg::UpdateConfig { owner: n.clone(), unbonding_period: None, growth_rate: None, fee_distributor_addr: None }),
        );
        run(
            &mut self.app,
            "epoch_manager",
            &self.epoch_manager,
            b(&em::ExecuteMsg::UpdateConfig { owner: n.clone(), epoch_config: None }),
        );
        self.transferred = true;
        out
    }

    pub fn target(&self, contract: &str) -> Addr {
        match contract {
            "terraswap_factory" => &self.pool_factory,
            "terraswap_pair" => &self.pair,
            "stableswap_3pool" => &self.trio,
            "terraswap_router" => &self.router,
            "terraswap_token" => &self.lp,
            "incentive_factory" => &self.inc_factory,
            "incentive" => &self.incentive,
            "frontend_helper" => &self.helper,
            "vault_factory" => &self.vault_factory,
            "vault" => &self.vault,
            "vault_router" => &self.vault_router,
            "fee_collector" => &self.collector,
            "fee_distributor" => &self.distributor,
            "whale_lair" => &self.lair,
            "epoch_manager" => &self.epoch_manager,
            other => panic!("unknown contract {other}"),
        }
        .clone()
    }

    fn factory_of(contract: &str) -> &'static str {
        match contract {
            "terraswap_pair" | "stableswap_3pool" | "terraswap_token" | "terraswap_router" => "terraswap_factory",
            "vault" | "vault_router" => "vault_factory",
            "incentive" | "frontend_helper" => "incentive_factory",
            "terraswap_factory" => "vault_factory",
            _ => "terraswap_factory",
        }
    }
    fn sibling_of(contract: &str) -> &'static str {
        match contract {
            "terraswap_factory" => "terraswap_router",
            "terraswap_pair" => "stableswap_3pool",
            "stableswap_3pool" => "terraswap_pair",
            "terraswap_router" => "terraswap_pair",
            "terraswap_token" => "stableswap_3pool",
            "incentive_factory" => "frontend_helper",
            "incentive" => "frontend_helper",
            "frontend_helper" => "incentive",
            "vault_factory" => "vault_router",
            "vault" => "vault_router",
            "vault_router" => "vault_factory",
            "fee_collector" => "whale_lair",
            "fee_distributor" => "whale_lair",
            "whale_lair" => "fee_collector",
            "epoch_manager" => "fee_distributor",
            other => panic!("unknown contract {other}"),
        }
    }
    pub fn lp_of(&self, contract: &str) -> Addr {
        match contract {
            "stableswap_3pool" => self.trio_lp.clone(),
            "vault" => self.vault_lp.clone(),
            _ => self.lp.clone(),
        }
    }

    /// the address a role denotes when calling `contract`
    pub fn role_addr(&self, contract: &str, role: &str) -> Option<Addr> {
        Some(match role {
            "owner" => self.o.clone(),
            "newOwner" => self.n.clone(),
            "user" => self.u.clone(),
            "wasmAdmin" => self.a.clone(),
            "flowCreator" => self.f.clone(),
            "otherFlowCreator" => self.g.clone(),
            "borrower" => self.borrower.clone(),
            "self" => self.target(contract),
            "factory" => self.target(Self::factory_of(contract)),
            "sibling" => self.target(Self::sibling_of(contract)),
            "feeDistributor" => self.distributor.clone(),
            "registeredVault" => self.vault.clone(),
            "minter" => self.pair.clone(),
            "lpToken" => self.lp_of(contract),
            "assetToken" => self.asset_token.clone(),
            "trioLp" => self.trio_lp.clone(),
            "vaultLp" => self.vault_lp.clone(),
            other => match other.strip_prefix("c:") {
                Some(c) if super::variants::CONTRACTS.contains(&c) => self.target(c),
                _ => return None,
            },
        })
    }

    pub fn eoas(&self) -> Vec<Addr> {
        vec![self.o.clone(), self.n.clone(), self.u.clone(), self.a.clone(), self.f.clone(), self.g.clone()]
    }

    pub fn all_contracts(&self) -> Vec<(&'static str, Addr)> {
        vec![
            ("terraswap_factory", self.pool_factory.clone()),
            ("terraswap_pair", self.pair.clone()),
            ("stableswap_3pool", self.trio.clone()),
            ("terraswap_router", self.router.clone()),
            ("terraswap_token", self.lp.clone()),
            ("incentive_factory", self.inc_factory.clone()),
            ("incentive", self.incentive.clone()),
            ("frontend_helper", self.helper.clone()),
            ("vault_factory", self.vault_factory.clone()),
            ("vault", self.vault.clone()),
            ("vault_router", self.vault_router.clone()),
            ("fee_collector", self.collector.clone()),
            ("fee_distributor", self.distributor.clone()),
            ("whale_lair", self.lair.clone()),
            ("epoch_manager", self.epoch_manager.clone()),
            ("trio_lp", self.trio_lp.clone()),
            ("vault_lp", self.vault_lp.clone()),
            ("asset_token", self.asset_token.clone()),
            ("sink", self.sink.clone()),
            ("borrower", self.borrower.clone()),
        ]
    }

    /// full dump: raw storage of every contract + bank balances of the whole cast (cw20 balances and
    /// allowances live in the token contracts' storage, so they are part of the raw dump)
    pub fn dump(&self) -> Vec<(String, Vec<(Vec<u8>, Vec<u8>)>)> {
        let mut out = vec![];
        let contracts = self.all_contracts();
        for (name, addr) in &contracts {
            out.push((format!("storage:{name}"), self.app.dump_wasm_raw(addr)));
        }
        let mut holders: Vec<(String, Addr)> = contracts.iter().map(|(n, a)| (n.to_string(), a.clone())).collect();
        for e in self.eoas() {
            holders.push((e.to_string(), e));
        }
        holders.push(("dao".into(), Addr::unchecked("dao")));
        let mut bank = vec![];
        for (name, addr) in holders {
            let coins = self.app.wrap().query_all_balances(&addr).unwrap_or_default();
            for c in coins {
                bank.push((format!("{name}/{}", c.denom).into_bytes(), c.amount.to_string().into_bytes()));
            }
        }
        out.push(("bank".into(), bank));
        out
    }
}

/// tiny helper: serialise any message type behind one closure signature
pub mod erased {
    use cosmwasm_std::{to_json_binary, Binary};
    pub trait Ser {
        fn bin(&self) -> Binary;
    }
    impl<T: serde::Serialize> Ser for T {
        fn bin(&self) -> Binary {
            to_json_binary(self).unwrap()
        }
    }
}


/// `migrate` entry point of the CHILD codes (pair, 3pool, incentive, vault) of the matrix hub: accepts. The real children
/// refuse a migration to their own version (`MigrateInvalidVersion`), so every factory `Migrate*` message failed AFTER
/// its authorisation check whoever sent it, and a weakened check was visible as a correspondence divergence only (seed
/// C16-U: `MigrateVaults` open to anyone for the configured code id). With an accepting child the admitted call goes
/// through and `unauthorised_rejected` judges it. (What a child's own `migrate` does is studied by the toggles /
/// config / lair engines.)
fn child_migrate_accepts(_deps: cosmwasm_std::DepsMut, _env: cosmwasm_std::Env, _msg: cosmwasm_std::Empty) -> cosmwasm_std::StdResult<cosmwasm_std::Response> {
    Ok(cosmwasm_std::Response::new())
}
