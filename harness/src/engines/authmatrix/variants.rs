//! Exhaustive, wildcard-free enumeration of every ExecuteMsg variant of the 15 hub contracts.
//! `variant_table!` generates, from ONE list of `pattern => "Name"` arms, both
//!   * `fn <name>(&ExecuteMsg) -> &'static str` — a `match` WITHOUT `_` arm, so a new variant in
//!     /repo stops the harness from compiling (DESIGN 2.3), and
//!   * `const <NAMES>: &[&str]` — the name list the matrix iterates over.
//! Wrapped enums (`Receive(Cw20ReceiveMsg)` carrying a `Cw20HookMsg`, `Callback(CallbackMsg)`) get
//! their own table; the full name is `Receive.<Hook>` / `Callback.<Cb>`.
use white_whale_std::epoch_manager::epoch_manager as em;
use white_whale_std::fee_collector as fc;
use white_whale_std::fee_distributor as fd;
use white_whale_std::pool_network::{
    factory as pf, frontend_helper as fh, incentive as inc, incentive_factory as incf, pair, router, trio,
};
use white_whale_std::vault_network::{vault, vault_factory as vf, vault_router as vr};
use white_whale_std::whale_lair as wl;

macro_rules! variant_table {
    ($fname:ident, $names:ident, $ty:ty, { $( $pat:pat => $name:literal ),* $(,)? }) => {
        pub fn $fname(m: &$ty) -> &'static str {
            match m { $( $pat => $name ),* }
        }
        pub const $names: &[&str] = &[ $( $name ),* ];
    };
}

variant_table!(factory_variant, FACTORY, pf::ExecuteMsg, {
    pf::ExecuteMsg::UpdateConfig { .. } => "UpdateConfig",
    pf::ExecuteMsg::UpdatePairConfig { .. } => "UpdatePairConfig",
    pf::ExecuteMsg::UpdateTrioConfig { .. } => "UpdateTrioConfig",
    pf::ExecuteMsg::CreatePair { .. } => "CreatePair",
    pf::ExecuteMsg::CreateTrio { .. } => "CreateTrio",
    pf::ExecuteMsg::AddNativeTokenDecimals { .. } => "AddNativeTokenDecimals",
    pf::ExecuteMsg::MigratePair { .. } => "MigratePair",
    pf::ExecuteMsg::MigrateTrio { .. } => "MigrateTrio",
    pf::ExecuteMsg::RemovePair { .. } => "RemovePair",
    pf::ExecuteMsg::RemoveTrio { .. } => "RemoveTrio",
});

variant_table!(pair_variant, PAIR, pair::ExecuteMsg, {
    pair::ExecuteMsg::Receive(..) => "Receive",
    pair::ExecuteMsg::ProvideLiquidity { .. } => "ProvideLiquidity",
    pair::ExecuteMsg::WithdrawLiquidity { .. } => "WithdrawLiquidity",
    pair::ExecuteMsg::Swap { .. } => "Swap",
    pair::ExecuteMsg::UpdateConfig { .. } => "UpdateConfig",
    pair::ExecuteMsg::CollectProtocolFees { .. } => "CollectProtocolFees",
});
variant_table!(pair_hook, PAIR_HOOKS, pair::Cw20HookMsg, {
    pair::Cw20HookMsg::Swap { .. } => "Swap",
    pair::Cw20HookMsg::WithdrawLiquidity { .. } => "WithdrawLiquidity",
});

variant_table!(trio_variant, TRIO, trio::ExecuteMsg, {
    trio::ExecuteMsg::Receive(..) => "Receive",
    trio::ExecuteMsg::ProvideLiquidity { .. } => "ProvideLiquidity",
    trio::ExecuteMsg::WithdrawLiquidity { .. } => "WithdrawLiquidity",
    trio::ExecuteMsg::Swap { .. } => "Swap",
    trio::ExecuteMsg::UpdateConfig { .. } => "UpdateConfig",
    trio::ExecuteMsg::CollectProtocolFees { .. } => "CollectProtocolFees",
});
variant_table!(trio_hook, TRIO_HOOKS, trio::Cw20HookMsg, {
    trio::Cw20HookMsg::Swap { .. } => "Swap",
    trio::Cw20HookMsg::WithdrawLiquidity { .. } => "WithdrawLiquidity",
});

variant_table!(router_variant, ROUTER, router::ExecuteMsg, {
    router::ExecuteMsg::Receive(..) => "Receive",
    router::ExecuteMsg::ExecuteSwapOperations { .. } => "ExecuteSwapOperations",
    router::ExecuteMsg::ExecuteSwapOperation { .. } => "ExecuteSwapOperation",
    router::ExecuteMsg::AssertMinimumReceive { .. } => "AssertMinimumReceive",
    router::ExecuteMsg::AddSwapRoutes { .. } => "AddSwapRoutes",
    router::ExecuteMsg::RemoveSwapRoutes { .. } => "RemoveSwapRoutes",
});
variant_table!(router_hook, ROUTER_HOOKS, router::Cw20HookMsg, {
    router::Cw20HookMsg::ExecuteSwapOperations { .. } => "ExecuteSwapOperations",
});

variant_table!(token_variant, TOKEN, cw20::Cw20ExecuteMsg, {
    cw20::Cw20ExecuteMsg::Transfer { .. } => "Transfer",
    cw20::Cw20ExecuteMsg::Burn { .. } => "Burn",
    cw20::Cw20ExecuteMsg::Send { .. } => "Send",
    cw20::Cw20ExecuteMsg::IncreaseAllowance { .. } => "IncreaseAllowance",
    cw20::Cw20ExecuteMsg::DecreaseAllowance { .. } => "DecreaseAllowance",
    cw20::Cw20ExecuteMsg::TransferFrom { .. } => "TransferFrom",
    cw20::Cw20ExecuteMsg::SendFrom { .. } => "SendFrom",
    cw20::Cw20ExecuteMsg::BurnFrom { .. } => "BurnFrom",
    cw20::Cw20ExecuteMsg::Mint { .. } => "Mint",
    cw20::Cw20ExecuteMsg::UpdateMinter { .. } => "UpdateMinter",
    cw20::Cw20ExecuteMsg::UpdateMarketing { .. } => "UpdateMarketing",
    cw20::Cw20ExecuteMsg::UploadLogo(..) => "UploadLogo",
});

variant_table!(incentive_factory_variant, INCENTIVE_FACTORY, incf::ExecuteMsg, {
    incf::ExecuteMsg::CreateIncentive { .. } => "CreateIncentive",
    incf::ExecuteMsg::UpdateConfig { .. } => "UpdateConfig",
    incf::ExecuteMsg::MigrateIncentives { .. } => "MigrateIncentives",
});

variant_table!(incentive_variant, INCENTIVE, inc::ExecuteMsg, {
    inc::ExecuteMsg::TakeGlobalWeightSnapshot { .. } => "TakeGlobalWeightSnapshot",
    inc::ExecuteMsg::OpenFlow { .. } => "OpenFlow",
    inc::ExecuteMsg::CloseFlow { .. } => "CloseFlow",
    inc::ExecuteMsg::OpenPosition { .. } => "OpenPosition",
    inc::ExecuteMsg::ExpandPosition { .. } => "ExpandPosition",
    inc::ExecuteMsg::ClosePosition { .. } => "ClosePosition",
    inc::ExecuteMsg::Withdraw { .. } => "Withdraw",
    inc::ExecuteMsg::Claim { .. } => "Claim",
    inc::ExecuteMsg::ExpandFlow { .. } => "ExpandFlow",
});

variant_table!(frontend_helper_variant, FRONTEND_HELPER, fh::ExecuteMsg, {
    fh::ExecuteMsg::Deposit { .. } => "Deposit",
    fh::ExecuteMsg::UpdateConfig { .. } => "UpdateConfig",
});

variant_table!(vault_factory_variant, VAULT_FACTORY, vf::ExecuteMsg, {
    vf::ExecuteMsg::CreateVault { .. } => "CreateVault",
    vf::ExecuteMsg::MigrateVaults { .. } => "MigrateVaults",
    vf::ExecuteMsg::RemoveVault { .. } => "RemoveVault",
    vf::ExecuteMsg::UpdateVaultConfig { .. } => "UpdateVaultConfig",
    vf::ExecuteMsg::UpdateConfig { .. } => "UpdateConfig",
});

variant_table!(vault_variant, VAULT, vault::ExecuteMsg, {
    vault::ExecuteMsg::Deposit { .. } => "Deposit",
    vault::ExecuteMsg::Withdraw { .. } => "Withdraw",
    vault::ExecuteMsg::FlashLoan { .. } => "FlashLoan",
    vault::ExecuteMsg::CollectProtocolFees { .. } => "CollectProtocolFees",
    vault::ExecuteMsg::UpdateConfig(..) => "UpdateConfig",
    vault::ExecuteMsg::Receive(..) => "Receive",
    vault::ExecuteMsg::Callback(..) => "Callback",
});
variant_table!(vault_hook, VAULT_HOOKS, vault::Cw20HookMsg, {
    vault::Cw20HookMsg::Withdraw { .. } => "Withdraw",
});
variant_table!(vault_callback, VAULT_CALLBACKS, vault::CallbackMsg, {
    vault::CallbackMsg::AfterTrade { .. } => "AfterTrade",
});

variant_table!(vault_router_variant, VAULT_ROUTER, vr::ExecuteMsg, {
    vr::ExecuteMsg::FlashLoan { .. } => "FlashLoan",
    vr::ExecuteMsg::UpdateConfig { .. } => "UpdateConfig",
    vr::ExecuteMsg::NextLoan { .. } => "NextLoan",
    vr::ExecuteMsg::CompleteLoan { .. } => "CompleteLoan",
});

variant_table!(fee_collector_variant, FEE_COLLECTOR, fc::ExecuteMsg, {
    fc::ExecuteMsg::CollectFees { .. } => "CollectFees",
    fc::ExecuteMsg::AggregateFees { .. } => "AggregateFees",
    fc::ExecuteMsg::ForwardFees { .. } => "ForwardFees",
    fc::ExecuteMsg::UpdateConfig { .. } => "UpdateConfig",
});

variant_table!(fee_distributor_variant, FEE_DISTRIBUTOR, fd::ExecuteMsg, {
    fd::ExecuteMsg::NewEpoch { .. } => "NewEpoch",
    fd::ExecuteMsg::Claim { .. } => "Claim",
    fd::ExecuteMsg::UpdateConfig { .. } => "UpdateConfig",
});

variant_table!(whale_lair_variant, WHALE_LAIR, wl::ExecuteMsg, {
    wl::ExecuteMsg::Bond { .. } => "Bond",
    wl::ExecuteMsg::Unbond { .. } => "Unbond",
    wl::ExecuteMsg::Withdraw { .. } => "Withdraw",
    wl::ExecuteMsg::UpdateConfig { .. } => "UpdateConfig",
});

variant_table!(epoch_manager_variant, EPOCH_MANAGER, em::ExecuteMsg, {
    em::ExecuteMsg::CreateEpoch { .. } => "CreateEpoch",
    em::ExecuteMsg::AddHook { .. } => "AddHook",
    em::ExecuteMsg::RemoveHook { .. } => "RemoveHook",
    em::ExecuteMsg::UpdateConfig { .. } => "UpdateConfig",
});

pub const CONTRACTS: [&str; 15] = [
    "terraswap_factory",
    "terraswap_pair",
    "stableswap_3pool",
    "terraswap_router",
    "terraswap_token",
    "incentive_factory",
    "incentive",
    "frontend_helper",
    "vault_factory",
    "vault",
    "vault_router",
    "fee_collector",
    "fee_distributor",
    "whale_lair",
    "epoch_manager",
];

/// (top-level variant names, Receive hook names, Callback names) of a contract
pub fn tables(contract: &str) -> (&'static [&'static str], &'static [&'static str], &'static [&'static str]) {
    match contract {
        "terraswap_factory" => (FACTORY, &[], &[]),
        "terraswap_pair" => (PAIR, PAIR_HOOKS, &[]),
        "stableswap_3pool" => (TRIO, TRIO_HOOKS, &[]),
        "terraswap_router" => (ROUTER, ROUTER_HOOKS, &[]),
        "terraswap_token" => (TOKEN, &[], &[]),
        "incentive_factory" => (INCENTIVE_FACTORY, &[], &[]),
        "incentive" => (INCENTIVE, &[], &[]),
        "frontend_helper" => (FRONTEND_HELPER, &[], &[]),
        "vault_factory" => (VAULT_FACTORY, &[], &[]),
        "vault" => (VAULT, VAULT_HOOKS, VAULT_CALLBACKS),
        "vault_router" => (VAULT_ROUTER, &[], &[]),
        "fee_collector" => (FEE_COLLECTOR, &[], &[]),
        "fee_distributor" => (FEE_DISTRIBUTOR, &[], &[]),
        "whale_lair" => (WHALE_LAIR, &[], &[]),
        "epoch_manager" => (EPOCH_MANAGER, &[], &[]),
        other => panic!("unknown contract {other}"),
    }
}

/// full variant names of a contract ("Receive.Swap", "Callback.AfterTrade", "UpdateConfig", …)
pub fn full_names(contract: &str) -> Vec<String> {
    let (top, hooks, cbs) = tables(contract);
    let mut out = vec![];
    for t in top {
        if *t == "Receive" {
            for h in hooks {
                out.push(format!("Receive.{h}"));
            }
        } else if *t == "Callback" {
            for c in cbs {
                out.push(format!("Callback.{c}"));
            }
        } else {
            out.push((*t).to_string());
        }
    }
    out
}

pub fn top_level_count() -> usize {
    CONTRACTS.iter().map(|c| tables(c).0.len()).sum()
}

/// object selectors of a variant whose designated sender depends on a stored object it names (the matrix
/// has one cell per selector); empty for every other variant
pub fn objects(contract: &str, variant: &str) -> &'static [&'static str] {
    match (contract, variant) {
        ("incentive", "CloseFlow") => &super::hub::FLOW_SELECTORS,
        _ => &[],
    }
}
