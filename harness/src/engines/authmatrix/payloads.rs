//! Concrete messages for every (contract, full variant name). Seed 0 gives the canonical payload (meant to
//! succeed for an authorised, funded caller); any other seed randomises amounts, optional fields, addresses,
//! fees and toggles. Payloads stay *well-formed* in the fields a handler validates before its sender check
//! (addresses that `addr_validate` sees first, existing flow ids) so that the verdict of the authorisation
//! layer is observable; everything else is free.
use super::hub::{fee, flow_identifier, nat, tok, Hub, DAY_NS, HELPER_ALLOWANCE};
use super::variants as v;
use crate::common::Rng;
use cosmwasm_std::{coin, from_json, to_json_binary, Addr, Binary, Coin, Decimal, Empty, Uint128, Uint64};
use white_whale_std::epoch_manager::epoch_manager as em;
use white_whale_std::fee::{Fee, VaultFee};
use white_whale_std::fee_collector as fc;
use white_whale_std::fee_distributor as fd;
use white_whale_std::pool_network::asset::{Asset, AssetInfo, PairType};
use white_whale_std::pool_network::{
    factory as pf, frontend_helper as fh, incentive as inc, incentive_factory as incf, pair, router, trio,
};
use white_whale_std::vault_network::{vault as vmsg, vault_factory as vf, vault_router as vr};
use white_whale_std::whale_lair as wl;

pub struct Payload {
    pub msg: Binary,
    pub funds: Vec<Coin>,
    /// full variant name recomputed from the typed message through the wildcard-free tables
    pub name: String,
}

pub struct Ctx<'a> {
    pub hub: &'a Hub,
    pub sender: &'a Addr,
    pub rng: Rng,
    pub canon: bool,
    /// object selector of the op line (variants listed in `variants::objects`), e.g. the flow to close
    pub object: Option<&'a str>,
    /// the message will be sent from inside a flash-loan callback of the hub's vault (LOAN_AMOUNT is out)
    pub inloan: bool,
}

impl<'a> Ctx<'a> {
    fn flip(&mut self) -> bool {
        !self.canon && self.rng.chance(1, 2)
    }
    /// canonical value, or a random amount (mostly affordable, sometimes wild)
    fn amt(&mut self, canon: u128) -> Uint128 {
        if self.canon {
            return Uint128::new(canon);
        }
        Uint128::new(match self.rng.below(10) {
            0 => self.rng.amount(128),
            1 => 0,
            2 => canon,
            _ => self.rng.log_uniform(30),
        })
    }
    fn small(&mut self, canon: u64, hi: u64) -> u64 {
        if self.canon {
            canon
        } else {
            self.rng.range(0, hi)
        }
    }
    /// some valid address of the cast
    fn any_addr(&mut self) -> String {
        let h = self.hub;
        let all = [
            &h.o, &h.n, &h.u, &h.a, &h.f, &h.g, &h.borrower, &h.pool_factory, &h.pair, &h.trio, &h.router, &h.lp, &h.collector,
            &h.distributor, &h.lair, &h.vault, &h.vault_factory, &h.vault_router, &h.incentive, &h.inc_factory,
            &h.helper, &h.epoch_manager, self.sender,
        ];
        let i = self.rng.below(all.len() as u64) as usize;
        all[i].to_string()
    }
    /// `None` canonically; otherwise None / Some(random cast address)
    fn opt_addr(&mut self) -> Option<String> {
        if self.flip() {
            Some(self.any_addr())
        } else {
            None
        }
    }
    /// a new-owner field: None canonically, else None / the sender itself / newowner / anybody
    fn opt_owner(&mut self) -> Option<String> {
        if self.canon {
            return None;
        }
        match self.rng.below(4) {
            0 => None,
            1 => Some(self.sender.to_string()),
            2 => Some(self.hub.n.to_string()),
            _ => Some(self.any_addr()),
        }
    }
    fn dec(&mut self) -> Decimal {
        Decimal::from_atomics(self.rng.fee_share(), 18).unwrap_or(Decimal::zero())
    }
    fn fee(&mut self, canon: u64) -> Fee {
        if self.canon {
            fee(canon)
        } else {
            Fee { share: self.dec() }
        }
    }
    fn opt_bool(&mut self) -> Option<bool> {
        if self.flip() {
            Some(self.rng.chance(1, 2))
        } else {
            None
        }
    }
    fn max_spread(&mut self) -> Option<Decimal> {
        if self.canon || self.rng.chance(2, 3) {
            Some(Decimal::percent(50))
        } else if self.rng.chance(1, 2) {
            None
        } else {
            Some(self.dec())
        }
    }
    fn pair_fees(&mut self) -> pair::PoolFee {
        pair::PoolFee { protocol_fee: self.fee(10), swap_fee: self.fee(2), burn_fee: self.fee(0) }
    }
    fn trio_fees(&mut self) -> trio::PoolFee {
        trio::PoolFee { protocol_fee: self.fee(10), swap_fee: self.fee(2), burn_fee: self.fee(0) }
    }
    fn vault_fees(&mut self) -> VaultFee {
        VaultFee { protocol_fee: self.fee(1), flash_loan_fee: self.fee(1), burn_fee: self.fee(0) }
    }
    fn native_denom(&mut self) -> &'static str {
        if self.canon {
            "uwhale"
        } else {
            *self.rng.pick(&["uwhale", "uusdc", "uusdt", "bwhale"])
        }
    }
}

fn done<T: serde::Serialize>(msg: &T, name: String, funds: Vec<Coin>) -> Option<Payload> {
    Some(Payload { msg: to_json_binary(msg).unwrap(), funds, name })
}
fn funds_of(denom: &str, a: Uint128) -> Vec<Coin> {
    if a.is_zero() {
        vec![]
    } else {
        vec![coin(a.u128(), denom)]
    }
}

pub fn build(contract: &str, variant: &str, cx: &mut Ctx) -> Option<Payload> {
    match contract {
        "terraswap_factory" => factory(variant, cx),
        "terraswap_pair" => pair_p(variant, cx),
        "stableswap_3pool" => trio_p(variant, cx),
        "terraswap_router" => router_p(variant, cx),
        "terraswap_token" => token_p(variant, cx),
        "incentive_factory" => incentive_factory_p(variant, cx),
        "incentive" => incentive_p(variant, cx),
        "frontend_helper" => helper_p(variant, cx),
        "vault_factory" => vault_factory_p(variant, cx),
        "vault" => vault_p(variant, cx),
        "vault_router" => vault_router_p(variant, cx),
        "fee_collector" => collector_p(variant, cx),
        "fee_distributor" => distributor_p(variant, cx),
        "whale_lair" => lair_p(variant, cx),
        "epoch_manager" => epoch_manager_p(variant, cx),
        _ => None,
    }
}

// ------------------------------------------------------------------ pool factory
fn factory(var: &str, cx: &mut Ctx) -> Option<Payload> {
    let h = cx.hub;
    use pf::ExecuteMsg as M;
    let m = match var {
        "UpdateConfig" => M::UpdateConfig {
            owner: cx.opt_owner(),
            fee_collector_addr: if cx.canon { Some(h.collector.to_string()) } else { cx.opt_addr() },
            token_code_id: if cx.flip() { Some(h.codes.token) } else { None },
            pair_code_id: if cx.flip() { Some(h.codes.pair) } else { None },
            trio_code_id: if cx.flip() { Some(h.codes.trio) } else { None },
        },
        "UpdatePairConfig" => M::UpdatePairConfig {
            pair_addr: h.pair.to_string(),
            owner: cx.opt_owner(),
            fee_collector_addr: cx.opt_addr(),
            pool_fees: if cx.flip() { Some(cx.pair_fees()) } else { None },
            feature_toggle: if cx.canon || cx.flip() {
                Some(pair::FeatureToggle {
                    withdrawals_enabled: cx.canon || cx.rng.chance(1, 2),
                    deposits_enabled: cx.canon || cx.rng.chance(1, 2),
                    swaps_enabled: cx.canon || cx.rng.chance(1, 2),
                })
            } else {
                None
            },
        },
        "UpdateTrioConfig" => M::UpdateTrioConfig {
            trio_addr: h.trio.to_string(),
            owner: cx.opt_owner(),
            fee_collector_addr: cx.opt_addr(),
            pool_fees: if cx.flip() { Some(cx.trio_fees()) } else { None },
            feature_toggle: if cx.canon || cx.flip() {
                Some(trio::FeatureToggle {
                    withdrawals_enabled: cx.canon || cx.rng.chance(1, 2),
                    deposits_enabled: cx.canon || cx.rng.chance(1, 2),
                    swaps_enabled: cx.canon || cx.rng.chance(1, 2),
                })
            } else {
                None
            },
            amp_factor: if cx.flip() {
                Some(trio::RampAmp {
                    future_a: cx.rng.range(1, 2_000),
                    future_block: h.app.block_info().height + cx.rng.range(0, 200_000),
                })
            } else {
                None
            },
        },
        "CreatePair" => M::CreatePair {
            asset_infos: if cx.canon || cx.rng.chance(2, 3) {
                [nat("uusdc"), nat("uusdt")]
            } else {
                [nat("uwhale"), tok(&h.asset_token)]
            },
            pool_fees: cx.pair_fees(),
            pair_type: if cx.flip() { PairType::StableSwap { amp: cx.rng.range(0, 2_000) } } else { PairType::ConstantProduct },
            token_factory_lp: false,
        },
        "CreateTrio" => M::CreateTrio {
            asset_infos: if cx.canon || cx.rng.chance(2, 3) {
                [nat("uwhale"), nat("uusdc"), nat("uusdt")]
            } else {
                [nat("uusdc"), nat("uusdt"), tok(&h.asset_token)]
            },
            pool_fees: cx.trio_fees(),
            amp_factor: cx.small(100, 2_000),
            token_factory_lp: false,
        },
        "AddNativeTokenDecimals" => M::AddNativeTokenDecimals {
            denom: if cx.canon { "uatom".into() } else { format!("u{}", cx.rng.below(1000)) },
            decimals: cx.small(6, 18) as u8,
        },
        "MigratePair" => M::MigratePair {
            contract: h.pair.to_string(),
            code_id: if cx.flip() { Some(h.codes.pair) } else { None },
        },
        "MigrateTrio" => M::MigrateTrio {
            contract: h.trio.to_string(),
            code_id: if cx.flip() { Some(h.codes.trio) } else { None },
        },
        "RemovePair" => M::RemovePair {
            asset_infos: if cx.canon || cx.rng.chance(2, 3) {
                [nat("uwhale"), tok(&h.asset_token)]
            } else {
                [nat("uusdc"), nat("uusdt")]
            },
        },
        "RemoveTrio" => M::RemoveTrio {
            asset_infos: if cx.canon || cx.rng.chance(2, 3) {
                [nat("uusdc"), nat("uusdt"), tok(&h.asset_token)]
            } else {
                [nat("uwhale"), nat("uusdc"), nat("uusdt")]
            },
        },
        _ => return None,
    };
    let name = v::factory_variant(&m).to_string();
    done(&m, name, vec![])
}

// ------------------------------------------------------------------ pair
fn pair_p(var: &str, cx: &mut Ctx) -> Option<Payload> {
    let h = cx.hub;
    use pair::ExecuteMsg as M;
    let mut funds = vec![];
    let m = match var {
        "Receive.Swap" => M::Receive(cw20::Cw20ReceiveMsg {
            sender: if cx.canon { h.u.to_string() } else { cx.any_addr() },
            amount: cx.amt(1_000_000),
            msg: to_json_binary(&pair::Cw20HookMsg::Swap { belief_price: None, max_spread: cx.max_spread(), to: cx.opt_addr() })
                .unwrap(),
        }),
        "Receive.WithdrawLiquidity" => M::Receive(cw20::Cw20ReceiveMsg {
            sender: if cx.canon { h.u.to_string() } else { cx.any_addr() },
            amount: cx.amt(1_000),
            msg: to_json_binary(&pair::Cw20HookMsg::WithdrawLiquidity {}).unwrap(),
        }),
        "ProvideLiquidity" => {
            let a = cx.amt(1_000_000);
            let b = if cx.canon { a } else { cx.amt(1_000_000) };
            funds = funds_of("uwhale", a);
            M::ProvideLiquidity {
                assets: [Asset { info: nat("uwhale"), amount: a }, Asset { info: tok(&h.asset_token), amount: b }],
                slippage_tolerance: if cx.flip() { Some(cx.dec()) } else { None },
                receiver: cx.opt_addr(),
            }
        }
        "WithdrawLiquidity" => {
            if cx.flip() {
                funds = funds_of("uwhale", cx.amt(10));
            }
            M::WithdrawLiquidity {}
        }
        "Swap" => {
            let a = cx.amt(1_000_000);
            funds = funds_of("uwhale", a);
            M::Swap {
                offer_asset: Asset { info: nat("uwhale"), amount: a },
                belief_price: None,
                max_spread: cx.max_spread(),
                to: cx.opt_addr(),
            }
        }
        "UpdateConfig" => M::UpdateConfig {
            owner: cx.opt_owner(),
            fee_collector_addr: cx.opt_addr(),
            pool_fees: if cx.canon || cx.flip() { Some(cx.pair_fees()) } else { None },
            feature_toggle: if cx.flip() {
                Some(pair::FeatureToggle {
                    withdrawals_enabled: cx.rng.chance(1, 2),
                    deposits_enabled: cx.rng.chance(1, 2),
                    swaps_enabled: cx.rng.chance(1, 2),
                })
            } else {
                None
            },
        },
        "CollectProtocolFees" => M::CollectProtocolFees {},
        _ => return None,
    };
    let mut name = v::pair_variant(&m).to_string();
    if let M::Receive(r) = &m {
        let hook: pair::Cw20HookMsg = from_json(&r.msg).ok()?;
        name = format!("{name}.{}", v::pair_hook(&hook));
    }
    done(&m, name, funds)
}

// ------------------------------------------------------------------ trio
fn trio_p(var: &str, cx: &mut Ctx) -> Option<Payload> {
    let h = cx.hub;
    use trio::ExecuteMsg as M;
    let mut funds = vec![];
    let m = match var {
        "Receive.Swap" => M::Receive(cw20::Cw20ReceiveMsg {
            sender: if cx.canon { h.u.to_string() } else { cx.any_addr() },
            amount: cx.amt(1_000_000),
            msg: to_json_binary(&trio::Cw20HookMsg::Swap {
                ask_asset: if cx.flip() { nat("uusdt") } else { nat("uusdc") },
                belief_price: None,
                max_spread: cx.max_spread(),
                to: cx.opt_addr(),
            })
            .unwrap(),
        }),
        "Receive.WithdrawLiquidity" => M::Receive(cw20::Cw20ReceiveMsg {
            sender: if cx.canon { h.u.to_string() } else { cx.any_addr() },
            amount: cx.amt(1_000),
            msg: to_json_binary(&trio::Cw20HookMsg::WithdrawLiquidity {}).unwrap(),
        }),
        "ProvideLiquidity" => {
            let a = cx.amt(1_000_000);
            let b = if cx.canon { a } else { cx.amt(1_000_000) };
            let c = if cx.canon { a } else { cx.amt(1_000_000) };
            funds = funds_of("uusdc", a);
            funds.extend(funds_of("uusdt", b));
            M::ProvideLiquidity {
                assets: [
                    Asset { info: nat("uusdc"), amount: a },
                    Asset { info: nat("uusdt"), amount: b },
                    Asset { info: tok(&h.asset_token), amount: c },
                ],
                slippage_tolerance: if cx.flip() { Some(cx.dec()) } else { None },
                receiver: cx.opt_addr(),
            }
        }
        "WithdrawLiquidity" => {
            if cx.flip() {
                funds = funds_of("uusdc", cx.amt(10));
            }
            M::WithdrawLiquidity {}
        }
        "Swap" => {
            let a = cx.amt(1_000_000);
            funds = funds_of("uusdc", a);
            M::Swap {
                offer_asset: Asset { info: nat("uusdc"), amount: a },
                ask_asset: if cx.flip() { tok(&h.asset_token) } else { nat("uusdt") },
                belief_price: None,
                max_spread: cx.max_spread(),
                to: cx.opt_addr(),
            }
        }
        "UpdateConfig" => M::UpdateConfig {
            owner: cx.opt_owner(),
            fee_collector_addr: cx.opt_addr(),
            pool_fees: if cx.canon || cx.flip() { Some(cx.trio_fees()) } else { None },
            feature_toggle: if cx.flip() {
                Some(trio::FeatureToggle {
                    withdrawals_enabled: cx.rng.chance(1, 2),
                    deposits_enabled: cx.rng.chance(1, 2),
                    swaps_enabled: cx.rng.chance(1, 2),
                })
            } else {
                None
            },
            amp_factor: if cx.flip() {
                Some(trio::RampAmp {
                    future_a: cx.rng.range(1, 2_000),
                    future_block: h.app.block_info().height + cx.rng.range(0, 200_000),
                })
            } else {
                None
            },
        },
        "CollectProtocolFees" => M::CollectProtocolFees {},
        _ => return None,
    };
    let mut name = v::trio_variant(&m).to_string();
    if let M::Receive(r) = &m {
        let hook: trio::Cw20HookMsg = from_json(&r.msg).ok()?;
        name = format!("{name}.{}", v::trio_hook(&hook));
    }
    done(&m, name, funds)
}

// ------------------------------------------------------------------ pool router
fn router_p(var: &str, cx: &mut Ctx) -> Option<Payload> {
    let h = cx.hub;
    use router::ExecuteMsg as M;
    let mut funds = vec![];
    let w2t = router::SwapOperation::TerraSwap { offer_asset_info: nat("uwhale"), ask_asset_info: tok(&h.asset_token) };
    let t2w = router::SwapOperation::TerraSwap { offer_asset_info: tok(&h.asset_token), ask_asset_info: nat("uwhale") };
    let m = match var {
        "Receive.ExecuteSwapOperations" => M::Receive(cw20::Cw20ReceiveMsg {
            sender: if cx.canon { h.u.to_string() } else { cx.any_addr() },
            amount: cx.amt(1_000),
            msg: to_json_binary(&router::Cw20HookMsg::ExecuteSwapOperations {
                operations: vec![t2w.clone()],
                minimum_receive: if cx.flip() { Some(cx.amt(1)) } else { None },
                to: cx.opt_addr(),
                max_spread: cx.max_spread(),
            })
            .unwrap(),
        }),
        "ExecuteSwapOperations" => {
            let a = cx.amt(1_000_000);
            funds = funds_of("uwhale", a);
            M::ExecuteSwapOperations {
                operations: if cx.flip() { vec![w2t.clone(), t2w.clone()] } else { vec![w2t.clone()] },
                minimum_receive: if cx.flip() { Some(cx.amt(1)) } else { None },
                to: cx.opt_addr(),
                max_spread: cx.max_spread(),
            }
        }
        "ExecuteSwapOperation" => M::ExecuteSwapOperation {
            operation: if cx.flip() { t2w.clone() } else { w2t.clone() },
            to: cx.opt_addr(),
            max_spread: cx.max_spread(),
        },
        "AssertMinimumReceive" => M::AssertMinimumReceive {
            asset_info: if cx.flip() { tok(&h.asset_token) } else { nat("uwhale") },
            prev_balance: if cx.canon { Uint128::zero() } else { cx.amt(0) },
            minimum_receive: cx.amt(1),
            receiver: if cx.canon { h.u.to_string() } else { cx.any_addr() },
        },
        "AddSwapRoutes" => M::AddSwapRoutes {
            swap_routes: vec![router::SwapRoute {
                offer_asset_info: nat("uwhale"),
                ask_asset_info: tok(&h.asset_token),
                swap_operations: vec![w2t.clone()],
            }],
        },
        "RemoveSwapRoutes" => M::RemoveSwapRoutes {
            swap_routes: if cx.canon || cx.rng.chance(2, 3) {
                vec![router::SwapRoute {
                    offer_asset_info: tok(&h.asset_token),
                    ask_asset_info: nat("uwhale"),
                    swap_operations: vec![t2w.clone()],
                }]
            } else {
                vec![]
            },
        },
        _ => return None,
    };
    let mut name = v::router_variant(&m).to_string();
    if let M::Receive(r) = &m {
        let hook: router::Cw20HookMsg = from_json(&r.msg).ok()?;
        name = format!("{name}.{}", v::router_hook(&hook));
    }
    done(&m, name, funds)
}

// ------------------------------------------------------------------ LP token (cw20-base behind terraswap_token)
fn token_p(var: &str, cx: &mut Ctx) -> Option<Payload> {
    let h = cx.hub;
    use cw20::Cw20ExecuteMsg as M;
    let withdraw = to_json_binary(&pair::Cw20HookMsg::WithdrawLiquidity {}).unwrap();
    let m = match var {
        "Transfer" => M::Transfer { recipient: if cx.canon { h.n.to_string() } else { cx.any_addr() }, amount: cx.amt(1_000) },
        "Burn" => M::Burn { amount: cx.amt(1_000) },
        "Send" => M::Send { contract: h.pair.to_string(), amount: cx.amt(1_000), msg: withdraw },
        "IncreaseAllowance" => M::IncreaseAllowance {
            spender: if cx.canon { h.n.to_string() } else { cx.any_addr() },
            amount: cx.amt(1_000),
            expires: None,
        },
        "DecreaseAllowance" => M::DecreaseAllowance {
            spender: if cx.canon { h.incentive.to_string() } else { cx.any_addr() },
            amount: cx.amt(1_000),
            expires: None,
        },
        "TransferFrom" => M::TransferFrom {
            owner: h.o.to_string(),
            recipient: if cx.canon { cx.sender.to_string() } else { cx.any_addr() },
            amount: cx.amt(1_000),
        },
        "SendFrom" => M::SendFrom { owner: h.o.to_string(), contract: h.pair.to_string(), amount: cx.amt(1_000), msg: withdraw },
        "BurnFrom" => M::BurnFrom { owner: h.o.to_string(), amount: cx.amt(1_000) },
        "Mint" => M::Mint { recipient: if cx.canon { h.u.to_string() } else { cx.any_addr() }, amount: cx.amt(1_000) },
        "UpdateMinter" => M::UpdateMinter { new_minter: if cx.canon { Some(h.pair.to_string()) } else { cx.opt_owner() } },
        "UpdateMarketing" => M::UpdateMarketing {
            project: Some("project".into()),
            description: if cx.flip() { Some("text".into()) } else { None },
            marketing: cx.opt_addr(),
        },
        "UploadLogo" => M::UploadLogo(cw20::Logo::Url("https://example.org/logo.png".into())),
        _ => return None,
    };
    let name = v::token_variant(&m).to_string();
    done(&m, name, vec![])
}

// ------------------------------------------------------------------ incentive factory
fn incentive_factory_p(var: &str, cx: &mut Ctx) -> Option<Payload> {
    let h = cx.hub;
    use incf::ExecuteMsg as M;
    let m = match var {
        "CreateIncentive" => M::CreateIncentive {
            lp_asset: if cx.canon || cx.rng.chance(2, 3) { tok(&h.trio_lp) } else { tok(&h.lp) },
        },
        "UpdateConfig" => M::UpdateConfig {
            owner: cx.opt_owner(),
            fee_collector_addr: cx.opt_addr(),
            fee_distributor_addr: if cx.flip() { Some(h.distributor.to_string()) } else { None },
            create_flow_fee: if cx.canon || cx.flip() {
                Some(Asset { info: nat("uwhale"), amount: cx.amt(1_000) })
            } else {
                None
            },
            max_concurrent_flows: if cx.flip() { Some(cx.rng.range(0, 10)) } else { None },
            incentive_code_id: if cx.flip() { Some(h.codes.incentive) } else { None },
            max_flow_start_time_buffer: if cx.flip() { Some(cx.rng.range(0, 100)) } else { None },
            min_unbonding_duration: if cx.flip() { Some(cx.rng.range(0, 200_000)) } else { None },
            max_unbonding_duration: if cx.flip() { Some(cx.rng.range(0, 40_000_000)) } else { None },
        },
        "MigrateIncentives" => M::MigrateIncentives {
            incentive_address: if cx.canon || cx.flip() { Some(h.incentive.to_string()) } else { None },
            code_id: h.codes.incentive,
        },
        _ => return None,
    };
    let name = v::incentive_factory_variant(&m).to_string();
    done(&m, name, vec![])
}

// ------------------------------------------------------------------ incentive
fn incentive_p(var: &str, cx: &mut Ctx) -> Option<Payload> {
    use inc::ExecuteMsg as M;
    let mut funds = vec![];
    // ExpandFlow is open to everybody: any existing flow, by id or by label
    let flow_id = |cx: &mut Ctx| {
        if cx.canon {
            inc::FlowIdentifier::Id(1)
        } else {
            flow_identifier(*cx.rng.pick(&["id1", "id2", "id3", "id4", "labShared", "labLate"])).unwrap()
        }
    };
    let m = match var {
        "TakeGlobalWeightSnapshot" => M::TakeGlobalWeightSnapshot {},
        "OpenFlow" => {
            let a = cx.amt(1_000_000);
            funds = funds_of("uusdc", a);
            funds.push(coin(1_000, "uwhale"));
            M::OpenFlow {
                start_epoch: if cx.flip() { Some(cx.rng.range(0, 20)) } else { None },
                end_epoch: if cx.canon { Some(10) } else if cx.flip() { Some(cx.rng.range(0, 40)) } else { None },
                curve: if cx.flip() { Some(inc::Curve::Linear) } else { None },
                flow_asset: Asset { info: nat("uusdc"), amount: a },
                flow_label: if cx.flip() { Some(format!("l{}", cx.rng.below(100))) } else { None },
            }
        }
        // the flow is named by the op line's object selector (the verdict depends on WHICH flow is meant)
        "CloseFlow" => M::CloseFlow { flow_identifier: flow_identifier(cx.object?)? },
        "OpenPosition" => M::OpenPosition {
            amount: cx.amt(10_000),
            unbonding_duration: if cx.canon { 100_000 } else { cx.rng.range(80_000, 200_000) },
            receiver: cx.opt_addr(),
        },
        "ExpandPosition" => M::ExpandPosition { amount: cx.amt(10_000), unbonding_duration: 86_400, receiver: cx.opt_addr() },
        "ClosePosition" => M::ClosePosition { unbonding_duration: if cx.flip() { cx.rng.range(80_000, 200_000) } else { 86_400 } },
        "Withdraw" => M::Withdraw {},
        "Claim" => M::Claim {},
        "ExpandFlow" => {
            let a = cx.amt(500_000);
            funds = funds_of("uusdc", a);
            M::ExpandFlow {
                flow_identifier: flow_id(cx),
                end_epoch: if cx.flip() { Some(cx.rng.range(0, 40)) } else { None },
                flow_asset: Asset { info: nat("uusdc"), amount: a },
            }
        }
        _ => return None,
    };
    let name = v::incentive_variant(&m).to_string();
    done(&m, name, funds)
}

// ------------------------------------------------------------------ frontend helper
fn helper_p(var: &str, cx: &mut Ctx) -> Option<Payload> {
    let h = cx.hub;
    use fh::ExecuteMsg as M;
    let mut funds = vec![];
    let m = match var {
        "Deposit" => {
            let a = cx.amt(HELPER_ALLOWANCE);
            funds = funds_of("uwhale", a);
            M::Deposit {
                pair_address: h.pair.to_string(),
                assets: [
                    Asset { info: nat("uwhale"), amount: a },
                    Asset {
                        info: tok(&h.asset_token),
                        amount: if cx.canon || cx.rng.chance(2, 3) { Uint128::new(HELPER_ALLOWANCE) } else { cx.amt(1) },
                    },
                ],
                slippage_tolerance: None,
                unbonding_duration: if cx.canon { 86_400 } else { cx.rng.range(80_000, 200_000) },
            }
        }
        "UpdateConfig" => M::UpdateConfig {
            incentive_factory_addr: if cx.canon { Some(h.inc_factory.to_string()) } else { cx.opt_addr() },
            owner: cx.opt_owner(),
        },
        _ => return None,
    };
    let name = v::frontend_helper_variant(&m).to_string();
    done(&m, name, funds)
}

// ------------------------------------------------------------------ vault factory
fn update_params(cx: &mut Ctx) -> vmsg::UpdateConfigParams {
    vmsg::UpdateConfigParams {
        flash_loan_enabled: if cx.canon { Some(true) } else { cx.opt_bool() },
        deposit_enabled: cx.opt_bool(),
        withdraw_enabled: cx.opt_bool(),
        new_owner: cx.opt_owner(),
        new_vault_fees: if cx.flip() { Some(cx.vault_fees()) } else { None },
        new_fee_collector_addr: cx.opt_addr(),
    }
}

fn vault_factory_p(var: &str, cx: &mut Ctx) -> Option<Payload> {
    let h = cx.hub;
    use vf::ExecuteMsg as M;
    let m = match var {
        "CreateVault" => M::CreateVault {
            asset_info: if cx.canon || cx.rng.chance(2, 3) { nat("uusdc") } else { nat("uwhale") },
            fees: cx.vault_fees(),
            token_factory_lp: false,
        },
        "MigrateVaults" => M::MigrateVaults {
            vault_addr: if cx.canon || cx.flip() { Some(h.vault.to_string()) } else { None },
            vault_code_id: h.codes.vault,
        },
        "RemoveVault" => M::RemoveVault { asset_info: if cx.canon || cx.rng.chance(2, 3) { nat("uwhale") } else { nat("uusdc") } },
        "UpdateVaultConfig" => M::UpdateVaultConfig { vault_addr: h.vault.to_string(), params: update_params(cx) },
        "UpdateConfig" => M::UpdateConfig {
            owner: cx.opt_owner(),
            fee_collector_addr: if cx.canon { Some(h.collector.to_string()) } else { cx.opt_addr() },
            vault_id: if cx.flip() { Some(h.codes.vault) } else { None },
            token_id: if cx.flip() { Some(h.codes.token) } else { None },
        },
        _ => return None,
    };
    let name = v::vault_factory_variant(&m).to_string();
    done(&m, name, vec![])
}

// ------------------------------------------------------------------ vault
fn vault_p(var: &str, cx: &mut Ctx) -> Option<Payload> {
    let h = cx.hub;
    use vmsg::ExecuteMsg as M;
    let mut funds = vec![];
    let m = match var {
        "Deposit" => {
            let a = cx.amt(1_000_000);
            funds = funds_of("uwhale", a);
            M::Deposit { amount: a }
        }
        "Withdraw" => {
            if cx.flip() {
                funds = funds_of("uwhale", cx.amt(10));
            }
            M::Withdraw {}
        }
        "FlashLoan" => M::FlashLoan { amount: cx.amt(1_000), msg: to_json_binary(&Empty {}).unwrap() },
        "CollectProtocolFees" => M::CollectProtocolFees {},
        "UpdateConfig" => M::UpdateConfig(update_params(cx)),
        "Receive.Withdraw" => M::Receive(vmsg::Cw20ReceiveMsg {
            sender: if cx.canon { h.u.to_string() } else { cx.any_addr() },
            amount: cx.amt(1_000),
            msg: to_json_binary(&vmsg::Cw20HookMsg::Withdraw {}).unwrap(),
        }),
        "Callback.AfterTrade" => {
            let bal = h.app.wrap().query_balance(&h.vault, "uwhale").map(|c| c.amount).unwrap_or_default();
            // what the vault holds when the message arrives
            let bal = if cx.inloan { bal.saturating_sub(Uint128::new(super::hub::LOAN_AMOUNT)) } else { bal };
            M::Callback(vmsg::CallbackMsg::AfterTrade {
                old_balance: if cx.canon { bal } else { cx.amt(bal.u128()) },
                loan_amount: if cx.canon { Uint128::zero() } else { cx.amt(0) },
            })
        }
        _ => return None,
    };
    let mut name = v::vault_variant(&m).to_string();
    match &m {
        M::Receive(r) => {
            let hook: vmsg::Cw20HookMsg = from_json(&r.msg).ok()?;
            name = format!("{name}.{}", v::vault_hook(&hook));
        }
        M::Callback(cb) => name = format!("{name}.{}", v::vault_callback(cb)),
        _ => {}
    }
    done(&m, name, funds)
}

// ------------------------------------------------------------------ vault router
fn vault_router_p(var: &str, cx: &mut Ctx) -> Option<Payload> {
    let h = cx.hub;
    use vr::ExecuteMsg as M;
    let m = match var {
        "FlashLoan" => M::FlashLoan {
            assets: vec![Asset { info: nat("uwhale"), amount: cx.amt(1_000) }],
            msgs: vec![],
        },
        "UpdateConfig" => M::UpdateConfig {
            owner: cx.opt_owner(),
            vault_factory_addr: if cx.canon { Some(h.vault_factory.to_string()) } else { cx.opt_addr() },
        },
        "NextLoan" => M::NextLoan {
            initiator: if cx.canon { h.u.clone() } else { Addr::unchecked(cx.any_addr()) },
            // either the registered vault, or the caller claiming to be one
            source_vault: if cx.canon || cx.rng.chance(1, 2) { h.vault.to_string() } else { cx.sender.to_string() },
            // the vault is registered for uwhale; only other callers also try an unregistered asset
            source_vault_asset_info: if cx.canon || *cx.sender == h.vault || cx.rng.chance(3, 4) { nat("uwhale") } else { nat("uusdc") },
            payload: vec![],
            to_loan: vec![],
            loaned_assets: vec![(h.vault.to_string(), Asset { info: nat("uwhale"), amount: cx.amt(1_000) })],
        },
        "CompleteLoan" => M::CompleteLoan {
            initiator: if cx.canon { h.u.clone() } else { Addr::unchecked(cx.any_addr()) },
            loaned_assets: vec![(h.vault.to_string(), Asset { info: nat("uwhale"), amount: cx.amt(1_000) })],
        },
        _ => return None,
    };
    let name = v::vault_router_variant(&m).to_string();
    done(&m, name, vec![])
}

// ------------------------------------------------------------------ fee collector
fn fees_for(cx: &mut Ctx) -> fc::FeesFor {
    let h = cx.hub;
    if cx.canon || cx.rng.chance(1, 2) {
        fc::FeesFor::Contracts {
            contracts: vec![
                fc::Contract { address: h.pair.to_string(), contract_type: fc::ContractType::Pool {} },
                fc::Contract { address: h.vault.to_string(), contract_type: fc::ContractType::Vault {} },
            ],
        }
    } else if cx.rng.chance(1, 2) {
        fc::FeesFor::Factory {
            factory_addr: h.pool_factory.to_string(),
            factory_type: fc::FactoryType::Pool { start_after: None, limit: None },
        }
    } else {
        fc::FeesFor::Factory {
            factory_addr: h.vault_factory.to_string(),
            factory_type: fc::FactoryType::Vault { start_after: None, limit: None },
        }
    }
}

fn collector_p(var: &str, cx: &mut Ctx) -> Option<Payload> {
    let h = cx.hub;
    use fc::ExecuteMsg as M;
    let m = match var {
        "CollectFees" => M::CollectFees { collect_fees_for: fees_for(cx) },
        "AggregateFees" => M::AggregateFees {
            aggregate_fees_for: fc::FeesFor::Factory {
                factory_addr: h.pool_factory.to_string(),
                factory_type: fc::FactoryType::Pool { start_after: None, limit: None },
            },
        },
        "ForwardFees" => M::ForwardFees {
            epoch: fd::Epoch {
                id: Uint64::new(cx.small(2, 10)),
                start_time: h.app.block_info().time,
                total: vec![],
                available: vec![],
                claimed: vec![],
                global_index: Default::default(),
            },
            forward_fees_as: nat("uwhale"),
        },
        "UpdateConfig" => M::UpdateConfig {
            owner: cx.opt_owner(),
            pool_router: if cx.flip() { Some(h.router.to_string()) } else { None },
            fee_distributor: if cx.flip() { Some(h.distributor.to_string()) } else { None },
            pool_factory: if cx.flip() { Some(h.pool_factory.to_string()) } else { None },
            vault_factory: if cx.flip() { Some(h.vault_factory.to_string()) } else { None },
            take_rate: if cx.canon { Some(Decimal::percent(5)) } else if cx.flip() { Some(cx.dec()) } else { None },
            take_rate_dao_address: cx.opt_addr(),
            is_take_rate_active: cx.opt_bool(),
        },
        _ => return None,
    };
    let name = v::fee_collector_variant(&m).to_string();
    done(&m, name, vec![])
}

// ------------------------------------------------------------------ fee distributor
fn distributor_p(var: &str, cx: &mut Ctx) -> Option<Payload> {
    let h = cx.hub;
    use fd::ExecuteMsg as M;
    let m = match var {
        "NewEpoch" => M::NewEpoch {},
        "Claim" => M::Claim {},
        "UpdateConfig" => M::UpdateConfig {
            owner: cx.opt_owner(),
            bonding_contract_addr: if cx.flip() { Some(h.lair.to_string()) } else { None },
            fee_collector_addr: if cx.canon || cx.flip() { Some(h.collector.to_string()) } else { None },
            grace_period: if cx.flip() { Some(Uint64::new(cx.rng.range(0, 12))) } else { None },
            distribution_asset: if cx.flip() { Some(nat(cx.native_denom())) } else { None },
            epoch_config: if cx.flip() {
                Some(em::EpochConfig {
                    duration: Uint64::new(cx.rng.range(1, 3) * DAY_NS),
                    genesis_epoch: Uint64::new(h.app.block_info().time.nanos()),
                })
            } else {
                None
            },
        },
        _ => return None,
    };
    let name = v::fee_distributor_variant(&m).to_string();
    done(&m, name, vec![])
}

// ------------------------------------------------------------------ whale lair
fn lair_p(var: &str, cx: &mut Ctx) -> Option<Payload> {
    let h = cx.hub;
    use wl::ExecuteMsg as M;
    let mut funds = vec![];
    let m = match var {
        "Bond" => {
            let a = cx.amt(1_000);
            funds = funds_of("bwhale", a);
            M::Bond { asset: Asset { info: nat("bwhale"), amount: a } }
        }
        "Unbond" => M::Unbond { asset: Asset { info: nat("bwhale"), amount: cx.amt(1_000) } },
        "Withdraw" => M::Withdraw { denom: "bwhale".into() },
        "UpdateConfig" => M::UpdateConfig {
            owner: cx.opt_owner(),
            unbonding_period: if cx.canon { Some(Uint64::new(2_000_000_000)) } else if cx.flip() { Some(Uint64::new(cx.rng.next() >> 20)) } else { None },
            growth_rate: if cx.flip() { Some(cx.dec()) } else { None },
            fee_distributor_addr: if cx.flip() { Some(h.distributor.to_string()) } else { None },
        },
        _ => return None,
    };
    let name = v::whale_lair_variant(&m).to_string();
    done(&m, name, funds)
}

// ------------------------------------------------------------------ epoch manager
fn epoch_manager_p(var: &str, cx: &mut Ctx) -> Option<Payload> {
    let h = cx.hub;
    use em::ExecuteMsg as M;
    let m = match var {
        "CreateEpoch" => M::CreateEpoch {},
        // `addr_validate(contract_addr)` runs before the admin check: keep the address valid
        "AddHook" => M::AddHook { contract_addr: if cx.canon { h.n.to_string() } else { cx.any_addr() } },
        "RemoveHook" => M::RemoveHook {
            contract_addr: if cx.canon || cx.rng.chance(2, 3) { h.sink.to_string() } else { cx.any_addr() },
        },
        "UpdateConfig" => M::UpdateConfig {
            owner: cx.opt_owner(),
            epoch_config: if cx.canon || cx.flip() {
                Some(em::EpochConfig {
                    duration: Uint64::new(cx.small(1, 3).max(1) * DAY_NS),
                    genesis_epoch: Uint64::new(h.app.block_info().time.nanos()),
                })
            } else {
                None
            },
        },
        _ => return None,
    };
    let name = v::epoch_manager_variant(&m).to_string();
    done(&m, name, vec![])
}

#[allow(dead_code)]
fn _unused(_: AssetInfo) {}
