//! Engine `epochs` (C20): the real epoch-manager with three recording hook contracts, and the real
//! fee_distributor + fee_collector + whale_lair stack (empty pool / vault factories) so that `NewEpoch`
//! runs end to end (ForwardFees, the collector's reply, the distributor's reply).
//!
//! init epochs t0=<ns> mid0=<n> mstart=<ns> mdur=<ns> mgen=<ns> ddur=<ns> dgen=<ns>
//! <height> <time_ns> <sender> m_create | d_create | m_add_hook <k> | m_remove_hook <k>
//!                             | m_update_config <dur> <gen> | d_update_config <dur> <gen>
//! observation: ok|err|panic m= mid= mstart= mdur= mgen= hooks= d= did= dstart= ddur= dgen= h0=c:id:start h1= h2=
use crate::common::*;
use cosmwasm_schema::cw_serde;
use cosmwasm_std::{
    to_json_binary, Addr, Binary, BlockInfo, Decimal, Deps, DepsMut, Empty, Env, MessageInfo, Response,
    StdResult, Timestamp, Uint64,
};
use cw_multi_test::{App, ContractWrapper, Executor};
use cw_storage_plus::Item;
use white_whale_std::epoch_manager::epoch_manager as em;
use white_whale_std::epoch_manager::hooks::EpochChangedHookMsg;
use white_whale_std::fee_collector as fc;
use white_whale_std::fee_distributor as fd;
use white_whale_std::pool_network::asset::AssetInfo;
use white_whale_std::whale_lair as wl;

const DAY: u64 = 86_400_000_000_000;
const NREC: usize = 3;
const SENDERS: [&str; 4] = ["owner", "alice", "bob", "mallory"];

// ------------------------------------------------------------------ recording hook contract
/// same wire format as the (private) `EpochChangedExecuteMsg` of white-whale-std
#[cw_serde]
enum RecExec {
    EpochChangedHook(EpochChangedHookMsg),
}
#[cw_serde]
enum RecQuery {
    Log {},
}
const REC_LOG: Item<Vec<(u64, u64)>> = Item::new("log");

fn rec_execute(deps: DepsMut, _env: Env, _info: MessageInfo, msg: RecExec) -> StdResult<Response> {
    match msg {
        RecExec::EpochChangedHook(m) => {
            let mut log = REC_LOG.may_load(deps.storage)?.unwrap_or_default();
            log.push((m.current_epoch.id, m.current_epoch.start_time.nanos()));
            REC_LOG.save(deps.storage, &log)?;
            Ok(Response::new())
        }
    }
}
fn rec_instantiate(_deps: DepsMut, _env: Env, _info: MessageInfo, _msg: Empty) -> StdResult<Response> {
    Ok(Response::new())
}
fn rec_query(deps: Deps, _env: Env, msg: RecQuery) -> StdResult<Binary> {
    match msg {
        RecQuery::Log {} => to_json_binary(&REC_LOG.may_load(deps.storage)?.unwrap_or_default()),
    }
}

// ------------------------------------------------------------------ observation
#[derive(Clone, PartialEq, Debug, Default)]
struct Obs {
    m: bool,
    mid: u64,
    mstart: u64,
    mdur: u64,
    mgen: u64,
    /// `Epoch{id}` of the previous / next id as `id:start`, `err`, `panic` or `-`
    mq: String,
    hooks: Vec<usize>,
    d: bool,
    did: u64,
    dstart: u64,
    ddur: u64,
    dgen: u64,
    logs: [Vec<(u64, u64)>; NREC],
}

impl Obs {
    fn show(&self) -> String {
        let hooks = if self.hooks.is_empty() {
            "-".to_string()
        } else {
            self.hooks.iter().map(|k| k.to_string()).collect::<Vec<_>>().join(",")
        };
        let mut s = format!(
            "m={} mid={} mstart={} mdur={} mgen={} mq={} hooks={} d={} did={} dstart={} ddur={} dgen={}",
            self.m as u8, self.mid, self.mstart, self.mdur, self.mgen, if self.mq.is_empty() { "-/-" } else { &self.mq }, hooks, self.d as u8, self.did, self.dstart,
            self.ddur, self.dgen
        );
        for (i, l) in self.logs.iter().enumerate() {
            let (id, st) = l.last().cloned().unwrap_or((0, 0));
            s += &format!(" h{}={}:{}:{}", i, l.len(), id, st);
        }
        s
    }
}

struct Stack {
    app: App,
    mgr: Option<Addr>,
    dist: Option<Addr>,
    recs: Vec<Addr>,
    prev: Obs,
    /// (id, start, duration that was applied) of the instantiate epoch and every created one (manager)
    hist_m: Vec<(u64, u64, u64)>,
    /// every epoch the distributor created
    hist_d: Vec<(u64, u64)>,
    now: u64,
    height: u64,
}

impl Stack {
    fn observe(&self) -> Obs {
        let mut o = Obs::default();
        if let Some(m) = &self.mgr {
            let e: em::EpochResponse = self.app.wrap().query_wasm_smart(m, &em::QueryMsg::CurrentEpoch {}).unwrap();
            let c: em::ConfigResponse = self.app.wrap().query_wasm_smart(m, &em::QueryMsg::Config {}).unwrap();
            o.m = true;
            o.mid = e.epoch.id;
            o.mstart = e.epoch.start_time.nanos();
            o.mdur = c.epoch_config.duration.u64();
            o.mgen = c.epoch_config.genesis_epoch.u64();
            // `Epoch{id}` of the previous and of the next id (the query may panic on its arithmetic)
            let q = |id: u64| -> String {
                let app = &self.app;
                let m = m.clone();
                match guarded(move || app.wrap().query_wasm_smart::<em::EpochResponse>(&m, &em::QueryMsg::Epoch { id })) {
                    Outcome::Ok(r) => format!("{}:{}", r.epoch.id, r.epoch.start_time.nanos()),
                    Outcome::Err(_) => "err".into(),
                    Outcome::Panic => "panic".into(),
                }
            };
            let prev = if o.mid == 0 { "-".to_string() } else { q(o.mid - 1) };
            let nxt = if o.mid == u64::MAX { "-".to_string() } else { q(o.mid + 1) };
            o.mq = format!("{prev}/{nxt}");
            // the manager has no hooks query: the raw `hooks` item (cw-controllers `Hooks`)
            if let Some(raw) = self.app.wrap().query_wasm_raw(m, b"hooks".to_vec()).unwrap() {
                let hs: Vec<Addr> = cosmwasm_std::from_json(raw).unwrap();
                o.hooks = hs.iter().map(|h| self.recs.iter().position(|r| r == h).unwrap_or(99)).collect();
            }
        }
        if let Some(d) = &self.dist {
            let e: fd::EpochResponse = self.app.wrap().query_wasm_smart(d, &fd::QueryMsg::CurrentEpoch {}).unwrap();
            let c: fd::Config = self.app.wrap().query_wasm_smart(d, &fd::QueryMsg::Config {}).unwrap();
            o.d = true;
            o.did = e.epoch.id.u64();
            o.dstart = e.epoch.start_time.nanos();
            o.ddur = c.epoch_config.duration.u64();
            o.dgen = c.epoch_config.genesis_epoch.u64();
        }
        for (i, r) in self.recs.iter().enumerate() {
            o.logs[i] = self.app.wrap().query_wasm_smart(r, &RecQuery::Log {}).unwrap();
        }
        o
    }
}

fn nat(d: &str) -> AssetInfo {
    AssetInfo::NativeToken { denom: d.into() }
}

fn build(t0: u64, mid0: u64, mstart: u64, mdur: u64, mgen: u64, ddur: u64, dgen: u64) -> Stack {
    let mut app = App::default();
    app.set_block(BlockInfo { height: 1, time: Timestamp::from_nanos(t0), chain_id: "verif".into() });
    let owner = Addr::unchecked("owner");
    let rec_id = app.store_code(Box::new(ContractWrapper::new(rec_execute, rec_instantiate, rec_query)));
    let mgr_id = app.store_code(Box::new(ContractWrapper::new(
        epoch_manager::contract::execute,
        epoch_manager::contract::instantiate,
        epoch_manager::contract::query,
    )));
    let col_id = app.store_code(Box::new(
        ContractWrapper::new(
            fee_collector::contract::execute,
            fee_collector::contract::instantiate,
            fee_collector::contract::query,
        )
        .with_reply(fee_collector::contract::reply),
    ));
    let dist_id = app.store_code(Box::new(
        ContractWrapper::new(
            fee_distributor::contract::execute,
            fee_distributor::contract::instantiate,
            fee_distributor::contract::query,
        )
        .with_reply(fee_distributor::contract::reply),
    ));
    let lair_id = app.store_code(Box::new(ContractWrapper::new(
        whale_lair::contract::execute,
        whale_lair::contract::instantiate,
        whale_lair::contract::query,
    )));
    let fac_id = app.store_code(Box::new(
        ContractWrapper::new(
            terraswap_factory::contract::execute,
            terraswap_factory::contract::instantiate,
            terraswap_factory::contract::query,
        )
        .with_reply(terraswap_factory::contract::reply),
    ));
    let vfac_id = app.store_code(Box::new(
        ContractWrapper::new(
            vault_factory::contract::execute,
            vault_factory::contract::instantiate,
            vault_factory::contract::query,
        )
        .with_reply(vault_factory::reply::reply),
    ));
    let recs: Vec<Addr> = (0..NREC)
        .map(|i| app.instantiate_contract(rec_id, owner.clone(), &Empty {}, &[], format!("rec{i}"), None).unwrap())
        .collect();
    let mgr = app
        .instantiate_contract(
            mgr_id,
            owner.clone(),
            &em::InstantiateMsg {
                start_epoch: em::EpochV2 { id: mid0, start_time: Timestamp::from_nanos(mstart) },
                epoch_config: em::EpochConfig { duration: Uint64::new(mdur), genesis_epoch: Uint64::new(mgen) },
            },
            &[],
            "epoch-manager",
            None,
        )
        .ok();
    // distributor stack: collector, lair, empty factories
    let col = app.instantiate_contract(col_id, owner.clone(), &fc::InstantiateMsg {}, &[], "col", None).unwrap();
    let lair = app
        .instantiate_contract(
            lair_id,
            owner.clone(),
            &wl::InstantiateMsg {
                unbonding_period: Uint64::new(1_000_000_000),
                growth_rate: Decimal::zero(),
                bonding_assets: vec![nat("bwhale")],
            },
            &[],
            "lair",
            None,
        )
        .unwrap();
    let dist = app
        .instantiate_contract(
            dist_id,
            owner.clone(),
            &fd::InstantiateMsg {
                bonding_contract_addr: lair.to_string(),
                fee_collector_addr: col.to_string(),
                grace_period: Uint64::new(2),
                epoch_config: em::EpochConfig { duration: Uint64::new(ddur), genesis_epoch: Uint64::new(dgen) },
                distribution_asset: nat("uwhale"),
            },
            &[],
            "dist",
            None,
        )
        .ok();
    if let Some(dist) = &dist {
        app.execute_contract(
            owner.clone(),
            lair.clone(),
            &wl::ExecuteMsg::UpdateConfig {
                owner: None,
                unbonding_period: None,
                growth_rate: None,
                fee_distributor_addr: Some(dist.to_string()),
            },
            &[],
        )
        .unwrap();
        let fac = app
            .instantiate_contract(
                fac_id,
                owner.clone(),
                &white_whale_std::pool_network::factory::InstantiateMsg {
                    pair_code_id: rec_id,
                    trio_code_id: rec_id,
                    token_code_id: rec_id,
                    fee_collector_addr: col.to_string(),
                },
                &[],
                "fac",
                None,
            )
            .unwrap();
        let vfac = app
            .instantiate_contract(
                vfac_id,
                owner.clone(),
                &white_whale_std::vault_network::vault_factory::InstantiateMsg {
                    owner: owner.to_string(),
                    vault_id: rec_id,
                    token_id: rec_id,
                    fee_collector_addr: col.to_string(),
                },
                &[],
                "vfac",
                None,
            )
            .unwrap();
        app.execute_contract(
            owner.clone(),
            col.clone(),
            &fc::ExecuteMsg::UpdateConfig {
                owner: None,
                pool_router: None,
                fee_distributor: Some(dist.to_string()),
                pool_factory: Some(fac.to_string()),
                vault_factory: Some(vfac.to_string()),
                take_rate: None,
                take_rate_dao_address: None,
                is_take_rate_active: None,
            },
            &[],
        )
        .unwrap();
    }
    let mut st = Stack { app, mgr, dist, recs, prev: Obs::default(), hist_m: vec![], hist_d: vec![], now: t0, height: 1 };
    st.prev = st.observe();
    if st.prev.m {
        st.hist_m.push((st.prev.mid, st.prev.mstart, 0));
    }
    st
}

// ------------------------------------------------------------------ engine
#[derive(Default)]
pub struct Epochs {
    st: Option<Stack>,
    // generator state of the current case
    n_ops: u64,
    init_hooks: Vec<usize>,
    burst: u64,
    burst_op: u8,
    /// scripted long history: one jump of ~300 durations, then creation after creation in that block (both
    /// clocks), so that epoch ids pass 255 / 256
    marathon: bool,
}

#[derive(Clone, Debug)]
enum Op {
    MCreate,
    DCreate,
    MAddHook(usize),
    MRemoveHook(usize),
    MUpdateConfig(u64, u64),
    DUpdateConfig(u64, u64),
}

fn parse_op(ws: &[&str]) -> Option<Op> {
    let nums: Option<Vec<u64>> = ws[1..].iter().map(|w| w.parse::<u64>().ok()).collect();
    let nums = nums?;
    match (ws[0], nums.as_slice()) {
        ("m_create", []) => Some(Op::MCreate),
        ("d_create", []) => Some(Op::DCreate),
        ("m_add_hook", [k]) if (*k as usize) < NREC => Some(Op::MAddHook(*k as usize)),
        ("m_remove_hook", [k]) if (*k as usize) < NREC => Some(Op::MRemoveHook(*k as usize)),
        ("m_update_config", [d, g]) => Some(Op::MUpdateConfig(*d, *g)),
        ("d_update_config", [d, g]) => Some(Op::DUpdateConfig(*d, *g)),
        _ => None,
    }
}

fn kv(ws: &[&str], k: &str) -> Option<u64> {
    ws.iter().find_map(|w| w.strip_prefix(k).and_then(|r| r.strip_prefix('=')).and_then(|v| v.parse::<u64>().ok()))
}

/// ids consecutive, starts strictly increasing (for positive durations) over a whole history
fn history_ok(h: &[(u64, u64, u64)]) -> (bool, bool) {
    let mut ids = true;
    let mut starts = true;
    for w in h.windows(2) {
        ids &= w[1].0 as u128 == w[0].0 as u128 + 1;
        // w[1].2 is the duration that was in force when w[1] was created
        starts &= if w[1].2 > 0 { w[1].1 > w[0].1 } else { w[1].1 >= w[0].1 };
    }
    // also pairwise (not only neighbours)
    for i in 0..h.len() {
        for j in i + 1..h.len() {
            ids &= h[i].0 < h[j].0;
        }
    }
    (ids, starts)
}

impl Epochs {
    fn monitors(&self, mon: &mut Monitor, op: &Op, now: u64, outcome: &str, prev: &Obs, cur: &Obs, line: &str) {
        let ok = outcome == "ok";
        let desc = || format!("{line} -> {outcome} | before: {} | after: {}", prev.show(), cur.show());
        // any failed transaction leaves every observable unchanged
        if !ok {
            mon.check("C20", "failed_tx_changes_nothing", prev == cur, desc);
        }
        match op {
            Op::MCreate if prev.m => {
                let due_at = prev.mstart as u128 + prev.mdur as u128;
                let due = now as u128 >= due_at;
                let representable = due_at <= u64::MAX as u128 && prev.mid < u64::MAX;
                if prev.mdur < DAY {
                    mon.stat("m_create_duration_below_one_day(outside quantifier)");
                }
                mon.stat(if now < prev.mstart {
                    "m_create_before_current_start"
                } else if !due {
                    "m_create_early"
                } else if now as u128 == due_at {
                    "m_create_exactly_due"
                } else if now as u128 == due_at + 1 {
                    "m_create_due_plus_1ns"
                } else if now as u128 >= due_at + prev.mdur as u128 && prev.mdur > 0 {
                    "m_create_late_by_a_duration_or_more"
                } else {
                    "m_create_due"
                });
                if now as u128 + 1 == due_at {
                    mon.stat("m_create_1ns_early");
                }
                mon.check("C20", "m_created_only_when_due", !ok || due, desc);
                if representable {
                    mon.check("C20", "m_due_implies_created_by_anyone", !due || ok, desc);
                } else {
                    mon.stat("m_create_u64_overflow_regime");
                    if prev.mid == u64::MAX && due {
                        mon.stat(&format!("m_create_id_overflow_{outcome}"));
                    }
                }
                if ok {
                    mon.check("C20", "m_id_plus_one", cur.mid as u128 == prev.mid as u128 + 1, desc);
                    mon.check("C20", "m_start_is_prev_start_plus_duration", cur.mstart as u128 == due_at, desc);
                    mon.check(
                        "C20",
                        "m_create_touches_nothing_else",
                        cur.mdur == prev.mdur && cur.mgen == prev.mgen && cur.hooks == prev.hooks
                            && (cur.d, cur.did, cur.dstart, cur.ddur, cur.dgen) == (prev.d, prev.did, prev.dstart, prev.ddur, prev.dgen),
                        desc,
                    );
                    // every registered hook told exactly once, about exactly the new epoch; nobody else told
                    let mut hooks_ok = true;
                    for k in 0..NREC {
                        let mut want = prev.logs[k].clone();
                        if prev.hooks.contains(&k) {
                            want.push((cur.mid, cur.mstart));
                        }
                        hooks_ok &= want == cur.logs[k];
                    }
                    mon.check("C20", "hooks_notified_exactly_once_each", hooks_ok, desc);
                    mon.stat(&format!("m_created_with_{}_hooks", prev.hooks.len()));
                } else {
                    mon.check("C20", "m_early_rejected_nothing_changed", prev == cur, desc);
                    mon.stat(&format!("m_create_rejected_{outcome}"));
                }
            }
            Op::DCreate if prev.d => {
                let first = prev.did == 0 && prev.dstart == 0;
                let due_at = if first { prev.dgen as u128 } else { prev.dstart as u128 + prev.ddur as u128 };
                let due = now as u128 >= due_at;
                let representable = due_at <= u64::MAX as u128 && prev.did < u64::MAX;
                // documented deviation: the default "epoch 0" starts at time 0 and has to "expire" too, so the
                // first epoch also needs block time >= duration (always true for real chain times)
                let tiny_time = first && now < prev.ddur;
                mon.stat(if now < prev.dstart {
                    "d_create_before_current_start"
                } else if !due {
                    if first { "d_create_before_genesis" } else { "d_create_early" }
                } else if now as u128 == due_at {
                    if first { "d_create_exactly_at_genesis" } else { "d_create_exactly_due" }
                } else if now as u128 == due_at + 1 {
                    "d_create_due_plus_1ns"
                } else if !first && now as u128 >= due_at + prev.ddur as u128 {
                    "d_create_late_by_a_duration_or_more"
                } else {
                    "d_create_due"
                });
                if now as u128 + 1 == due_at {
                    mon.stat("d_create_1ns_early");
                }
                mon.check("C20", "d_created_only_when_due", !ok || due, desc);
                if tiny_time {
                    mon.stat("d_first_epoch_blocktime_below_duration(outside quantifier)");
                } else if representable {
                    mon.check("C20", "d_due_implies_created_by_anyone", !due || ok, desc);
                } else {
                    mon.stat("d_create_u64_overflow_regime");
                }
                if ok {
                    mon.check("C20", "d_id_plus_one", cur.did as u128 == prev.did as u128 + 1, desc);
                    mon.check("C20", "d_start_is_prev_start_plus_duration_or_genesis", cur.dstart as u128 == due_at, desc);
                    let mut others = cur.clone();
                    others.did = prev.did;
                    others.dstart = prev.dstart;
                    mon.check("C20", "d_create_touches_nothing_else", &others == prev, desc);
                    mon.stat(if first { "d_created_first" } else { "d_created_later" });
                } else {
                    mon.check("C20", "d_early_rejected_nothing_changed", prev == cur, desc);
                    mon.stat(&format!("d_create_rejected_{outcome}"));
                }
            }
            _ => {
                // no other message moves a clock or notifies a hook
                mon.check(
                    "C20",
                    "only_creation_moves_the_clock",
                    (cur.mid, cur.mstart, cur.did, cur.dstart) == (prev.mid, prev.mstart, prev.did, prev.dstart)
                        && cur.logs == prev.logs,
                    desc,
                );
            }
        }
    }
}

impl Engine for Epochs {
    fn exec(&mut self, line: &str, mon: &mut Monitor) -> String {
        let ws: Vec<&str> = line.split_whitespace().collect();
        if ws.is_empty() {
            return "bad-op".into();
        }
        if ws[0] == "init" {
            if ws.get(1) != Some(&"epochs") {
                return "bad-op".into();
            }
            let g = |k: &str| kv(&ws[2..], k);
            let (t0, mid0, mstart, mdur, mgen, ddur, dgen) =
                match (g("t0"), g("mid0"), g("mstart"), g("mdur"), g("mgen"), g("ddur"), g("dgen")) {
                    (Some(a), Some(b), Some(c), Some(d), Some(e), Some(f), Some(h)) => (a, b, c, d, e, f, h),
                    _ => return "bad-op".into(),
                };
            let st = build(t0, mid0, mstart, mdur, mgen, ddur, dgen);
            // instantiate rules as stated by the code comments / property quantifier
            mon.check("C20", "d_instantiate_requires_duration_of_a_day", st.prev.d == (ddur >= DAY), || {
                format!("{line}: distributor instantiated={}", st.prev.d)
            });
            mon.check("C20", "m_instantiate_requires_future_start_equal_genesis", st.prev.m == (mstart >= t0 && mgen == mstart), || {
                format!("{line}: manager instantiated={}", st.prev.m)
            });
            mon.stat(if st.prev.m { "init_manager_ok" } else { "init_manager_rejected" });
            mon.stat(if st.prev.d { "init_distributor_ok" } else { "init_distributor_rejected" });
            mon.stat(if t0 < 30 * DAY {
                "t0_tiny"
            } else if t0 > u64::MAX - 1000 * DAY {
                "t0_near_u64_max"
            } else {
                "t0_realistic_or_random"
            });
            let o = if st.prev.m && st.prev.d { "ok" } else { "err" };
            let s = format!("{o} {}", st.prev.show());
            self.st = Some(st);
            return s;
        }
        let st = match self.st.as_mut() {
            Some(s) => s,
            None => return "bad-op".into(),
        };
        if ws.len() < 4 {
            return "bad-op".into();
        }
        let (height, now) = match (ws[0].parse::<u64>(), ws[1].parse::<u64>()) {
            (Ok(h), Ok(t)) => (h, t),
            _ => return "bad-op".into(),
        };
        // senders: the four accounts, or one of the hook contracts itself (`hook0..2`): a registered hook may
        // well be the one who creates the epoch it is then to be told about
        let sender = if let Some(k) = ws[2].strip_prefix("hook").and_then(|x| x.parse::<usize>().ok()).filter(|k| *k < NREC) {
            st.recs[k].clone()
        } else if SENDERS.contains(&ws[2]) {
            Addr::unchecked(ws[2])
        } else {
            return "bad-op".into();
        };
        let op = match parse_op(&ws[3..]) {
            Some(o) => o,
            None => return "bad-op".into(),
        };
        if now < st.now {
            mon.stat("block_time_goes_backwards(malformed)");
        } else if now == st.now {
            mon.stat("same_block_time_as_previous_op");
        }
        st.now = now;
        st.height = height;
        st.app.set_block(BlockInfo { height, time: Timestamp::from_nanos(now), chain_id: "verif".into() });
        let prev = st.prev.clone();
        let target = match &op {
            Op::MCreate | Op::MAddHook(_) | Op::MRemoveHook(_) | Op::MUpdateConfig(..) => st.mgr.clone(),
            Op::DCreate | Op::DUpdateConfig(..) => st.dist.clone(),
        };
        let outcome: &str = match target {
            None => "err",
            Some(addr) => {
                let recs = st.recs.clone();
                let app = &mut st.app;
                let r = guarded(|| match &op {
                    Op::MCreate => app.execute_contract(sender.clone(), addr.clone(), &em::ExecuteMsg::CreateEpoch {}, &[]),
                    Op::MAddHook(k) => app.execute_contract(
                        sender.clone(),
                        addr.clone(),
                        &em::ExecuteMsg::AddHook { contract_addr: recs[*k].to_string() },
                        &[],
                    ),
                    Op::MRemoveHook(k) => app.execute_contract(
                        sender.clone(),
                        addr.clone(),
                        &em::ExecuteMsg::RemoveHook { contract_addr: recs[*k].to_string() },
                        &[],
                    ),
                    Op::MUpdateConfig(d, g) => app.execute_contract(
                        sender.clone(),
                        addr.clone(),
                        &em::ExecuteMsg::UpdateConfig {
                            owner: None,
                            epoch_config: Some(em::EpochConfig { duration: Uint64::new(*d), genesis_epoch: Uint64::new(*g) }),
                        },
                        &[],
                    ),
                    Op::DCreate => app.execute_contract(sender.clone(), addr.clone(), &fd::ExecuteMsg::NewEpoch {}, &[]),
                    Op::DUpdateConfig(d, g) => app.execute_contract(
                        sender.clone(),
                        addr.clone(),
                        &fd::ExecuteMsg::UpdateConfig {
                            owner: None,
                            bonding_contract_addr: None,
                            fee_collector_addr: None,
                            grace_period: None,
                            distribution_asset: None,
                            epoch_config: Some(em::EpochConfig { duration: Uint64::new(*d), genesis_epoch: Uint64::new(*g) }),
                        },
                        &[],
                    ),
                });
                match r {
                    Outcome::Ok(_) => "ok",
                    Outcome::Err(_) => "err",
                    Outcome::Panic => "panic",
                }
            }
        };
        let cur = st.observe();
        // ---- C20, observation point `Epoch{id}` of the manager: the current epoch is reported as it is,
        // and an epoch created earlier is reported with the start time it was given — as long as every
        // epoch since was created with the duration configured now (the query derives past starts from
        // the current duration; after a duration change it cannot know, which is recorded as a stat)
        if let (Some(m), true) = (st.mgr.clone(), cur.m) {
            let app = &st.app;
            let q = |id: u64| -> Outcome<em::EpochResponse> {
                let m = m.clone();
                guarded(move || app.wrap().query_wasm_smart(&m, &em::QueryMsg::Epoch { id }))
            };
            if let Outcome::Ok(e) = q(cur.mid) {
                mon.check("C20", "m_epoch_query_current", e.epoch.id == cur.mid && e.epoch.start_time.nanos() == cur.mstart, || {
                    format!("{line}: Epoch{{id: {}}} answers ({}, {}), CurrentEpoch ({}, {})", cur.mid, e.epoch.id, e.epoch.start_time.nanos(), cur.mid, cur.mstart)
                });
            } else {
                mon.check("C20", "m_epoch_query_current", false, || format!("{line}: Epoch{{id: current}} failed"));
            }
            let n = st.hist_m.len();
            let mut same_duration = true;
            for k in (0..n.saturating_sub(1)).rev().take(4) {
                // epochs k+1 .. were created with these durations
                same_duration = same_duration && st.hist_m[k + 1].2 == cur.mdur;
                let (id, start, _) = st.hist_m[k];
                if st.hist_m[n - 1].0 != cur.mid {
                    break;
                }
                if !same_duration {
                    mon.stat("m_epoch_query_past_after_duration_change(not judged)");
                    continue;
                }
                match q(id) {
                    Outcome::Ok(e) => {
                        mon.stat("m_epoch_query_past_judged");
                        if start % 1_000_000_000 != 0 || cur.mdur % 1_000_000_000 != 0 {
                            mon.stat("m_epoch_query_past_judged_subsecond");
                        }
                        mon.check("C20", "m_epoch_query_reports_recorded_start", e.epoch.id == id && e.epoch.start_time.nanos() == start, || {
                            format!("{line}: Epoch{{id: {id}}} answers start {}, the epoch was created with start {start} (current epoch {} starts {}, duration {})", e.epoch.start_time.nanos(), cur.mid, cur.mstart, cur.mdur)
                        });
                    }
                    _ => mon.stat("m_epoch_query_past_failed(arithmetic)"),
                }
            }
        }
        // ---- C18 on a distributor WITH EPOCHS: the stored epoch duration is at least a day after every
        // operation (the configuration engine has no epochs; this one updates the epoch config between them)
        if cur.d {
            mon.check("C18", "config_ok_epoch_duration", cur.ddur >= DAY, || format!("{line}: distributor stores epoch duration {} (epoch {})", cur.ddur, cur.did));
            if cur.did > 0 && cur.ddur != prev.ddur {
                mon.stat("d_duration_changed_with_epochs_present");
            }
        }
        // histories of created epochs
        if outcome == "ok" {
            match op {
                Op::MCreate => {
                    st.hist_m.push((cur.mid, cur.mstart, prev.mdur));
                    let (ids, starts) = history_ok(&st.hist_m);
                    let h = st.hist_m.clone();
                    mon.check("C20", "m_history_ids_gap_free", ids, || format!("{line}: manager epochs so far {:?}", h));
                    mon.check("C20", "m_history_starts_strictly_increasing", starts, || {
                        format!("{line}: manager epochs so far (id,start,duration applied) {:?}", h)
                    });
                }
                Op::DCreate => {
                    st.hist_d.push((cur.did, cur.dstart));
                    let h: Vec<(u64, u64, u64)> = st.hist_d.iter().map(|(i, s)| (*i, *s, 1)).collect();
                    let (ids, starts) = history_ok(&h);
                    let first_is_one = st.hist_d[0].0 == 1;
                    mon.check("C20", "d_history_ids_gap_free", ids && first_is_one, || format!("{line}: distributor epochs so far {:?}", h));
                    mon.check("C20", "d_history_starts_strictly_increasing", starts, || {
                        format!("{line}: distributor epochs so far {:?}", h)
                    });
                    // what the contract stored under every id is what was observed when it was created
                    let d = st.dist.clone().unwrap();
                    let mut stored_ok = true;
                    for (id, start) in &st.hist_d {
                        let e: fd::EpochResponse =
                            st.app.wrap().query_wasm_smart(&d, &fd::QueryMsg::Epoch { id: Uint64::new(*id) }).unwrap();
                        stored_ok &= e.epoch.id.u64() == *id && e.epoch.start_time.nanos() == *start;
                    }
                    mon.check("C20", "d_stored_epochs_match_history", stored_ok, || format!("{line}: {:?}", h));
                }
                _ => {}
            }
        }
        st.prev = cur.clone();
        let line_owned = line.to_string();
        self.monitors(mon, &op, now, outcome, &prev, &cur, &line_owned);
        format!("{outcome} {}", cur.show())
    }

    fn next_op(&mut self, rng: &mut Rng, step: u64) -> Option<String> {
        if step == 0 {
            // ---- case parameters
            let dur = |rng: &mut Rng, allow_short: bool| -> u64 {
                match rng.below(100) {
                    0..=54 => DAY,
                    55..=74 => rng.range(DAY, 30 * DAY),
                    75..=79 => DAY + 1,
                    80..=84 => 7 * DAY,
                    85..=92 if allow_short => *rng.pick(&[0u64, 1, 1000, 3_600_000_000_000, DAY - 1]),
                    93..=94 => 1u64 << 62,
                    _ => DAY,
                }
            };
            let mdur = dur(rng, true);
            let short_ok = rng.chance(1, 2);
            let ddur = dur(rng, short_ok);
            let t0: u64 = match rng.below(100) {
                0..=39 => 1_571_797_419_879_305_533,
                40..=59 => rng.range(1_600_000_000_000_000_000, 1_900_000_000_000_000_000),
                60..=77 => rng.range(0, 3 * DAY),
                78..=82 => u64::MAX - rng.range(0, 6) * mdur.max(ddur).min(1u64 << 58) - rng.range(0, 2),
                _ => rng.log_uniform(64) as u64,
            };
            let off = |rng: &mut Rng| -> u64 {
                *rng.pick(&[0u64, 0, 1, 1_000_000_000, 3_600_000_000_000, DAY, DAY + 1, 3 * DAY])
            };
            let mut mstart = t0.saturating_add(off(rng));
            let mut mgen = mstart;
            match rng.below(40) {
                0 => mstart = t0.saturating_sub(1), // start in the past (rejected unless t0 = 0)
                1 => mgen = mstart.saturating_add(1), // genesis != start (rejected)
                2 => mgen = mstart.saturating_sub(1),
                _ => {}
            }
            if rng.below(40) == 0 {
                mgen = mstart; // keep equal after a past start
            }
            let dgen: u64 = match rng.below(20) {
                0..=10 => t0.saturating_add(off(rng)),
                11..=14 => t0.saturating_sub(off(rng)),
                15 => 0,
                16 => t0.saturating_sub(rng.range(1, 5) * ddur.min(1 << 58)),
                _ => t0.saturating_add(rng.range(2, 10) * DAY),
            };
            let mid0: u64 = match rng.below(20) {
                0..=7 => 0,
                8..=13 => 1,
                14..=16 => rng.range(2, 1000),
                17 => u64::MAX - rng.range(0, 3),
                _ => rng.next(),
            };
            self.n_ops = rng.range(10, 40);
            self.marathon = rng.chance(1, 30);
            let (t0, mid0, mstart, mdur, mgen, ddur, dgen) = if self.marathon {
                self.n_ops = 640;
                let t0 = 1_571_797_419_879_305_533u64;
                (t0, rng.below(3), t0, DAY + rng.below(2), t0, DAY, t0 + rng.below(2))
            } else {
                (t0, mid0, mstart, mdur, mgen, ddur, dgen)
            };
            let nh = rng.below(4) as usize;
            let mut ks: Vec<usize> = vec![0, 1, 2];
            // random order of registration
            for i in (1..ks.len()).rev() {
                let j = rng.below(i as u64 + 1) as usize;
                ks.swap(i, j);
            }
            self.init_hooks = ks[..nh].to_vec();
            self.burst = 0;
            self.st = None;
            return Some(format!(
                "init epochs t0={t0} mid0={mid0} mstart={mstart} mdur={mdur} mgen={mgen} ddur={ddur} dgen={dgen}"
            ));
        }
        let st = self.st.as_ref()?;
        let p = st.prev.clone();
        if !p.m && !p.d {
            return None;
        }
        let limit = if p.m && p.d { self.n_ops } else { 5 };
        if step > limit {
            return None;
        }
        let last = st.now;
        let height0 = st.height;
        // ---- register the initial hooks first
        if p.m && (step as usize) <= self.init_hooks.len() {
            let k = self.init_hooks[step as usize - 1];
            return Some(format!("{height0} {last} owner m_add_hook {k}"));
        }
        if self.marathon && p.m && p.d {
            // the first op jumps ~310 durations ahead; from then on every creation in that block is due
            let far = (p.mgen.max(p.dgen) as u128 + 310 * (p.mdur.max(p.ddur) as u128)).min(u64::MAX as u128) as u64;
            let t = last.max(far);
            let height = if t != last { height0 + 1 } else { height0 };
            let who = if rng.chance(1, 6) { ["hook0", "hook1", "hook2"][rng.below(3) as usize] } else { *rng.pick(&SENDERS) };
            return Some(if step % 2 == 0 { format!("{height} {t} {who} m_create") } else { format!("{height} {t} {who} d_create") });
        }
        // ---- choose the op
        let kind: u8 = if self.burst > 0 && rng.chance(4, 5) {
            self.burst -= 1;
            self.burst_op
        } else {
            match rng.below(100) {
                0..=39 => 0,  // m_create
                40..=74 => 1, // d_create
                75..=81 => 2, // add hook
                82..=88 => 3, // remove hook
                89..=93 => 4, // m_update_config
                _ => 5,       // d_update_config
            }
        };
        // ---- choose the block time
        let m_due = p.mstart as u128 + p.mdur as u128;
        let d_first = p.did == 0 && p.dstart == 0;
        let d_due = if d_first { p.dgen as u128 } else { p.dstart as u128 + p.ddur as u128 };
        let (due, dur, cur_start) = if kind == 1 || (kind >= 2 && rng.chance(1, 2)) {
            (d_due, p.ddur as u128, p.dstart as u128)
        } else {
            (m_due, p.mdur as u128, p.mstart as u128)
        };
        let in_burst = self.burst > 0;
        let mut t: u128 = if in_burst && rng.chance(9, 10) {
            last as u128
        } else {
            match rng.below(100) {
                0..=11 => due.saturating_sub(1),
                12..=29 => due,
                30..=39 => due + 1,
                40..=49 => {
                    // several durations late: catch-up in one block follows
                    let j = rng.range(1, 4) as u128;
                    self.burst = j as u64 + 2;
                    self.burst_op = if kind <= 1 { kind } else { rng.below(2) as u8 };
                    due + j * dur + [0u128, 0, 1][rng.below(3) as usize] - if rng.chance(1, 4) && dur > 0 { 1 } else { 0 }
                }
                50..=57 => last as u128,     // same block again
                58..=61 => last as u128 + 1, // 1 ns later
                62..=67 => due.saturating_sub(dur / 2),
                68..=71 => cur_start.saturating_sub(1), // just before the current epoch's start (pre-genesis)
                72..=74 => cur_start,
                75..=79 => due + rng.below((dur.min(u64::MAX as u128) as u64).saturating_add(1)) as u128,
                80..=84 => due + dur.saturating_sub(1),
                85..=87 => dur.saturating_sub(1), // tiny absolute times (distributor's first-epoch quirk)
                88..=89 => dur,
                _ => last as u128 + rng.range(1, 5_000_000_000) as u128,
            }
        };
        t = t.min(u64::MAX as u128);
        let backwards = rng.chance(1, 40);
        if !backwards && t < last as u128 {
            // the chosen boundary already lies in the past (this clock is behind): stay in the block, move
            // 1 ns on, or aim at the later of the two clocks' next boundaries instead
            let later = m_due.max(d_due);
            t = match rng.below(10) {
                0..=3 => last as u128,
                4 => last as u128 + 1,
                5 => later.saturating_sub(1),
                6..=7 => later,
                8 => later + 1,
                _ => last as u128 + rng.range(1, DAY) as u128,
            };
            t = t.min(u64::MAX as u128).max(last as u128);
        }
        let t = t as u64;
        let height = if t != last { height0 + 1 } else { height0 };
        let anyone = if rng.chance(1, 5) { ["hook0", "hook1", "hook2"][rng.below(3) as usize] } else { *rng.pick(&SENDERS) };
        let admin = if rng.chance(4, 5) { "owner" } else { anyone };
        let cfg_dur = |rng: &mut Rng, short_ok: bool| -> u64 {
            match rng.below(10) {
                0..=3 => DAY,
                4..=5 => rng.range(DAY, 10 * DAY),
                6 => 2 * DAY,
                7 if short_ok => *rng.pick(&[0u64, 1, DAY - 1, DAY / 2]),
                8 => DAY - 1,
                _ => 3 * DAY,
            }
        };
        Some(match kind {
            0 => format!("{height} {t} {anyone} m_create"),
            1 => format!("{height} {t} {anyone} d_create"),
            2 => format!("{height} {t} {admin} m_add_hook {}", rng.below(NREC as u64)),
            3 => format!("{height} {t} {admin} m_remove_hook {}", rng.below(NREC as u64)),
            4 => {
                let d = cfg_dur(rng, true);
                let g = if rng.chance(1, 2) { p.mgen } else { rng.next() };
                format!("{height} {t} {admin} m_update_config {d} {g}")
            }
            _ => {
                let short_ok = rng.chance(1, 2);
                let d = cfg_dur(rng, short_ok);
                let g = match rng.below(4) {
                    0 => p.dgen,
                    1 => t.saturating_add(DAY),
                    2 => t.saturating_sub(1),
                    _ => rng.next(),
                };
                format!("{height} {t} {admin} d_update_config {d} {g}")
            }
        })
    }
}
